//! MIR fact extractor for the cedar static checks.
//!
//! Runs as RUSTC_WORKSPACE_WRAPPER under `cargo +nightly check`. For every
//! workspace crate it writes one JSONL file into $CEDAR_FACTS_DIR with one
//! record per MIR body, per local ADT and per local static. The driver is
//! deliberately dumb: it records what rustc resolved; all rules live in Python.
#![feature(rustc_private)]
#![allow(clippy::all)]

extern crate rustc_abi;
extern crate rustc_driver;
extern crate rustc_hir;
extern crate rustc_interface;
extern crate rustc_middle;
extern crate rustc_session;
extern crate rustc_span;

use rustc_hir::def::DefKind;
use rustc_hir::def_id::DefId;
use rustc_middle::mir::interpret::{GlobalAlloc, Scalar};
use rustc_middle::mir::{
    AggregateKind, AssertKind, BasicBlock, Body, Const, ConstValue, Operand, Place, PlaceElem,
    Rvalue, StatementKind, TerminatorKind,
};
use rustc_middle::ty::print::{with_crate_prefix, with_no_trimmed_paths};
use rustc_middle::ty::{self, Ty, TyCtxt};
use rustc_span::Span;
use std::fmt::Write as _;

struct Cb;

fn js(s: &str) -> String {
    let mut o = String::with_capacity(s.len() + 2);
    o.push('"');
    for c in s.chars() {
        match c {
            '"' => o.push_str("\\\""),
            '\\' => o.push_str("\\\\"),
            '\n' => o.push_str("\\n"),
            '\r' => o.push_str("\\r"),
            '\t' => o.push_str("\\t"),
            c if (c as u32) < 0x20 => {
                let _ = write!(o, "\\u{:04x}", c as u32);
            }
            c => o.push(c),
        }
    }
    o.push('"');
    o
}

static CRATE: std::sync::OnceLock<String> = std::sync::OnceLock::new();

/// rustc prints local paths as `crate::a::b`; rewrite to `<crate_name>::a::b`
/// so that paths are the same whether seen from inside or outside the crate.
/// Drop generic-argument segments that consist only of lifetimes (`::<'a>`,
/// `::<'_, 'b>`): they carry no information for the rules and would make anchors
/// depend on how a lifetime parameter happens to be spelled.
fn strip_lifetime_segments(s: String) -> String {
    if !s.contains("::<'") {
        return s;
    }
    let b = s.as_bytes();
    let mut o = String::with_capacity(s.len());
    let mut i = 0;
    while i < b.len() {
        if s[i..].starts_with("::<'") {
            // scan to the matching '>'
            let mut j = i + 3;
            let mut only_lt = true;
            while j < b.len() && b[j] != b'>' {
                let c = b[j];
                if !(c == b'\'' || c == b'_' || c == b',' || c == b' ' || c.is_ascii_lowercase() || c.is_ascii_digit()) {
                    only_lt = false;
                    break;
                }
                j += 1;
            }
            if only_lt && j < b.len() {
                i = j + 1;
                continue;
            }
        }
        let ch = s[i..].chars().next().unwrap();
        o.push(ch);
        i += ch.len_utf8();
    }
    o
}

fn fixcrate(s: String) -> String {
    let s = strip_lifetime_segments(s);
    if !s.contains("crate::") {
        return s;
    }
    let name = CRATE.get().map(|s| s.as_str()).unwrap_or("crate");
    let mut o = String::with_capacity(s.len() + 16);
    let b = s.as_bytes();
    let mut i = 0;
    while i < b.len() {
        if s[i..].starts_with("crate::") {
            let prev_ok = i == 0 || !(b[i - 1].is_ascii_alphanumeric() || b[i - 1] == b'_');
            if prev_ok {
                o.push_str(name);
                o.push_str("::");
                i += 7;
                continue;
            }
        }
        let ch = s[i..].chars().next().unwrap();
        o.push(ch);
        i += ch.len_utf8();
    }
    o
}

fn path_str(tcx: TyCtxt<'_>, did: DefId) -> String {
    fixcrate(with_crate_prefix!(with_no_trimmed_paths!(tcx.def_path_str(did))))
}

fn ty_str(ty: Ty<'_>) -> String {
    fixcrate(with_crate_prefix!(with_no_trimmed_paths!(ty.to_string())))
}

struct Cx<'a, 'tcx> {
    tcx: TyCtxt<'tcx>,
    body: &'a Body<'tcx>,
    did: DefId,
}

impl<'a, 'tcx> Cx<'a, 'tcx> {
    fn line(&self, sp: Span) -> (String, usize) {
        let sp = sp.source_callsite();
        let sm = self.tcx.sess.source_map();
        let loc = sm.lookup_char_pos(sp.lo());
        let name = format!("{}", loc.file.name.prefer_local_unconditionally());
        (name, loc.line)
    }

    fn macro_name(&self, sp: Span) -> Option<String> {
        if !sp.from_expansion() {
            return None;
        }
        // innermost-to-outermost; record the whole chain joined by '>'
        let mut names = Vec::new();
        for e in sp.macro_backtrace() {
            if let rustc_span::ExpnKind::Macro(mk, name) = e.kind {
                let k = match mk {
                    rustc_span::MacroKind::Bang => "b",
                    rustc_span::MacroKind::Attr => "a",
                    rustc_span::MacroKind::Derive => "d",
                };
                names.push(format!("{}:{}", k, name));
            } else {
                names.push(format!("{:?}", e.kind).split('(').next().unwrap_or("").to_string());
            }
        }
        Some(names.join(">"))
    }

    fn place(&self, p: &Place<'tcx>) -> String {
        let mut o = String::new();
        let _ = write!(o, "[{}", p.local.as_usize());
        let mut pty = rustc_middle::mir::PlaceTy::from_ty(self.body.local_decls[p.local].ty);
        for elem in p.projection.iter() {
            o.push(',');
            match elem {
                PlaceElem::Deref => o.push_str("\"*\""),
                PlaceElem::Field(f, _) => {
                    let (mut fname, mut adt) = (String::new(), String::new());
                    if let ty::Adt(def, _) = pty.ty.kind() {
                        let v = pty.variant_index.unwrap_or(rustc_abi::FIRST_VARIANT);
                        if def.variants().len() > v.as_usize() {
                            let var = def.variant(v);
                            if let Some(fd) = var.fields.get(f) {
                                fname = fd.name.to_string();
                            }
                        }
                        adt = path_str(self.tcx, def.did());
                    } else if let ty::Closure(d, _) = pty.ty.kind() {
                        adt = format!("closure:{}", path_str(self.tcx, *d));
                    }
                    let _ = write!(o, "[\"f\",{},{},{}]", f.as_usize(), js(&fname), js(&adt));
                }
                PlaceElem::Downcast(name, vi) => {
                    let n = name.map(|s| s.to_string()).unwrap_or_else(|| format!("{}", vi.as_usize()));
                    let _ = write!(o, "[\"d\",{},{}]", js(&n), vi.as_usize());
                }
                PlaceElem::Index(l) => {
                    let _ = write!(o, "[\"i\",{}]", l.as_usize());
                }
                PlaceElem::ConstantIndex { offset, from_end, .. } => {
                    let _ = write!(o, "[\"ci\",{},{}]", offset, from_end);
                }
                PlaceElem::Subslice { from, to, from_end } => {
                    let _ = write!(o, "[\"sub\",{},{},{}]", from, to, from_end);
                }
                _ => o.push_str("[\"o\"]"),
            }
            pty = pty.projection_ty(self.tcx, elem);
        }
        o.push(']');
        o
    }

    fn konst(&self, c: &Const<'tcx>) -> String {
        let ty = c.ty();
        let mut o = String::new();
        let _ = write!(o, "{{\"t\":{}", js(&ty_str(ty)));
        if let ty::FnDef(d, args) = ty.kind() {
            let _ = write!(o, ",\"fn\":{}", js(&path_str(self.tcx, *d)));
            let _ = write!(o, ",\"g\":{}", js(&fixcrate(with_crate_prefix!(with_no_trimmed_paths!(format!("{:?}", args))))));
            // resolved
            if let Some(r) = self.resolve(*d, args) {
                let _ = write!(o, ",\"rf\":{}", js(&r));
            }
        }
        let env = ty::TypingEnv::post_analysis(self.tcx, self.did);
        match c {
            Const::Val(ConstValue::Scalar(Scalar::Ptr(ptr, _)), _) => {
                let aid = ptr.provenance.alloc_id();
                match self.tcx.try_get_global_alloc(aid) {
                    Some(GlobalAlloc::Static(sd)) => {
                        let _ = write!(o, ",\"static\":{}", js(&path_str(self.tcx, sd)));
                    }
                    Some(GlobalAlloc::Function { instance }) => {
                        let _ = write!(o, ",\"fnptr\":{}", js(&path_str(self.tcx, instance.def_id())));
                    }
                    Some(GlobalAlloc::Memory(alloc)) => {
                        self.bytes_of(&mut o, ty, alloc);
                    }
                    _ => {}
                }
            }
            Const::Unevaluated(uv, _) if uv.promoted.is_some() && is_byte_array_ref(ty) => {
                // format_args! templates are promoted `&[u8; N]` constants
                if let Ok(ConstValue::Scalar(Scalar::Ptr(ptr, _))) = c.eval(self.tcx, env, rustc_span::DUMMY_SP) {
                    if let Some(GlobalAlloc::Memory(alloc)) = self.tcx.try_get_global_alloc(ptr.provenance.alloc_id()) {
                        self.bytes_of(&mut o, ty, alloc);
                    }
                }
            }
            Const::Unevaluated(uv, _) if uv.promoted.is_some() && is_small_adt_ref(ty) => {
                // promoted `&Enum::Variant` / `&Some(Enum::Variant)` operands of comparisons: render the value
                if let Ok(cv @ ConstValue::Scalar(Scalar::Ptr(ptr, _))) = c.eval(self.tcx, env, rustc_span::DUMMY_SP) {
                    if let Some(GlobalAlloc::Memory(alloc)) = self.tcx.try_get_global_alloc(ptr.provenance.alloc_id()) {
                        let a = alloc.inner();
                        if a.len() <= 16 && a.provenance().ptrs().is_empty() {
                            let _ = cv;
                            let inner = match ty.kind() { ty::Ref(_, i, _) => *i, _ => ty };
                            let (prov, off) = ptr.into_raw_parts();
                            let pointee = ConstValue::Indirect { alloc_id: prov.alloc_id(), offset: off };
                            let shown = with_no_trimmed_paths!(format!("{}", Const::Val(pointee, inner)));
                            if shown.len() <= 300 {
                                let _ = write!(o, ",\"pp\":{}", js(&fixcrate(shown)));
                            }
                        }
                    }
                }
                let _ = write!(o, ",\"cdef\":{}", js(&path_str(self.tcx, uv.def)));
            }
            Const::Unevaluated(uv, _) if !ty.is_fn() && ty.is_ref() => {
                // named `const X: &str = "..."`: evaluate to recover the literal (never for generic consts)
                let generic = uv.args.iter().any(|a| a.as_type().map(|t| !t.is_ty_var() && matches!(t.kind(), ty::Param(_))).unwrap_or(false));
                if !generic && uv.args.is_empty() {
                    if let Ok(cv @ ConstValue::Slice { .. }) = c.eval(self.tcx, env, rustc_span::DUMMY_SP) {
                        if let Some(bytes) = cv.try_get_slice_bytes_for_diagnostics(self.tcx) {
                            if let Ok(s) = std::str::from_utf8(bytes) {
                                if s.len() <= 400 {
                                    let _ = write!(o, ",\"s\":{}", js(s));
                                }
                            }
                        }
                    }
                }
                let _ = write!(o, ",\"cdef\":{}", js(&path_str(self.tcx, uv.def)));
            }
            Const::Unevaluated(uv, _) => {
                // named constant (e.g. a thread_local! LocalKey): record which one
                let _ = write!(o, ",\"cdef\":{}", js(&path_str(self.tcx, uv.def)));
            }
            Const::Ty(_, ct) => {
                // pattern constants (`match s { "contains" => .. }`) are type-level constants (valtrees)
                if let Some(v) = ct.try_to_value() {
                    if let Some(bytes) = v.try_to_raw_bytes(self.tcx) {
                        if let Ok(st) = std::str::from_utf8(bytes) {
                            if st.len() <= 400 && matches!(ty.kind(), ty::Ref(_, inner, _) if inner.is_str()) {
                                let _ = write!(o, ",\"s\":{}", js(st));
                            }
                        }
                    }
                }
            }
            Const::Val(cv @ ConstValue::Slice { .. }, _) => {
                if let Some(bytes) = cv.try_get_slice_bytes_for_diagnostics(self.tcx) {
                    if let Ok(s) = std::str::from_utf8(bytes) {
                        if s.len() <= 400 {
                            let _ = write!(o, ",\"s\":{}", js(s));
                        }
                    }
                }
            }
            _ => {}
        }
        if ty.is_integral() || ty.is_bool() || ty.is_char() {
            if let Some(si) = c.try_eval_scalar_int(self.tcx, env) {
                let size = si.size();
                if ty.is_signed() {
                    let _ = write!(o, ",\"v\":{}", si.to_int(size));
                } else {
                    let _ = write!(o, ",\"v\":{}", si.to_uint(size));
                }
            }
        }
        o.push('}');
        o
    }

    fn bytes_of(&self, o: &mut String, ty: Ty<'tcx>, alloc: rustc_middle::mir::interpret::ConstAllocation<'tcx>) {
        if !is_byte_array_ref(ty) {
            return;
        }
        let a = alloc.inner();
        let n = a.len();
        if n > 600 {
            return;
        }
        let bytes = a.inspect_with_uninit_and_ptr_outside_interpreter(0..n);
        let mut hex = String::with_capacity(n * 2);
        for b in bytes {
            let _ = write!(hex, "{:02x}", b);
        }
        let _ = write!(o, ",\"bytes\":{}", js(&hex));
    }

    fn resolve(&self, d: DefId, args: ty::GenericArgsRef<'tcx>) -> Option<String> {
        let env = ty::TypingEnv::post_analysis(self.tcx, self.did);
        // try_resolve can ICE on unnormalizable args in rare cases; guard by catching erroneous types
        match ty::Instance::try_resolve(self.tcx, env, d, args) {
            Ok(Some(inst)) => {
                let rd = inst.def_id();
                let mut s = path_str(self.tcx, rd);
                match inst.def {
                    ty::InstanceKind::Virtual(..) => s.push_str("#virtual"),
                    ty::InstanceKind::Item(_) => {}
                    ty::InstanceKind::ClosureOnceShim { .. } => {}
                    ty::InstanceKind::FnPtrShim(..) => s.push_str("#fnptrshim"),
                    ty::InstanceKind::DropGlue(..) => s.push_str("#dropglue"),
                    ty::InstanceKind::CloneShim(..) => s.push_str("#cloneshim"),
                    _ => {}
                }
                Some(s)
            }
            _ => None,
        }
    }

    fn operand(&self, op: &Operand<'tcx>) -> String {
        match op {
            Operand::Copy(p) => format!("[\"c\",{}]", self.place(p)),
            Operand::Move(p) => format!("[\"m\",{}]", self.place(p)),
            Operand::Constant(c) => format!("[\"k\",{}]", self.konst(&c.const_)),
            _ => "[\"k\",{\"t\":\"runtime_checks\"}]".to_string(),
        }
    }

    fn rvalue(&self, rv: &Rvalue<'tcx>) -> String {
        match rv {
            Rvalue::Use(op, ..) => format!("[\"use\",{}]", self.operand(op)),
            Rvalue::Repeat(op, _) => format!("[\"repeat\",{}]", self.operand(op)),
            Rvalue::Ref(_, bk, p) => {
                let m = matches!(bk, rustc_middle::mir::BorrowKind::Mut { .. });
                format!("[\"ref\",{},{}]", self.place(p), m)
            }
            Rvalue::ThreadLocalRef(d) => format!("[\"tlref\",{}]", js(&path_str(self.tcx, *d))),
            Rvalue::RawPtr(_, p) => format!("[\"addr\",{}]", self.place(p)),
            Rvalue::Cast(k, op, ty) => {
                let ks = format!("{:?}", k);
                let ks = ks.split('(').next().unwrap_or("").to_string();
                format!("[\"cast\",{},{},{}]", js(&ks), self.operand(op), js(&ty_str(*ty)))
            }
            Rvalue::BinaryOp(op, b) => {
                let (a, c) = &**b;
                let t = a.ty(&self.body.local_decls, self.tcx);
                format!(
                    "[\"bin\",{},{},{},{}]",
                    js(&format!("{:?}", op)),
                    self.operand(a),
                    self.operand(c),
                    js(&ty_str(t))
                )
            }
            Rvalue::UnaryOp(op, a) => {
                let t = a.ty(&self.body.local_decls, self.tcx);
                format!("[\"un\",{},{},{}]", js(&format!("{:?}", op)), self.operand(a), js(&ty_str(t)))
            }
            Rvalue::Discriminant(p) => {
                let t = p.ty(&self.body.local_decls, self.tcx).ty;
                let adt = match t.kind() {
                    ty::Adt(def, _) => path_str(self.tcx, def.did()),
                    _ => String::new(),
                };
                format!("[\"disc\",{},{}]", self.place(p), js(&adt))
            }
            Rvalue::Aggregate(kind, ops) => {
                let k = match &**kind {
                    AggregateKind::Array(_) => "[\"array\"]".to_string(),
                    AggregateKind::Tuple => "[\"tuple\"]".to_string(),
                    AggregateKind::Adt(d, vi, _, _, active) => {
                        let def = self.tcx.adt_def(*d);
                        let var = def.variant(*vi);
                        let fields: Vec<String> = match active {
                            Some(f) => vec![js(&var.fields[*f].name.to_string())],
                            None => var.fields.iter().map(|f| js(&f.name.to_string())).collect(),
                        };
                        format!(
                            "[\"adt\",{},{},[{}],{}]",
                            js(&path_str(self.tcx, *d)),
                            js(&var.name.to_string()),
                            fields.join(","),
                            vi.as_usize()
                        )
                    }
                    AggregateKind::Closure(d, _) => format!("[\"closure\",{}]", js(&path_str(self.tcx, *d))),
                    AggregateKind::Coroutine(d, _) => format!("[\"coroutine\",{}]", js(&path_str(self.tcx, *d))),
                    AggregateKind::CoroutineClosure(d, _) => {
                        format!("[\"closure\",{}]", js(&path_str(self.tcx, *d)))
                    }
                    AggregateKind::RawPtr(..) => "[\"rawptr\"]".to_string(),
                };
                let os: Vec<String> = ops.iter().map(|o| self.operand(o)).collect();
                format!("[\"agg\",{},[{}]]", k, os.join(","))
            }
            Rvalue::CopyForDeref(p) => format!("[\"use\",[\"c\",{}]]", self.place(p)),
            other => {
                let d = format!("{:?}", other);
                let d: String = d.chars().take(80).collect();
                format!("[\"other\",{}]", js(&d))
            }
        }
    }

    fn bb(b: BasicBlock) -> usize {
        b.as_usize()
    }

    fn terminator(&self, t: &rustc_middle::mir::Terminator<'tcx>) -> String {
        let (file, line) = self.line(t.source_info.span);
        match &t.kind {
            TerminatorKind::Goto { target } => format!("[\"go\",{}]", Self::bb(*target)),
            TerminatorKind::SwitchInt { discr, targets } => {
                let mut arms = Vec::new();
                for (v, b) in targets.iter() {
                    arms.push(format!("[{},{}]", v, Self::bb(b)));
                }
                let dty = discr.ty(&self.body.local_decls, self.tcx);
                format!(
                    "[\"sw\",{},[{}],{},{}]",
                    self.operand(discr),
                    arms.join(","),
                    Self::bb(targets.otherwise()),
                    js(&ty_str(dty))
                )
            }
            TerminatorKind::Return => "[\"ret\"]".to_string(),
            TerminatorKind::Unreachable => "[\"unr\"]".to_string(),
            TerminatorKind::UnwindResume => "[\"resume\"]".to_string(),
            TerminatorKind::UnwindTerminate(_) => "[\"abort\"]".to_string(),
            TerminatorKind::Drop { place, target, .. } => {
                format!("[\"drop\",{},{}]", self.place(place), Self::bb(*target))
            }
            TerminatorKind::Call { func, args, destination, target, fn_span, .. } => {
                let mut info = String::from("{");
                let fty = func.ty(&self.body.local_decls, self.tcx);
                match fty.kind() {
                    ty::FnDef(d, gargs) => {
                        let _ = write!(info, "\"o\":{}", js(&path_str(self.tcx, *d)));
                        if let Some(r) = self.resolve(*d, gargs) {
                            let _ = write!(info, ",\"f\":{}", js(&r));
                        }
                        let g = fixcrate(with_crate_prefix!(with_no_trimmed_paths!(format!("{:?}", gargs))));
                        let _ = write!(info, ",\"g\":{}", js(&g));
                    }
                    _ => {
                        let _ = write!(info, "\"ptr\":{},\"pt\":{}", self.operand(func), js(&ty_str(fty)));
                    }
                }
                if let Some(m) = self.macro_name(t.source_info.span) {
                    let _ = write!(info, ",\"mac\":{}", js(&m));
                }
                let (f2, l2) = self.line(*fn_span);
                let _ = write!(info, ",\"l\":{}", l2);
                if f2 != file || true {
                    let _ = write!(info, ",\"file\":{}", js(&f2));
                }
                info.push('}');
                let os: Vec<String> = args.iter().map(|a| self.operand(&a.node)).collect();
                let tg = match target {
                    Some(b) => format!("{}", Self::bb(*b)),
                    None => "null".to_string(),
                };
                format!(
                    "[\"call\",{},[{}],{},{},{}]",
                    info,
                    os.join(","),
                    self.place(destination),
                    tg,
                    line
                )
            }
            TerminatorKind::TailCall { .. } => "[\"other\",\"tailcall\"]".to_string(),
            TerminatorKind::Assert { cond, expected, msg, target, .. } => {
                let (kind, ops): (String, Vec<String>) = match &**msg {
                    AssertKind::BoundsCheck { len, index } => {
                        ("bounds".into(), vec![self.operand(len), self.operand(index)])
                    }
                    AssertKind::Overflow(op, a, b) => {
                        (format!("overflow:{:?}", op), vec![self.operand(a), self.operand(b)])
                    }
                    AssertKind::OverflowNeg(a) => ("overflow:Neg".into(), vec![self.operand(a)]),
                    AssertKind::DivisionByZero(a) => ("divzero".into(), vec![self.operand(a)]),
                    AssertKind::RemainderByZero(a) => ("remzero".into(), vec![self.operand(a)]),
                    other => {
                        let d = format!("{:?}", other);
                        (d.split(|c| c == '(' || c == ' ' || c == '{').next().unwrap_or("").to_string(), vec![])
                    }
                };
                let mac = self.macro_name(t.source_info.span).map(|m| js(&m)).unwrap_or("null".into());
                format!(
                    "[\"as\",{},{},{},{},{},[{}],{},{}]",
                    js(&kind),
                    self.operand(cond),
                    expected,
                    Self::bb(*target),
                    line,
                    ops.join(","),
                    js(&file),
                    mac
                )
            }
            TerminatorKind::FalseEdge { real_target, .. } => format!("[\"go\",{}]", Self::bb(*real_target)),
            TerminatorKind::FalseUnwind { real_target, .. } => format!("[\"go\",{}]", Self::bb(*real_target)),
            other => {
                let d = format!("{:?}", other);
                let d: String = d.chars().take(60).collect();
                format!("[\"other\",{}]", js(&d))
            }
        }
    }
}

fn is_generated(file: &str) -> bool {
    file.contains("/out/") || file.contains("/target/") || file.contains("/build/")
}

fn dump_body<'tcx>(tcx: TyCtxt<'tcx>, did: DefId, kind: DefKind, crate_name: &str, out: &mut String) {
    let body: &Body<'tcx> = tcx.optimized_mir(did);
    let cx = Cx { tcx, body, did };
    let (file, line) = cx.line(body.span);
    let mut o = String::with_capacity(4096);
    let _ = write!(o, "{{\"fn\":{}", js(&path_str(tcx, did)));
    let _ = write!(o, ",\"crate\":{}", js(crate_name));
    let _ = write!(o, ",\"kind\":{}", js(&format!("{:?}", kind)));
    if matches!(kind, DefKind::Closure) {
        let p = tcx.typeck_root_def_id(did);
        let _ = write!(o, ",\"root\":{}", js(&path_str(tcx, p)));
        let par = tcx.parent(did);
        let _ = write!(o, ",\"parent\":{}", js(&path_str(tcx, par)));
    }
    if matches!(kind, DefKind::Fn | DefKind::AssocFn) {
        let vis = tcx.visibility(did);
        let _ = write!(o, ",\"pub\":{}", vis.is_public());
        if matches!(kind, DefKind::AssocFn) {
            let ai = tcx.associated_item(did);
            if let Some(td) = ai.trait_item_def_id() {
                let _ = write!(o, ",\"trait_item\":{}", js(&path_str(tcx, td)));
            }
            // self type of the impl, if any
            let par = tcx.parent(did);
            if matches!(tcx.def_kind(par), DefKind::Impl { .. }) {
                let st = tcx.type_of(par).instantiate_identity().skip_norm_wip();
                let _ = write!(o, ",\"self_ty\":{}", js(&ty_str(st)));
            }
        }
    }
    let _ = write!(o, ",\"file\":{},\"line\":{},\"gen\":{}", js(&file), line, is_generated(&file));
    if let Some(m) = cx.macro_name(body.span) {
        let _ = write!(o, ",\"fnmac\":{}", js(&m));
    }
    let _ = write!(o, ",\"nargs\":{}", body.arg_count);
    // locals
    o.push_str(",\"locals\":[");
    for (i, d) in body.local_decls.iter().enumerate() {
        if i > 0 {
            o.push(',');
        }
        o.push_str(&js(&ty_str(d.ty)));
    }
    o.push(']');
    // debug info
    o.push_str(",\"dbg\":[");
    let mut first = true;
    for v in body.var_debug_info.iter() {
        if let rustc_middle::mir::VarDebugInfoContents::Place(p) = &v.value {
            if !first {
                o.push(',');
            }
            first = false;
            let _ = write!(o, "[{},{}]", js(&v.name.to_string()), cx.place(p));
        }
    }
    o.push(']');
    o.push_str(",\"blocks\":[");
    for (bi, data) in body.basic_blocks.iter_enumerated() {
        if bi.as_usize() > 0 {
            o.push(',');
        }
        let _ = write!(o, "{{\"cl\":{},\"st\":[", data.is_cleanup);
        let mut first = true;
        for st in data.statements.iter() {
            let s = match &st.kind {
                StatementKind::Assign(b) => {
                    let (p, rv) = &**b;
                    let (_, l) = cx.line(st.source_info.span);
                    Some(format!("[\"a\",{},{},{}]", cx.place(p), cx.rvalue(rv), l))
                }
                StatementKind::SetDiscriminant { place, variant_index } => {
                    Some(format!("[\"sd\",{},{}]", cx.place(place), variant_index.as_usize()))
                }
                _ => None,
            };
            if let Some(s) = s {
                if !first {
                    o.push(',');
                }
                first = false;
                o.push_str(&s);
            }
        }
        o.push_str("],\"t\":");
        match &data.terminator {
            Some(t) => o.push_str(&cx.terminator(t)),
            None => o.push_str("[\"none\"]"),
        }
        o.push('}');
    }
    o.push_str("]}\n");
    out.push_str(&o);
}

fn dump_adt<'tcx>(tcx: TyCtxt<'tcx>, did: DefId, crate_name: &str, out: &mut String) {
    let def = tcx.adt_def(did);
    let mut o = String::new();
    let _ = write!(o, "{{\"adt\":{},\"crate\":{},\"akind\":{}", js(&path_str(tcx, did)), js(crate_name), js(def.descr()));
    let _ = write!(o, ",\"pub\":{}", tcx.visibility(did).is_public());
    o.push_str(",\"variants\":[");
    for (i, v) in def.variants().iter().enumerate() {
        if i > 0 {
            o.push(',');
        }
        let _ = write!(o, "{{\"name\":{},\"fields\":[", js(&v.name.to_string()));
        for (j, f) in v.fields.iter().enumerate() {
            if j > 0 {
                o.push(',');
            }
            let fty = tcx.type_of(f.did).instantiate_identity().skip_norm_wip();
            let _ = write!(
                o,
                "[{},{},{}]",
                js(&f.name.to_string()),
                js(&ty_str(fty)),
                tcx.visibility(f.did).is_public()
            );
        }
        o.push_str("]}");
    }
    o.push_str("]}\n");
    out.push_str(&o);
}

fn dump_static<'tcx>(tcx: TyCtxt<'tcx>, did: DefId, crate_name: &str, out: &mut String) {
    let ty = tcx.type_of(did).instantiate_identity().skip_norm_wip();
    let env = ty::TypingEnv::post_analysis(tcx, did);
    let freeze = ty.is_freeze(tcx, env);
    let mutbl = tcx.is_mutable_static(did);
    let tl = tcx.is_thread_local_static(did);
    let _ = write!(
        out,
        "{{\"static\":{},\"crate\":{},\"ty\":{},\"mut\":{},\"tl\":{},\"freeze\":{}}}\n",
        js(&path_str(tcx, did)),
        js(crate_name),
        js(&ty_str(ty)),
        mutbl,
        tl,
        freeze
    );
}

impl rustc_driver::Callbacks for Cb {
    fn after_analysis<'tcx>(
        &mut self,
        _c: &rustc_interface::interface::Compiler,
        tcx: TyCtxt<'tcx>,
    ) -> rustc_driver::Compilation {
        let dir = match std::env::var("CEDAR_FACTS_DIR") {
            Ok(d) => d,
            Err(_) => return rustc_driver::Compilation::Continue,
        };
        let crate_name = tcx.crate_name(rustc_hir::def_id::LOCAL_CRATE).to_string();
        if crate_name.starts_with("build_script") {
            return rustc_driver::Compilation::Continue;
        }
        let _ = CRATE.set(crate_name.clone());
        let mut out = String::with_capacity(1 << 24);
        let mut nbodies = 0usize;
        for ldid in tcx.hir_body_owners() {
            let did = ldid.to_def_id();
            let kind = tcx.def_kind(did);
            match kind {
                DefKind::Fn | DefKind::AssocFn | DefKind::Closure => {
                    // skip const fns' CTFE-only bodies? optimized_mir works for const fn too.
                    if tcx.is_constructor(did) {
                        continue;
                    }
                    dump_body(tcx, did, kind, &crate_name, &mut out);
                    nbodies += 1;
                }
                _ => {}
            }
        }
        for id in tcx.hir_crate_items(()).definitions() {
            let did = id.to_def_id();
            match tcx.def_kind(did) {
                DefKind::Struct | DefKind::Enum | DefKind::Union => dump_adt(tcx, did, &crate_name, &mut out),
                DefKind::Static { .. } => dump_static(tcx, did, &crate_name, &mut out),
                _ => {}
            }
        }
        let is_bin = tcx.crate_types().iter().any(|t| matches!(t, rustc_session::config::CrateType::Executable));
        let suffix = if is_bin { "bin" } else { "lib" };
        let _ = write!(
            out,
            "{{\"meta\":{},\"bodies\":{},\"crate_type\":{}}}\n",
            js(&crate_name),
            nbodies,
            js(suffix)
        );
        let path = format!("{}/{}.{}.{}.jsonl", dir, crate_name, suffix, std::process::id());
        let tmp = format!("{}.tmp", path);
        std::fs::write(&tmp, out.as_bytes()).expect("write facts");
        std::fs::rename(&tmp, &path).expect("rename facts");
        rustc_driver::Compilation::Continue
    }
}

fn is_small_adt_ref(ty: Ty<'_>) -> bool {
    if let ty::Ref(_, inner, _) = ty.kind() {
        if let ty::Adt(def, _) = inner.kind() {
            return def.is_enum();
        }
    }
    false
}

fn is_byte_array_ref(ty: Ty<'_>) -> bool {
    if let ty::Ref(_, inner, _) = ty.kind() {
        if let ty::Array(el, _) = inner.kind() {
            return matches!(el.kind(), ty::Uint(ty::UintTy::U8));
        }
    }
    false
}

fn main() {
    let mut args: Vec<String> = std::env::args().collect();
    // wrapper mode: argv[1] is the path of the real rustc
    if args.len() > 1 && (args[1].ends_with("rustc") || args[1].contains("/rustc")) {
        args.remove(1);
    }
    rustc_driver::run_compiler(&args, &mut Cb);
}
