#!/usr/bin/env python3
"""Generate a seeding prompt for a fresh sub-agent: selftest/mkprompt.py <Cxx> <tag>  -> /tmp/seedprompts/<Cxx><tag>.txt
The prompt contains only the property text, workspace instructions and one-line summaries of changes other agents already
produced for this property (so that they are not repeated) — nothing about the checks in /verif."""
import json, os, sys, glob
ROOT = os.path.dirname(os.path.dirname(os.path.abspath(__file__)))
pid, tag = sys.argv[1], sys.argv[2]
prop = [json.loads(l) for l in open(os.path.join(ROOT, "properties.jsonl")) if json.loads(l)["id"] == pid][0]
name = pid + tag
files = ", ".join(prop["anchors"]["files"])
explored = []
for d in sorted(glob.glob(os.path.join(ROOT, "seeded", pid + "*"))):
    try:
        m = json.load(open(os.path.join(d, "meta.json")))
        explored.append("- " + m["summary"][:300])
    except Exception:
        pass
txt = f"""You are helping test a verification effort for the Rust project cedar-policy/cedar (the Cedar authorization policy language). Your job: produce TWO independent, realistic, subtle code changes ("seeded defects") to the library, each of which BREAKS the semantic property stated below while the code still compiles and the existing test suite still passes.

## The property ({pid}: {prop['title']})

{prop['statement']}

Quantifier: {prop['quantifier']['text']}

Files where the mechanisms that make it hold mostly live (for orientation; you may change anything in the library source): {files}

## Your private workspace

Work ONLY inside your own scratch git worktree; never edit /repo itself and never read or touch /verif. Set it up like this:

    git -C /repo worktree add --detach /tmp/wt-{name} HEAD
    cd /tmp/wt-{name}
    export CARGO_NET_OFFLINE=true CARGO_TARGET_DIR=/tmp/wt-{name}/target
    cp -r /repo/target /tmp/wt-{name}/target    # warm dependency cache (optional, saves compile time)

There is no network: always pass --offline to cargo. The machine is shared: use at most `-j 6` for cargo builds (e.g. `cargo test -j 6 --offline ...`, `cargo nextest run --build-jobs 6 --test-threads 6 --offline ...`).

## What makes a good seeded defect

- It is a change a plausible refactor/bug-fix/optimisation could introduce: a few lines, in non-test library code (src/ of cedar-policy-core, cedar-policy, cedar-policy-cli, cedar-policy-formatter, cedar-policy-symcc ...). Do not edit, delete or add tests in the patch itself, and do not touch Cargo.toml/features.
- It must NOT be exposed by ordinary use at once. It should need something specific to manifest: an unusual input, a multi-step sequence of operations, a specific combination of conditions, a rarely used entry point or feature flag (e.g. `--features cedar-policy/experimental`, `tpe`, `partial-eval`, `protobufs`, `entity-manifest`), or two cooperating sites that each look fine alone.
- The code must still compile (default features AND `--features cedar-policy/experimental`) and the EXISTING test suite must still pass: at minimum run the tests of every crate you touched plus dependants, e.g. `cargo nextest run -p cedar-policy-core -p cedar-policy --offline --build-jobs 6 --test-threads 6 --no-fail-fast` (or `cargo test -p ... --offline -j 6`). If an existing test fails, the change is too visible: pick a different one.
- The two changes must differ in mechanism and location (different functions; ideally a different aspect/clause of the property).
- Each change must genuinely violate the property as stated (user-observable wrong behaviour through the public API of the `cedar-policy` crate or `cedar-policy-core`), not merely change internals.

## Deliverables (write them under /tmp/seed-out/{name}/a/ and /tmp/seed-out/{name}/b/)

For each change:
1. `patch.diff` — `git diff` of the change against HEAD (library source only), applicable with `git apply` at the repository root.
2. `demo.rs` — a demonstration: a Rust integration test file that can be dropped in as `cedar-policy/tests/seed_demo.rs` (or `cedar-policy-core/tests/seed_demo.rs` — say which in meta.json, and which cargo features it needs) containing one or more `#[test]` functions that FAIL with the patch applied and PASS without it. Use only the public API of the crate it is placed in, and only crates already available as dependencies/dev-dependencies of that crate. Verify both directions yourself (run it with and without the patch).
3. `meta.json` — {{"property": "{pid}", "summary": "one sentence: what was changed", "needs_to_manifest": "what specific input/sequence/feature is needed to see the wrong behaviour", "demo_location": "path where demo.rs must be placed", "demo_cmd": "exact cargo command to run the demo", "tests_run": "exact commands you ran for the existing suite and their pass/fail counts", "files_changed": [...]}}

When finished (or if you have to give up on one of the two), restore your worktree to HEAD (`git -C /tmp/wt-{name} checkout -- . && git -C /tmp/wt-{name} clean -fdq -e target`), then remove it together with its build output: `git -C /repo worktree remove --force /tmp/wt-{name}` and make sure `/tmp/wt-{name}` no longer exists. Keep /tmp/seed-out/{name}/.

Report back briefly: for each of a/b, the summary, what it needs to manifest, and the test evidence (commands + counts). Do not include anything else.

"""
if explored:
    txt += "\n## Already explored by someone else (do NOT repeat these or close variants; look at different functions and different clauses of the property)\n" + "\n".join(explored) + "\n"
txt += "\nNote: do not use `git stash` (the stash is shared between worktrees of the same repository); keep work-in-progress as files under /tmp instead.\n"
os.makedirs("/tmp/seedprompts", exist_ok=True)
open(f"/tmp/seedprompts/{name}.txt", "w").write(txt)
print(f"/tmp/seedprompts/{name}.txt", len(explored), "explored")
