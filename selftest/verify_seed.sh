#!/bin/bash
# verify_seed.sh <seed-dir> : confirm a seeded change in a scratch worktree:
#   (1) demo FAILS with the patch, (2) existing tests of the touched crates + dependants PASS with the patch,
#   (3) demo PASSES without the patch. Writes <seed-dir>/verify.log and prints a one-line verdict.
set -u
SEED=$(readlink -f "$1")
WT=${SEEDVER_WT:-/tmp/seedver}
LOG="$SEED/verify.log"
export CARGO_NET_OFFLINE=true CARGO_TARGET_DIR=$WT/target
if [ ! -d $WT ]; then
  git -C /repo worktree add --detach $WT HEAD >/dev/null 2>&1 || { echo "cannot create worktree"; exit 2; }
  cp -r /repo/target $WT/target 2>/dev/null
fi
cd $WT && git checkout -q --detach $(git -C /repo rev-parse HEAD) && git checkout -q -- . && git clean -fdq -e target
META="$SEED/meta.json"
LOC=$(python3 -c "import json;print(json.load(open('$META'))['demo_location'].split()[0])")
CMD=$(python3 -c "import json,re;print(re.split(r'\s{2,}\(', json.load(open('$META'))['demo_cmd'])[0])")
: > "$LOG"
echo "== seed $SEED  demo at $LOC  cmd: $CMD" >> "$LOG"
git apply "$SEED/patch.diff" || { echo "VERDICT $SEED patch-does-not-apply" | tee -a "$LOG"; exit 1; }
mkdir -p "$(dirname $LOC)"; cp "$SEED/demo.rs" "$LOC"
echo "== demo WITH patch" >> "$LOG"
( eval "$CMD" ) >> "$LOG" 2>&1; WITH=$?
rm -f "$LOC"
echo "== existing suite WITH patch" >> "$LOG"
cargo nextest run -p cedar-policy-core -p cedar-policy -p cedar-policy-cli -p cedar-policy-formatter --offline --no-fail-fast --build-jobs 8 --test-threads 8 > "$SEED/suite.log" 2>&1; SUITE=$?
grep -E "Summary|^\s+FAIL" "$SEED/suite.log" | sort -u | head -20 >> "$LOG"
FAILS=$(grep -E "^\s+FAIL" "$SEED/suite.log" | sed -E 's/.*\) +//' | sort -u | grep -v "link_file_cant_read" | wc -l)
git checkout -q -- . && git clean -fdq -e target
mkdir -p "$(dirname $LOC)"; cp "$SEED/demo.rs" "$LOC"
echo "== demo WITHOUT patch" >> "$LOG"
( eval "$CMD" ) >> "$LOG" 2>&1; WITHOUT=$?
rm -f "$LOC"; git checkout -q -- . ; git clean -fdq -e target
V="demo_with_patch_rc=$WITH demo_without_patch_rc=$WITHOUT suite_unexpected_failures=$FAILS"
if [ $WITH -ne 0 ] && [ $WITHOUT -eq 0 ] && [ $FAILS -eq 0 ]; then echo "VERDICT $SEED CONFIRMED $V" | tee -a "$LOG"; else echo "VERDICT $SEED REJECTED $V" | tee -a "$LOG"; fi
