#!/usr/bin/env python3
"""Checker self-test: apply one small source mutation to a scratch worktree of /repo (/tmp/selftest-wt, own fact cache), run the
named check, require that it fires (exit 1) and names the expected rule, then
restore the file. Benign mutations (expect = null) must leave the check silent.

usage: selftest/run.py [id-substring ...]     (no args: all mutants)
"""
import json, os, subprocess, sys, time
ROOT = os.path.dirname(os.path.dirname(os.path.abspath(__file__)))
REPO = "/tmp/selftest-wt"
ENV = dict(os.environ, CEDAR_REPO=REPO, CEDAR_VERIF_CACHE="/tmp/selftest-cache", VERIF_EVIDENCE_DIR="/tmp/selftest-evidence")


def prepare():
    """Scratch worktree of /repo's HEAD (outside /repo and /verif) with its own fact cache."""
    head = subprocess.run(["git", "-C", "/repo", "rev-parse", "HEAD"], capture_output=True, text=True).stdout.strip()
    if not os.path.isdir(REPO):
        subprocess.run(["git", "-C", "/repo", "worktree", "add", "--detach", REPO, head], check=True, capture_output=True)
    subprocess.run(["git", "-C", REPO, "checkout", "-q", "--detach", head], check=True)
    subprocess.run(["git", "-C", REPO, "checkout", "-q", "--", "."], check=True)
    os.makedirs("/tmp/selftest-evidence", exist_ok=True)



def main():
    muts = json.load(open(os.path.join(ROOT, "selftest", "mutants.json")))
    sel = sys.argv[1:]
    if sel:
        muts = [m for m in muts if any(s in m["id"] for s in sel)]
    prepare()
    st = subprocess.run(["git", "-C", REPO, "status", "--porcelain", "--untracked-files=no"], capture_output=True, text=True).stdout.strip()
    if st:
        print("refusing: /repo has local modifications:\n" + st)
        return 2
    results = []
    for m in muts:
        path = os.path.join(REPO, m["file"])
        src = open(path).read()
        n = src.count(m["old"])
        if n != 1:
            print("MUTANT %s: pattern matches %d times in %s (needs exactly 1) -- SKIPPED/STALE" % (m["id"], n, m["file"]))
            results.append((m["id"], "stale"))
            continue
        t0 = time.time()
        try:
            open(path, "w").write(src.replace(m["old"], m["new"]))
            outs = {}
            for pid in m["checks"]:
                p = subprocess.run([os.path.join(ROOT, "bin", "check"), pid], capture_output=True, text=True, cwd=ROOT, env=ENV)
                outs[pid] = (p.returncode, p.stdout + p.stderr)
        finally:
            open(path, "w").write(src)
        ok = True
        why = []
        for pid, (rc, out) in outs.items():
            exp = m.get("expect")
            if "error: could not compile" in out or "fact extraction failed" in out:
                ok = False
                why.append("%s: mutant does not compile" % pid)
                continue
            if exp is None:
                if rc != 0:
                    ok = False
                    why.append("%s: benign mutation raised an alarm" % pid)
            else:
                if rc != 1 or ("VIOLATION property=%s" % pid) not in out:
                    ok = False
                    why.append("%s: not detected (rc=%d)" % (pid, rc))
                elif exp not in out:
                    ok = False
                    why.append("%s: detected but rule %s not named" % (pid, exp))
        print("MUTANT %-40s %s  (%.0fs) %s" % (m["id"], "ok" if ok else "FAILED", time.time() - t0, "; ".join(why)))
        if not ok:
            for pid, (rc, out) in outs.items():
                print("   --- %s rc=%d\n%s" % (pid, rc, "\n".join("   " + l for l in out.splitlines()[-12:])))
        results.append((m["id"], "ok" if ok else "failed"))
    subprocess.run(["git", "-C", REPO, "checkout", "--", "."])
    bad = [r for r in results if r[1] != "ok"]
    print("%d mutants, %d ok, %d not ok" % (len(results), len(results) - len(bad), len(bad)))
    return 1 if bad else 0


if __name__ == "__main__":
    sys.exit(main())
