#!/usr/bin/env python3
"""Generate a prompt for a fresh sub-agent that writes BEHAVIOUR-PRESERVING refactorings of the code a property is anchored in:
selftest/mkbenign.py <Cxx> <tag>  -> /tmp/seedprompts/<Cxx><tag>-benign.txt
The checks in /verif must stay silent on every one of them (false-alarm test). The prompt contains only the property text and
workspace instructions - nothing about the checks in /verif."""
import json, os, sys
ROOT = os.path.dirname(os.path.dirname(os.path.abspath(__file__)))
pid, tag = sys.argv[1], sys.argv[2]
prop = [json.loads(l) for l in open(os.path.join(ROOT, "properties.jsonl")) if json.loads(l)["id"] == pid][0]
name = pid + tag + "-benign"
files = ", ".join(prop["anchors"]["files"])
txt = f"""You are helping test a verification effort for the Rust project cedar-policy/cedar (the Cedar authorization policy language). A set of static checkers watches the code that makes the semantic property below hold. Your job: produce FIVE independent, realistic, BEHAVIOUR-PRESERVING refactorings of that code - the kind of clean-up, optimisation or restructuring a maintainer makes in an ordinary pull request - so that we can confirm the checkers do not raise false alarms on code where the property still holds.

## The property ({pid}: {prop['title']})

{prop['statement']}

Files where the mechanisms that make it hold mostly live (work in these, in the functions that matter for the property, not in unrelated corners): {files}

## Your private workspace

Work ONLY inside your own scratch git worktree; never edit /repo itself and never read or touch /verif. Set it up like this:

    git -C /repo worktree add --detach /tmp/wt-{name} HEAD
    cd /tmp/wt-{name}
    export CARGO_NET_OFFLINE=true CARGO_TARGET_DIR=/tmp/wt-{name}/target
    cp -r /repo/target /tmp/wt-{name}/target    # warm dependency cache (optional, saves compile time)

There is no network: always pass --offline to cargo. The machine is shared: use at most `-j 6` for cargo builds.

## What makes a good refactoring here

- It touches the functions that implement the property's mechanism (the decision logic, the conversions, the checks, the loops named by the property), not comments or formatting only.
- It provably keeps behaviour identical on every input: the property still holds afterwards. Be careful and conservative - if you are not sure a change is behaviour-preserving, do not use it.
- Use a DIFFERENT kind of refactoring for each of the five, for example: extract part of a function / match arm into a new private helper function (or inline a helper); replace `if let`/`match`/early-return forms by one another; turn an iterator chain into a `for` loop or vice versa; reorder independent statements or independent checks that have no observable order (do not reorder checks whose error would differ!); introduce local variables / remove them; replace `x.is_empty()` by `x.len() == 0` or `!x.is_empty()` by `x.iter().next().is_some()`; swap the operands of a commutative/symmetric operation; change a by-reference helper to take ownership with a clone at the call site; move a private helper to a sibling module; split a large match into two functions; change `match (a, b)` nesting order; replace a closure by a named fn; add a private convenience method and use it; add a debug-only `debug_assert!`; wrap/unwrap in `Arc`/`Box` where types allow; use `?` instead of explicit `match ... Err(e) => return Err(e.into())`.
- Each is small to medium (5-60 changed lines), compiles with default features AND with `--features cedar-policy/experimental` (check: `cargo check -j 6 --offline -p cedar-policy --features experimental` and `cargo check -j 6 --offline --workspace`), introduces no new compiler or clippy warnings that the workspace denies, and the EXISTING tests of every crate you touched plus dependants pass, e.g. `cargo nextest run -p cedar-policy-core -p cedar-policy --offline --build-jobs 6 --test-threads 6 --no-fail-fast` (or `cargo test -p ... --offline -j 6`).
- Do not edit tests, Cargo.toml, or features. Library source only.

## Deliverables (write them under /tmp/benign-out/{name}/1/ ... /5/)

For each refactoring: `patch.diff` (`git diff` against HEAD, applicable with `git apply` at the repository root; each patch independent of the others, i.e. made from a clean HEAD) and `meta.json`: {{"property": "{pid}", "summary": "one sentence: what was refactored and how", "why_preserving": "one or two sentences", "tests_run": "commands + pass/fail counts", "files_changed": [...]}}.

When finished, restore your worktree to HEAD, then remove it together with its build output: `git -C /repo worktree remove --force /tmp/wt-{name}` and make sure `/tmp/wt-{name}` no longer exists. Keep /tmp/benign-out/{name}/.

Report back briefly: the five summaries and the test evidence. Nothing else.
"""
os.makedirs("/tmp/seedprompts", exist_ok=True)
out = "/tmp/seedprompts/%s.txt" % name
open(out, "w").write(txt)
print(out)
