#!/bin/bash
# try_patch.sh <patch.diff> [Cxx ...]   (default: all 20 checks)
# Applies the patch to the scratch worktree /tmp/selftest-wt (never to /repo), runs the named quick checks against it with
# the selftest fact cache, prints one line per check (rc + VIOLATION lines), restores the worktree.
set -u
PATCH=$(readlink -f "$1"); shift
CHECKS=${*:-C01 C02 C03 C04 C05 C06 C07 C08 C09 C10 C11 C12 C13 C14 C15 C16 C17 C18 C19 C20}
WT=${SELFTEST_WT:-/tmp/selftest-wt}
ROOT=$(dirname "$(dirname "$(readlink -f "$0")")")
HEAD=$(git -C /repo rev-parse HEAD)
[ -d $WT ] || git -C /repo worktree add --detach $WT $HEAD >/dev/null 2>&1
git -C $WT checkout -q --detach $HEAD && git -C $WT checkout -q -- . && git -C $WT clean -fdq
git -C $WT apply "$PATCH" || { echo "patch does not apply: $PATCH"; exit 2; }
export CEDAR_REPO=$WT CEDAR_VERIF_CACHE=${SELFTEST_CACHE:-/tmp/selftest-cache} VERIF_EVIDENCE_DIR=${SELFTEST_EVID:-/tmp/selftest-evidence}
mkdir -p $VERIF_EVIDENCE_DIR /tmp/selftest-logs
python3 "$ROOT/lib/factsbuild.py" E >/tmp/selftest-logs/facts.log 2>&1 || { echo "fact extraction failed"; tail -20 /tmp/selftest-logs/facts.log; git -C $WT checkout -q -- .; exit 2; }
TAG=$(basename "$(dirname "$PATCH")")
for c in $CHECKS; do
  ( "$ROOT/bin/check" $c --tier quick > /tmp/selftest-logs/$TAG-$c.log 2>&1; rc=$?
    if [ $rc -ne 0 ]; then echo "$c rc=$rc $(grep -c '^VIOLATION' /tmp/selftest-logs/$TAG-$c.log) violation(s):"; grep -E "^  \[|^FLOOR|Traceback" /tmp/selftest-logs/$TAG-$c.log | cut -c1-400 | head -8; fi ) &
done
wait
echo "done $TAG (logs /tmp/selftest-logs/$TAG-*.log)"
git -C $WT checkout -q -- . ; git -C $WT clean -fdq
