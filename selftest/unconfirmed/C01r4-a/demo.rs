//! Seed demo C01r4/a.
//!
//! Place as `cedar-policy/tests/seed_demo.rs` and run with
//! `cargo test -p cedar-policy --features partial-eval --test seed_demo --offline -j 6`.
//!
//! A forbid policy that is already satisfied during partial authorization must
//! keep overriding every permit after `reauthorize_with_bindings`; the final
//! (concretized) response must be identical to the response obtained by
//! authorizing the fully concrete request directly.
#![cfg(feature = "partial-eval")]

use cedar_policy::{
    Authorizer, Context, Decision, Entities, EntityUid, PolicyId, PolicySet, Request,
    RestrictedExpression,
};
use std::collections::HashSet;
use std::str::FromStr;

fn euid(s: &str) -> EntityUid {
    EntityUid::from_str(s).unwrap()
}

fn policies() -> PolicySet {
    PolicySet::from_str(
        r#"
        // policy0: always satisfied permit
        permit(principal, action, resource);
        // policy1: forbid that is satisfied for alice independently of the context
        forbid(principal == User::"alice", action, resource);
        // policy2: permit that depends on the (initially unknown) context
        permit(principal, action, resource) when { context.mfa };
        "#,
    )
    .unwrap()
}

fn request(mfa: RestrictedExpression) -> Request {
    Request::new(
        euid(r#"User::"alice""#),
        euid(r#"Action::"view""#),
        euid(r#"Photo::"vacation.jpg""#),
        Context::from_pairs([("mfa".to_string(), mfa)]).unwrap(),
        None,
    )
    .unwrap()
}

fn reasons(r: &cedar_policy::Response) -> HashSet<PolicyId> {
    r.diagnostics().reason().cloned().collect()
}

#[test]
fn satisfied_forbid_survives_reauthorization() {
    let auth = Authorizer::new();
    let pset = policies();
    let entities = Entities::empty();

    // ground truth: the fully concrete request
    let concrete = auth.is_authorized(
        &request(RestrictedExpression::new_bool(true)),
        &pset,
        &entities,
    );
    assert_eq!(concrete.decision(), Decision::Deny);
    assert_eq!(reasons(&concrete), HashSet::from([PolicyId::new("policy1")]));
    assert_eq!(concrete.diagnostics().errors().count(), 0);

    // same request, but `context.mfa` is unknown at first
    let partial = auth.is_authorized_partial(
        &request(RestrictedExpression::new_unknown("mfa")),
        &pset,
        &entities,
    );
    // the forbid policy is already known to be satisfied
    assert_eq!(partial.decision(), Some(Decision::Deny));
    assert!(partial
        .definitely_satisfied()
        .any(|p| p.id() == &PolicyId::new("policy1")));

    // now supply the missing value and re-authorize
    let mfa = RestrictedExpression::new_bool(true);
    let reauthorized = partial
        .reauthorize_with_bindings([("mfa", &mfa)], &auth, &entities)
        .unwrap();
    assert_eq!(
        reauthorized.decision(),
        Some(Decision::Deny),
        "a satisfied forbid policy must override all permits after reauthorization"
    );
    let final_response = reauthorized.concretize();
    assert_eq!(final_response.decision(), concrete.decision());
    assert_eq!(reasons(&final_response), reasons(&concrete));
    assert_eq!(final_response.diagnostics().errors().count(), 0);
}

#[test]
fn satisfied_forbid_survives_reauthorization_false_binding() {
    // Same as above but the binding makes policy2 unsatisfied; policy0 is still a
    // satisfied permit, so only the forbid policy stands between the request and Allow.
    let auth = Authorizer::new();
    let pset = policies();
    let entities = Entities::empty();

    let concrete = auth.is_authorized(
        &request(RestrictedExpression::new_bool(false)),
        &pset,
        &entities,
    );
    assert_eq!(concrete.decision(), Decision::Deny);

    let partial = auth.is_authorized_partial(
        &request(RestrictedExpression::new_unknown("mfa")),
        &pset,
        &entities,
    );
    let mfa = RestrictedExpression::new_bool(false);
    let final_response = partial
        .reauthorize_with_bindings([("mfa", &mfa)], &auth, &entities)
        .unwrap()
        .concretize();
    assert_eq!(final_response.decision(), Decision::Deny);
    assert_eq!(
        reasons(&final_response),
        HashSet::from([PolicyId::new("policy1")])
    );
}
