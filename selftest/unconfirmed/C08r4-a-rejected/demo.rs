//! Demo for seeded defect C08r4/a.
//!
//! Place as `cedar-policy/tests/seed_demo.rs` and run with
//! `cargo test -p cedar-policy --offline -j 6 --test seed_demo`.
//!
//! `PolicySet::merge(other, rename_duplicates = true)` must rename a
//! conflicting id to an id that is unused in BOTH policy sets (policies *and*
//! templates), so that afterwards no id is shared between a policy, a
//! template and a link, and every later edit keeps working.

use cedar_policy::{
    Authorizer, Context, Decision, Entities, EntityUid, Policy, PolicyId, PolicySet, Request,
    SlotId, Template,
};
use std::collections::{HashMap, HashSet};
use std::str::FromStr;

fn euid(s: &str) -> EntityUid {
    EntityUid::from_str(s).unwrap()
}

fn decision(ps: &PolicySet, principal: &str) -> Decision {
    let req = Request::new(
        euid(principal),
        euid(r#"Action::"view""#),
        euid(r#"Photo::"p""#),
        Context::empty(),
        None,
    )
    .unwrap();
    Authorizer::new()
        .is_authorized(&req, ps, &Entities::empty())
        .decision()
}

/// `self`: one static policy with id `p`.
fn this_set() -> PolicySet {
    let mut ps = PolicySet::new();
    ps.add(
        Policy::parse(
            Some(PolicyId::new("p")),
            r#"permit(principal == User::"alice", action, resource);"#,
        )
        .unwrap(),
    )
    .unwrap();
    ps
}

/// `other`: a template that happens to be called `policy0` (the default name
/// the parser gives to the first policy of a file), one link of it, and a
/// static policy `p` whose content differs from `self`'s `p`.
fn other_set() -> PolicySet {
    let mut ps = PolicySet::new();
    ps.add_template(
        Template::parse(
            Some(PolicyId::new("policy0")),
            "permit(principal == ?principal, action, resource);",
        )
        .unwrap(),
    )
    .unwrap();
    ps.link(
        PolicyId::new("policy0"),
        PolicyId::new("l"),
        HashMap::from([(SlotId::principal(), euid(r#"User::"carol""#))]),
    )
    .unwrap();
    ps.add(
        Policy::parse(
            Some(PolicyId::new("p")),
            r#"forbid(principal == User::"bob", action, resource);"#,
        )
        .unwrap(),
    )
    .unwrap();
    ps
}

#[test]
fn merge_renames_to_an_id_unused_in_both_sets() {
    let mut ps0 = this_set();
    let ps1 = other_set();
    let renaming = ps0.merge(&ps1, true).unwrap();

    // only `p` conflicts
    assert_eq!(renaming.len(), 1);
    let new_id = renaming.get(&PolicyId::new("p")).expect("p is renamed");

    // the fresh id is not an id of `other` (neither a policy nor a template)
    let other_ids: HashSet<PolicyId> = ps1
        .policies()
        .map(|p| p.id().clone())
        .chain(ps1.templates().map(|t| t.id().clone()))
        .collect();
    assert!(
        !other_ids.contains(new_id),
        "renamed `p` to `{new_id}`, which is already used in the merged-in policy set"
    );

    // no id is shared between a policy and a template
    for t in ps0.templates() {
        assert!(
            ps0.policy(t.id()).is_none(),
            "id `{}` is both a template and a policy after merge",
            t.id()
        );
    }
    assert_eq!(ps0.num_of_policies(), 3);
    assert_eq!(ps0.num_of_templates(), 1);

    // the template is still the template of `other`
    let t = ps0.template(&PolicyId::new("policy0")).expect("template");
    assert_eq!(t.slots().count(), 1);
    assert_eq!(
        ps0.get_linked_policies(PolicyId::new("policy0"))
            .unwrap()
            .collect::<Vec<_>>(),
        vec![&PolicyId::new("l")]
    );
}

#[test]
fn merged_set_can_still_be_edited() {
    let mut ps0 = this_set();
    let ps1 = other_set();
    let renaming = ps0.merge(&ps1, true).unwrap();
    let renamed_p = renaming.get(&PolicyId::new("p")).unwrap().clone();

    assert_eq!(decision(&ps0, r#"User::"alice""#), Decision::Allow);
    assert_eq!(decision(&ps0, r#"User::"carol""#), Decision::Allow);
    assert_eq!(decision(&ps0, r#"User::"bob""#), Decision::Deny);
    assert_eq!(decision(&ps0, r#"User::"dave""#), Decision::Deny);

    // drop the (renamed) forbid policy that came from `other`
    let removed = ps0.remove_static(renamed_p).unwrap();
    assert!(removed.is_static());

    // template `policy0` and its link `l` are untouched by that
    assert!(ps0.template(&PolicyId::new("policy0")).is_some());
    assert_eq!(decision(&ps0, r#"User::"carol""#), Decision::Allow);

    // ... and the template can still be linked
    ps0.link(
        PolicyId::new("policy0"),
        PolicyId::new("l2"),
        HashMap::from([(SlotId::principal(), euid(r#"User::"dave""#))]),
    )
    .expect("linking template `policy0` must still work");
    assert_eq!(decision(&ps0, r#"User::"dave""#), Decision::Allow);

    // ... unlinked, and finally removed
    ps0.unlink(PolicyId::new("l")).unwrap();
    ps0.unlink(PolicyId::new("l2")).unwrap();
    ps0.remove_template(PolicyId::new("policy0")).unwrap();
    assert_eq!(decision(&ps0, r#"User::"carol""#), Decision::Deny);
    assert_eq!(decision(&ps0, r#"User::"alice""#), Decision::Allow);
    assert_eq!(ps0.num_of_policies(), 1);
    assert_eq!(ps0.num_of_templates(), 0);
}
