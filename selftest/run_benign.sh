#!/bin/bash
# run_benign.sh [name-substring]: every behaviour-preserving refactoring under selftest/benign/<name>/patch.diff (written by
# independent sub-agents that saw only the property text; each confirmed to compile and pass the existing suite) must leave
# ALL twenty checks silent. Uses the scratch worktree /tmp/selftest-wt (never /repo).
cd "$(dirname "$0")/.."
bad=0
for d in selftest/benign/*${1:-}*/; do
  out=$(selftest/try_patch.sh "$d/patch.diff" 2>&1)
  if echo "$out" | grep -q " rc=[1-9]"; then echo "BENIGN $(basename $d): FALSE ALARM"; echo "$out" | grep -v "^done" | cut -c1-300; bad=$((bad+1)); else echo "BENIGN $(basename $d): silent"; fi
done
echo "$bad false alarm(s)"
[ $bad -eq 0 ]
