"""Backward slices over MIR def sites."""
from . import panics
from .facts import callee

TRANSPARENT = ("::as_ref", "::deref", "::borrow", "::as_deref", "Clone>::clone", "::cloned", "::copied")


def leaf_producers(f, operand, depth=12, extra_transparent=()):
    """Backward slice of an operand through copies, references, Some(..)/tuple aggregates and transparent calls:
    the set of places / calls the value is made of."""
    defs = panics._def_sites(f)
    out = set()
    seen = set()
    work = [operand]
    while work:
        o = work.pop()
        if o[0] == "k":
            out.add("const")
            continue
        p = o[1]
        l = p[0]
        proj = [e for e in p[1:] if e != "*"]
        if proj:
            # `x?`: the Continue payload of Try::branch(x) is x's success value
            br = [x for kind, b, x in defs.get(l, []) if kind == "call" and callee(x).endswith("ops::Try>::branch")]
            if br and any(isinstance(e, list) and e[0] == "d" and e[1] == "Continue" for e in proj):
                if (l, "br") not in seen:
                    seen.add((l, "br"))
                    work.append(br[0][2][0])
                continue
            names = []
            for e in proj:
                if isinstance(e, list) and e[0] == "d":
                    names.append(str(e[1]))
                elif isinstance(e, list) and e[0] == "f":
                    names.append(str(e[2] or e[1]))
            out.add("place:" + ".".join(names))
            if 1 <= l <= f.nargs:
                out.add("param:%d" % l)
            continue      # a pattern binding / field read: the value is that part of the scrutinee
        if (l, len(proj)) in seen:
            continue
        seen.add((l, len(proj)))
        if 1 <= l <= f.nargs:
            out.add("param:%d" % l)
            continue
        ds = defs.get(l, [])
        if not ds:
            continue
        for kind, b, x in ds:
            if kind == "call":
                c = callee(x)
                if c.endswith(TRANSPARENT + tuple(extra_transparent)) and x[2]:
                    work.append(x[2][0])
                else:
                    out.add("call:" + c)
                continue
            rv = x[2]
            if rv[0] == "use":
                work.append(rv[1])
            elif rv[0] == "cast":
                work.append(rv[2])
            elif rv[0] in ("ref", "addr"):
                work.append(["c", rv[1]])
            elif rv[0] == "agg":
                for o2 in rv[2]:
                    work.append(o2)
            else:
                out.add(rv[0])
    return out
