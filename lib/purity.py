"""PURE — effect analysis over the workspace call graph (rule family 3.10)."""
from .callgraph import CallGraph
from .rulelib import short

# external APIs whose result depends on something other than their arguments
IMPURE_PREFIXES = (
    "std::time::", "std::env::", "std::fs::", "std::net::", "std::process::",
    "std::thread::spawn", "std::thread::sleep", "std::thread::current", "std::io::stdin",
    "std::io::Stdin", "rand::", "rand_core::", "getrandom::", "fastrand::",
    "chrono::offset::utc::Utc::now", "chrono::offset::local::Local::now", "chrono::Utc::now", "chrono::Local::now",
    "std::collections::hash_map::RandomState::new", "std::hash::RandomState::new",
    "std::sync::atomic::", "core::sync::atomic::",
)
INTERIOR = ("Cell<", "Mutex<", "RwLock<", "Atomic", "RefCell<", "UnsafeCell<")


def static_is_immutable(st):
    """A static that can never change after initialisation."""
    if st is None:
        return False
    if st["mut"] or st["tl"]:
        return False
    if st["freeze"]:
        return True
    ty = st["ty"]
    if ty.startswith(("std::sync::LazyLock<", "std::sync::OnceLock<")):
        inner = ty[ty.index("<") + 1:]
        return not any(x in inner for x in INTERIOR)
    return False


def check_pure(chk, facts, rule, roots, allow_statics=(), floor=50):
    cg = CallGraph(facts)
    missing = [r for r in roots if r not in facts.fns]
    for r in missing:
        chk.lost(rule, r)
    parent = cg.reach([r for r in roots if r in facts.fns])
    n_static = 0
    bad = 0
    seen_statics = set()
    for fn in sorted(parent):
        internal, external, statics, tls, localkeys = cg.edges(fn)
        f = facts.fns[fn]
        for s in sorted(statics):
            seen_statics.add(s)
            st = facts.statics.get(s)
            ext_ok = st is None and not s.startswith(("cedar_policy", "bin:"))  # statics of other crates: judged by path below
            ok = static_is_immutable(st) or s in allow_statics or ext_ok
            n_static += 1
            if not ok:
                bad += 1
                chk.ob(rule, "static:%s" % short(s), False,
                       "mutable / interior-mutable static %s (type %s) is reachable: %s" % (
                           s, st and st["ty"], " -> ".join(short(x) for x in cg.chain(parent, fn))),
                       where=f.where(), key="%s:static:%s:in:%s" % (rule, s, fn))
        for s in sorted(tls | localkeys):
            bad += 1
            chk.ob(rule, "thread_local:%s" % short(s)[:80], False,
                   "thread-local state %s is reachable: %s" % (s[:120], " -> ".join(short(x) for x in cg.chain(parent, fn))),
                   where=f.where(), key="%s:tls:%s:in:%s" % (rule, s[:80], fn))
        for e in sorted(external):
            if e.startswith(IMPURE_PREFIXES):
                bad += 1
                chk.ob(rule, "effect:%s" % e, False,
                       "call to %s (time / randomness / environment / I/O / atomics) is reachable: %s" % (
                           e, " -> ".join(short(x) for x in cg.chain(parent, fn))),
                       where=f.where(), key="%s:effect:%s:in:%s" % (rule, e, fn))
    chk.ob(rule, "reachable-set", bad == 0,
           "%d workspace functions reachable from %s; %d static mentions (%d distinct, all immutable after init); %d impure constructs" % (
               len(parent), [short(r) for r in roots], n_static, len(seen_statics), bad),
           sample={"roots": [short(r) for r in roots], "reachable_functions": len(parent),
                   "distinct_statics": sorted(short(s) for s in seen_statics)[:30]})
    chk.floor(rule, "reachable functions", len(parent), floor)
    chk.extra.setdefault("pure_reachable_functions", {})[rule] = len(parent)
    return parent
