"""Whole-workspace call graph over resolved callees.

Edges: direct calls (resolved through Instance::try_resolve by the driver);
closures and fn items *mentioned* in a body (they may be called by whoever
receives them); dyn / unresolved trait calls fan out to every workspace impl of
the trait item. External callees (no body in the fact base) are leaves that the
effect rules classify by path.
"""
from .facts import callee


def _operands_of_rvalue(rv):
    k = rv[0]
    if k in ("use", "repeat"):
        return [rv[1]]
    if k == "agg":
        return rv[2]
    if k == "bin":
        return [rv[2], rv[3]]
    if k in ("un", "cast"):
        return [rv[2]]
    return []


class CallGraph:
    def __init__(self, facts):
        self.facts = facts
        self.impls = {}        # trait item path -> [impl fn names]
        for n, e in facts.fns.index.items():
            ti = e[6]
            if ti:
                self.impls.setdefault(ti, []).append(n)
        self._edges = {}

    def edges(self, name):
        """-> (internal callee names, external callee paths, consts mentioned)"""
        if name in self._edges:
            return self._edges[name]
        f = self.facts.fns.get(name)
        internal, external = set(), set()
        statics, tls, localkeys = set(), set(), set()
        if f is None:
            self._edges[name] = (internal, external, statics, tls, localkeys)
            return self._edges[name]

        def mention_const(k):
            if "static" in k:
                statics.add(k["static"])
            t = k.get("t", "")
            if t.startswith(("std::thread::LocalKey<", "&std::thread::LocalKey<", "&'static std::thread::LocalKey<")) or "std::thread::LocalKey<" in t[:40]:
                localkeys.add(t)
            fnp = k.get("rf") or k.get("fn") or k.get("fnptr")
            if fnp:
                target(fnp.split("#")[0], k.get("fn"))

        def target(res, orig):
            virtual = False
            if res in self.facts.fns:
                internal.add(res)
                # a trait method with a default body may still be overridden
                return
            # unresolved / dyn: fan out over workspace impls of the trait item
            ti = orig or res
            if ti in self.impls:
                internal.update(self.impls[ti])
            external.add(res)

        for blk in f.blocks:
            if blk["cl"]:
                continue
            for s in blk["st"]:
                if s[0] != "a":
                    continue
                rv = s[2]
                if rv[0] == "tlref":
                    tls.add(rv[1])
                if rv[0] == "agg" and rv[1][0] == "closure":
                    if rv[1][1] in self.facts.fns:
                        internal.add(rv[1][1])
                for o in _operands_of_rvalue(rv):
                    if o[0] == "k":
                        mention_const(o[1])
            t = blk["t"]
            if t[0] == "call":
                info = t[1]
                res = (info.get("f") or "").split("#")[0]
                orig = info.get("o")
                if "#virtual" in (info.get("f") or "") or not res:
                    if orig and orig in self.impls:
                        internal.update(self.impls[orig])
                    if orig:
                        external.add(orig)
                else:
                    target(res, orig)
                    # resolved to the trait's own (bodyless or default) method: fan out too
                    if res == orig and orig in self.impls:
                        internal.update(self.impls[orig])
                for o in t[2]:
                    if o[0] == "k":
                        mention_const(o[1])
                if "ptr" in info and info["ptr"][0] == "k":
                    mention_const(info["ptr"][1])
            elif t[0] == "sw":
                pass
        self._edges[name] = (internal, external, statics, tls, localkeys)
        return self._edges[name]

    def reach(self, roots):
        """Transitive closure over internal edges. Returns {fn: parent} (BFS tree)."""
        parent = {}
        q = []
        for r in roots:
            if r in self.facts.fns and r not in parent:
                parent[r] = None
                q.append(r)
        i = 0
        while i < len(q):
            n = q[i]
            i += 1
            for c in sorted(self.edges(n)[0]):
                if c not in parent:
                    parent[c] = n
                    q.append(c)
        return parent

    def chain(self, parent, n):
        out = []
        while n is not None:
            out.append(n)
            n = parent.get(n)
        return list(reversed(out))
