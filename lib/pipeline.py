"""Iterator pipelines that must carry every element: which adaptors / collection types occur in a function body."""
from .facts import callee

DROPS = ("filter", "filter_map", "dedup", "dedup_by", "dedup_by_key", "unique", "unique_by", "take", "skip", "take_while", "skip_while", "step_by", "retain", "truncate",
         "pop", "remove", "swap_remove", "drain", "last", "nth", "find", "find_map", "flatten", "flat_map", "map_while", "zip", "min", "max", "first", "split_off", "clear", "skip_last",
         "position", "any", "all", "next", "peekable", "nth_back", "next_back")
SETTY = ("Set<", "BTreeSet", "HashSet", "IndexSet")


def audit(f, closures=()):
    """-> (dropping adaptor calls, collection types built) over f and the given closure bodies"""
    drops, coll = [], []
    for g in (f,) + tuple(closures):
        for b, t in g.calls():
            last = callee(t).split("::")[-1]
            if t[1].get("mac") == "Desugaring":
                continue            # the `for` loop's own into_iter / next
            if last in DROPS:
                drops.append((last, t[1].get("l")))
            if last in ("collect", "collect_vec", "from_iter"):
                coll.append(g.locals[t[3][0]])
    return drops, coll
