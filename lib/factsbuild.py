#!/usr/bin/env python3
"""Build (or reuse) the MIR fact base for the current /repo working tree.

The fact base is keyed by a content hash of every source/manifest file under
/repo (tracked or not), so any edit to /repo forces a re-extraction from the
current working tree. Extraction runs the rustc_private driver in
/verif/driver as RUSTC_WORKSPACE_WRAPPER under `cargo +nightly check`.
"""
import fcntl
import glob
import hashlib
import json
import os
import shutil
import subprocess
import sys
import time

VERIF = os.path.dirname(os.path.dirname(os.path.abspath(__file__)))
REPO = os.environ.get("CEDAR_REPO", "/repo")
CACHE = os.environ.get("CEDAR_VERIF_CACHE") or os.path.join(VERIF, ".cache")
DRIVER = os.path.join(VERIF, "driver", "target", "release", "cedar-facts-driver")
PKGS = ["cedar-policy", "cedar-policy-core", "cedar-policy-formatter",
        "cedar-policy-symcc", "cedar-policy-cli"]
CONFIGS = {
    "E": ["--features", "cedar-policy/experimental"],
    "D": [],
}
EXPECTED = ["cedar_policy_core.lib", "cedar_policy.lib", "cedar_policy_formatter.lib",
            "cedar_policy_symcc.lib", "cedar_policy_cli.lib", "cedar.bin"]
SRC_EXT = (".rs", ".toml", ".lalrpop", ".proto", ".lock")
SKIP_DIRS = {"target", ".git", "node_modules"}


def tree_hash(repo=REPO):
    h = hashlib.sha256()
    files = []
    for root, dirs, fs in os.walk(repo):
        dirs[:] = sorted(d for d in dirs if d not in SKIP_DIRS)
        for f in sorted(fs):
            if f.endswith(SRC_EXT):
                files.append(os.path.join(root, f))
    for p in files:
        h.update(os.path.relpath(p, repo).encode())
        h.update(b"\0")
        try:
            with open(p, "rb") as fh:
                h.update(hashlib.sha256(fh.read()).digest())
        except OSError:
            h.update(b"?")
    # the driver is part of the key: a changed extractor invalidates facts
    try:
        with open(os.path.join(VERIF, "driver", "src", "main.rs"), "rb") as fh:
            h.update(hashlib.sha256(fh.read()).digest())
    except OSError:
        pass
    return h.hexdigest()[:20]


def sysroot():
    return subprocess.check_output(["rustc", "+nightly", "--print", "sysroot"], text=True).strip()


def ensure_driver():
    if os.path.exists(DRIVER):
        src = os.path.join(VERIF, "driver", "src", "main.rs")
        if os.path.getmtime(DRIVER) >= os.path.getmtime(src):
            return
    env = dict(os.environ, CARGO_NET_OFFLINE="true")
    subprocess.check_call(["cargo", "+nightly", "build", "--release", "--offline"],
                          cwd=os.path.join(VERIF, "driver"), env=env,
                          stdout=subprocess.DEVNULL, stderr=subprocess.DEVNULL)


def _complete(outdir):
    if not os.path.exists(os.path.join(outdir, "DONE")):
        return False
    names = os.listdir(outdir)
    return all(any(n.startswith(e + ".") for n in names) for e in EXPECTED)


def _run_extract(config, outdir, target, log):
    env = dict(os.environ)
    env.update({
        "CEDAR_FACTS_DIR": outdir,
        "LD_LIBRARY_PATH": os.path.join(sysroot(), "lib"),
        "RUSTFLAGS": "-Zmir-opt-level=0 -Awarnings -Cdebug-assertions=off -Coverflow-checks=on",
        "RUSTC_WORKSPACE_WRAPPER": DRIVER,
        "CARGO_TARGET_DIR": target,
        "CARGO_NET_OFFLINE": "true",
    })
    env.pop("RUSTC_WRAPPER", None)
    cmd = ["cargo", "+nightly", "check", "--offline"]
    for p in PKGS:
        cmd += ["-p", p]
    cmd += CONFIGS[config]
    with open(log, "w") as lf:
        rc = subprocess.call(cmd, cwd=REPO, env=env, stdout=lf, stderr=subprocess.STDOUT)
    return rc


def _invalidate_members(target):
    """Remove fingerprints of workspace members' lib/bin units so cargo re-runs
    the wrapper on them (cargo would otherwise replay cached output and skip the
    driver). Dependencies and build-script outputs stay warm."""
    fp = os.path.join(target, "debug", ".fingerprint")
    if not os.path.isdir(fp):
        return
    for d in os.listdir(fp):
        if not (d.startswith("cedar-policy") or d.startswith("cedar_policy")):
            continue
        full = os.path.join(fp, d)
        names = os.listdir(full)
        if any(n.startswith(("lib-", "bin-")) for n in names):
            shutil.rmtree(full, ignore_errors=True)


def facts_dir(config="E", verbose=True):
    """Return the directory holding the fact files for the current tree."""
    os.makedirs(CACHE, exist_ok=True)
    ensure_driver()
    th = tree_hash()
    base = os.path.join(CACHE, "facts", th, config)
    lock_path = os.path.join(CACHE, "facts.%s.lock" % config)
    with open(lock_path, "w") as lk:
        fcntl.flock(lk, fcntl.LOCK_EX)
        if _complete(base):
            return base, th, 0.0
        t0 = time.time()
        shutil.rmtree(base, ignore_errors=True)
        os.makedirs(base, exist_ok=True)
        target = os.path.join(CACHE, "target-" + config)
        log = os.path.join(base, "cargo.log")
        _invalidate_members(target)
        if verbose:
            print("[facts] extracting config %s for tree %s ..." % (config, th), file=sys.stderr)
        rc = _run_extract(config, base, target, log)
        names = os.listdir(base)
        ok = rc == 0 and all(any(n.startswith(e + ".") for n in names) for e in EXPECTED)
        if not ok and rc == 0:
            # cargo replayed a cached unit: retry once from a cold target dir
            shutil.rmtree(target, ignore_errors=True)
            for n in names:
                if n.endswith(".jsonl"):
                    os.unlink(os.path.join(base, n))
            rc = _run_extract(config, base, target, log)
            names = os.listdir(base)
            ok = rc == 0 and all(any(n.startswith(e + ".") for n in names) for e in EXPECTED)
        if not ok:
            tail = ""
            try:
                tail = "".join(open(log).readlines()[-40:])
            except OSError:
                pass
            raise RuntimeError("fact extraction failed (rc=%s) for config %s:\n%s" % (rc, config, tail))
        # duplicate outputs for the same unit (should not happen): keep newest
        seen = {}
        for n in sorted(names, key=lambda n: os.path.getmtime(os.path.join(base, n))):
            if n.endswith(".jsonl"):
                key = ".".join(n.split(".")[:2])
                if key in seen:
                    os.unlink(os.path.join(base, seen[key]))
                seen[key] = n
        from . import facts as _facts
        for n in os.listdir(base):
            if n.endswith(".jsonl"):
                _facts.build_index(os.path.join(base, n))
        open(os.path.join(base, "DONE"), "w").write(json.dumps({"tree": th, "config": config, "wall_s": time.time() - t0}))
        _gc(keep=th)
        return base, th, time.time() - t0


def _gc(keep):
    root = os.path.join(CACHE, "facts")
    ents = [d for d in os.listdir(root) if d != keep]
    ents.sort(key=lambda d: os.path.getmtime(os.path.join(root, d)))
    for d in ents[:-2] if len(ents) > 2 else []:
        shutil.rmtree(os.path.join(root, d), ignore_errors=True)


if __name__ == "__main__":
    sys.path.insert(0, VERIF)
    from lib import factsbuild as _fb
    cfg = sys.argv[1] if len(sys.argv) > 1 else "E"
    d, th, w = _fb.facts_dir(cfg)
    print(d, th, "%.1fs" % w)
