"""format_args! templates as lowered by this toolchain: a byte string where a byte < 0x80 is the length of a literal
piece that follows, 0xC0 is the next positional argument with default formatting, 0x00 terminates; any other opcode
(explicit index / width / flags) is reported as ('op', byte)."""
from .facts import callee


def decode(hexs):
    b = bytes.fromhex(hexs)
    out = []
    i = 0
    while i < len(b):
        x = b[i]
        if x == 0:
            break
        if x < 0x80:
            out.append(("lit", b[i + 1:i + 1 + x].decode("utf-8", "replace")))
            i += 1 + x
        elif x == 0xC0:
            out.append(("arg",))
            i += 1
        else:
            out.append(("op", x))
            i += 1
    return out


def tokens(pieces):
    """whitespace-insensitive token list: literals split on whitespace, '{}' for arguments"""
    out = []
    for p in pieces:
        if p[0] == "arg":
            out.append("{}")
        elif p[0] == "lit":
            out += p[1].split()
        else:
            out.append("<op %02x>" % p[1])
    return out


def sites(f, region=None, labels=None):
    """-> [{block, line, pieces, args: [label sets]}] for every fmt::Arguments::new / from_str in f (within region)."""
    from . import panics
    defs = panics._def_sites(f)
    out = []
    for b, t in f.calls():
        if region is not None and b not in region:
            continue
        c = callee(t)
        if c.endswith("fmt::Arguments::from_str") or c.endswith("Arguments::<'_>::from_str"):
            lit = [o[1]["s"] for o in t[2] if o[0] == "k" and "s" in o[1]]
            if lit:
                out.append({"block": b, "line": t[1].get("l"), "pieces": [("lit", lit[0])], "args": []})
            continue
        if not (c.endswith("fmt::Arguments::new") or c.endswith("Arguments::<'_>::new")):
            continue
        tmpl = None
        # template: first argument, a (ref to a) byte-array constant
        o = t[2][0]
        for _ in range(4):
            if o[0] == "k":
                tmpl = o[1].get("bytes")
                break
            ds = defs.get(o[1][0], [])
            if len(ds) != 1 or ds[0][0] != "st":
                break
            rv = ds[0][2][2]
            if rv[0] == "use":
                o = rv[1]
            elif rv[0] in ("ref", "addr"):
                o = ["c", [rv[1][0]]]
            else:
                break
        args = []
        o = t[2][1] if len(t[2]) > 1 else None
        arr = None
        for _ in range(6):
            if o is None or o[0] == "k":
                break
            ds = defs.get(o[1][0], [])
            if len(ds) != 1 or ds[0][0] != "st":
                break
            rv = ds[0][2][2]
            if rv[0] == "agg" and rv[1][0] == "array":
                arr = rv[2]
                break
            if rv[0] == "use":
                o = rv[1]
            elif rv[0] in ("ref", "addr"):
                o = ["c", [rv[1][0]]]
            else:
                break
        if arr is not None and labels is not None:
            for a in arr:
                # each element is the result of Argument::new_display(x) / new_debug(x)
                ds = defs.get(a[1][0], []) if a[0] in ("c", "m") else []
                labs = set()
                how = None
                for kind, bb, x in ds:
                    if kind == "call":
                        how = callee(x).split("::")[-1]
                        for oo in x[2]:
                            labs |= labels.operand_labels(oo)
                args.append({"labels": labs, "how": how})
        out.append({"block": b, "line": t[1].get("l"), "pieces": decode(tmpl) if tmpl else None, "args": args})
    return out
