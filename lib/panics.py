"""Panic-capable site extraction with structural fingerprints (rule family 3.9).

A *site* is a terminator in non-generated library MIR that can start a panic:
  - a call of a panicking entry (core::panicking::*, begin_panic, *_failed)
  - Option/Result unwrap / expect (and the _err variants)
  - Index / IndexMut
  - a listed std API documented to panic on bad arguments
  - an Assert terminator (bounds, overflow, division / remainder by zero)
Each site gets a fingerprint (kind, detail) that contains no line number and no
function name, and a set of *guards*: the conditional edges that dominate it,
described by how the condition is computed. A site is covered by an inventory
entry with the same fingerprint whose guards are a subset of the site's guards.
"""
from .facts import callee
from . import cfg

PANIC_ENTRY = ("core::panicking::", "std::rt::begin_panic", "std::panicking::begin_panic", "std::rt::panic_fmt",
               "core::option::expect_failed", "core::option::unwrap_failed", "core::result::unwrap_failed",
               "core::slice::index::slice_", "core::str::slice_error_fail", "core::cell::panic_already",
               "std::process::abort", "std::process::exit", "core::intrinsics::abort")
UNWRAPS = ("::unwrap", "::expect", "::unwrap_err", "::expect_err")
STD_PANICKY = (
    "std::vec::Vec::<T, A>::remove", "std::vec::Vec::<T, A>::insert", "std::vec::Vec::<T, A>::swap_remove",
    "std::vec::Vec::<T, A>::split_off", "std::vec::Vec::<T, A>::drain", "std::vec::Vec::<T, A>::splice",
    "std::collections::VecDeque::<T, A>::remove", "std::collections::VecDeque::<T, A>::insert",
    "core::slice::<impl [T]>::split_at", "core::slice::<impl [T]>::split_at_mut", "core::slice::<impl [T]>::copy_from_slice",
    "core::slice::<impl [T]>::clone_from_slice", "core::slice::<impl [T]>::chunks", "core::slice::<impl [T]>::windows",
    "core::slice::<impl [T]>::chunks_exact", "core::slice::<impl [T]>::swap", "core::slice::<impl [T]>::rotate_left",
    "core::slice::<impl [T]>::rotate_right", "core::slice::<impl [T]>::copy_within",
    "core::str::<impl str>::split_at", "std::string::String::remove", "std::string::String::insert",
    "std::string::String::insert_str", "std::string::String::truncate", "std::string::String::split_off",
    "std::string::String::drain", "std::string::String::replace_range",
    "std::cell::RefCell::<T>::borrow", "std::cell::RefCell::<T>::borrow_mut",
    "std::iter::Iterator::step_by",
    "chrono::naive::datetime::<impl std::ops::Add", "chrono::naive::datetime::<impl std::ops::Sub",
    "<chrono::NaiveDateTime as std::ops::Add", "<chrono::NaiveDateTime as std::ops::Sub",
    "<chrono::DateTime<Tz> as std::ops::Add", "<chrono::DateTime<Tz> as std::ops::Sub",
    "<chrono::TimeDelta as std::ops::Add", "<chrono::TimeDelta as std::ops::Sub", "<chrono::TimeDelta as std::ops::Mul",
    "chrono::TimeDelta::days", "chrono::TimeDelta::hours", "chrono::TimeDelta::minutes", "chrono::TimeDelta::seconds",
    "chrono::TimeDelta::milliseconds", "chrono::TimeDelta::weeks",
    "std::time::Instant as std::ops::Sub", "std::time::Duration as std::ops::Add",
    "std::thread::LocalKey::<T>::with", "std::sync::Mutex::<T>::lock",
    "nonempty::NonEmpty::<T>::from_vec",
)


def _def_sites(fn):
    """local -> list of ('st', block, stmt) / ('call', block, term) definitions."""
    if fn._defs is not None:
        return fn._defs
    d = {}
    for b, blk in enumerate(fn.blocks):
        if blk["cl"]:
            continue
        for s in blk["st"]:
            if s[0] == "a":
                d.setdefault(s[1][0], []).append(("st", b, s))
        t = blk["t"]
        if t[0] == "call":
            d.setdefault(t[3][0], []).append(("call", b, t))
    fn._defs = d
    return d


def const_locals(fn):
    """Locals assigned exactly once, by a constant."""
    out = {}
    for l, ds in _def_sites(fn).items():
        if len(ds) == 1 and ds[0][0] == "st":
            s = ds[0][2]
            if len(s[1]) == 1 and s[2][0] == "use" and s[2][1][0] == "k" and "v" in s[2][1][1]:
                out[l] = s[2][1][1]["v"]
    return out


def live_blocks_constfold(fn):
    """Blocks reachable from entry when switches on compile-time constants
    (e.g. cfg!(debug_assertions)) are folded."""
    cl = const_locals(fn)
    seen = {0}
    st = [0]
    while st:
        b = st.pop()
        t = fn.blocks[b]["t"]
        nxt = fn.succs(b)
        if t[0] == "sw":
            o = t[1]
            v = None
            if o[0] == "k" and "v" in o[1]:
                v = o[1]["v"]
            elif o[0] in ("c", "m") and len(o[1]) == 1 and o[1][0] in cl:
                v = cl[o[1][0]]
            if v is not None:
                tgt = t[3]
                for val, bb in t[2]:
                    if val == v:
                        tgt = bb
                        break
                nxt = [tgt]
        for s in nxt:
            if s not in seen:
                seen.add(s)
                st.append(s)
    return seen


def producer(fn, operand, depth=8):
    """Describe how the value of `operand` is produced: the resolved callee of the
    defining call (through copies, moves, refs, casts and the `?` desugaring),
    or the kind of the defining rvalue."""
    defs = _def_sites(fn)
    seen = set()
    o = operand
    for _ in range(depth):
        if o[0] == "k":
            k = o[1]
            if "static" in k:
                return "static:" + k["static"]
            return "const"
        p = o[1]
        l = p[0]
        if l in seen:
            return "loop"
        seen.add(l)
        if 1 <= l <= fn.nargs:
            return "param"
        ds = defs.get(l, [])
        if len(ds) != 1:
            return "local(%d defs)" % len(ds)
        kind, b, x = ds[0]
        if kind == "call":
            c = callee(x)
            if c.endswith(("ops::Try>::branch", "::deref", "::as_ref", "::as_mut", "::borrow", "::as_deref", "Clone>::clone", "::into", "::iter", "::into_iter", "::as_slice", "::as_str", "::deref_mut")) and x[2]:
                o = x[2][0]
                continue
            return "call:" + c
        rv = x[2]
        if rv[0] in ("use", "cast"):
            o = rv[1] if rv[0] == "use" else rv[2]
            continue
        if rv[0] in ("ref", "addr"):
            proj = [e for e in rv[1][1:] if e != "*"]
            if proj:
                last = proj[-1]
                if isinstance(last, list) and last[0] == "f":
                    return "field:%s.%s" % (last[3].split("::")[-1], last[2] or last[1])
            o = ["c", [rv[1][0]]]
            continue
        if rv[0] == "agg":
            kd = rv[1]
            return "agg:" + (kd[1].split("::")[-1] + "::" + kd[2] if kd[0] == "adt" else kd[0])
        return rv[0]
    return "deep"


def _strings_near(fn, b, depth=4):
    """String literals feeding a panic in block b: constants in b and its single-pred chain."""
    out = []
    cur = b
    for _ in range(depth):
        blk = fn.blocks[cur]
        for s in blk["st"]:
            if s[0] == "a":
                for o in _ops(s[2]):
                    if o[0] == "k" and "s" in o[1]:
                        out.append(o[1]["s"])
        t = blk["t"]
        if t[0] == "call":
            for o in t[2]:
                if o[0] == "k" and "s" in o[1]:
                    out.append(o[1]["s"])
        ps = fn.preds(cur)
        if len(ps) != 1:
            break
        cur = ps[0]
    return out


def _ops(rv):
    k = rv[0]
    if k in ("use", "repeat"):
        return [rv[1]]
    if k == "agg":
        return rv[2]
    if k == "bin":
        return [rv[2], rv[3]]
    if k in ("un", "cast"):
        return [rv[2]]
    return []


def _bang(mac):
    """Outermost user-visible bang macro of a macro chain like 'b:panic_2021>b:panic'."""
    if not mac:
        return None
    parts = mac.split(">")
    for p in reversed(parts):
        if p.startswith("b:") and not p.startswith("b:$crate"):
            return p[2:]
    return parts[-1]


def is_derive(mac):
    """Code written by a #[derive] macro (innermost expansion is a derive); repo-defined
    macro_rules and attribute macros wrap user-written code and are NOT exempt."""
    return bool(mac) and mac.split(">")[0].startswith("d:")


def cond_desc(fn, b):
    """Describe the condition of the switch ending block b."""
    t = fn.blocks[b]["t"]
    o = t[1]
    if o[0] == "k":
        return "const"
    p = o[1]
    defs = _def_sites(fn).get(p[0], [])
    # tuple field switch (match on tuples): describe the field's producer
    if len(p) > 1:
        return "proj:" + producer(fn, ["c", [p[0]]])
    if len(defs) == 1 and defs[0][0] == "st":
        rv = defs[0][2][2]
        if rv[0] == "disc":
            return "disc:" + rv[2].split("::")[-1] + "<" + producer(fn, ["c", [rv[1][0]]])
        if rv[0] == "bin":
            a, c = rv[2], rv[3]
            ca = ("k%s" % a[1]["v"]) if a[0] == "k" and "v" in a[1] else producer(fn, a)
            cc = ("k%s" % c[1]["v"]) if c[0] == "k" and "v" in c[1] else producer(fn, c)
            return "bin:%s(%s,%s)" % (rv[1], ca, cc)
        if rv[0] == "un":
            return "not:" + producer(fn, rv[2])
    return producer(fn, o)


def guards(fn, site_block):
    """Conditional edges dominating the site: frozenset of (condition descriptor, taken values)."""
    out = []
    idom = cfg.dominators(fn)
    if site_block not in idom:
        return frozenset()
    d = site_block
    chain = []
    while d != 0:
        d = idom[d]
        chain.append(d)
        if d == 0:
            break
    for d in chain:
        t = fn.blocks[d]["t"]
        if t[0] != "sw":
            continue
        targets = [(str(v), bb) for v, bb in t[2]] + [("else", t[3])]
        taken = []
        for v, bb in targets:
            r = cfg.reachable(fn, bb, cut_blocks={d})
            if site_block in r:
                taken.append(v)
        if len(taken) < len(targets):
            out.append((cond_desc(fn, d), ",".join(sorted(set(taken)))))
    return frozenset(out)


def sites(fn):
    """Yield dicts {kind, detail, block, line, mac, guards} for every panic-capable site of fn."""
    live = live_blocks_constfold(fn)
    for b, blk in enumerate(fn.blocks):
        if blk["cl"] or b not in live:
            continue
        t = blk["t"]
        site = None
        if t[0] == "call":
            c = callee(t)
            o = t[1].get("o", "") or ""
            mac = t[1].get("mac")
            line = t[1].get("l")
            if c.startswith(PANIC_ENTRY) or o.startswith(PANIC_ENTRY):
                m = _bang(mac) or c.split("::")[-1]
                strs = [s for s in _strings_near(fn, b) if s.strip()]
                msg = (strs[0] if strs else "")[:70]
                site = ("panic", "%s|%s" % (m, msg), mac)
            elif o.endswith(UNWRAPS) and ("option::Option" in o or "result::Result" in o):
                recv = "Option" if "option::Option" in o else "Result"
                prod = producer(fn, t[2][0]) if t[2] else "?"
                msg = ""
                if o.endswith(("expect", "expect_err")) and len(t[2]) > 1 and t[2][1][0] == "k":
                    msg = t[2][1][1].get("s", "")[:70]
                site = (o.split("::")[-1], "%s<%s|%s" % (recv, prod, msg), mac)
            elif o in ("std::ops::Index::index", "std::ops::IndexMut::index_mut"):
                g = t[1].get("g", "")
                site = ("index", "%s|%s" % (c.split(" as ")[0].lstrip("<")[:60], g.rsplit(", ", 1)[-1].rstrip("]")[:40]), mac)
            elif c.startswith(STD_PANICKY) or o.startswith(STD_PANICKY):
                site = ("stdapi", (c if c.startswith(STD_PANICKY) else o)[:90], mac)
            if site:
                yield {"kind": site[0], "detail": site[1], "block": b, "line": line, "mac": site[2],
                       "file": t[1].get("file") or fn.file}
        elif t[0] == "as":
            if t[1].startswith("Resumed"):
                continue
            mac = t[8]
            ops = t[6]
            cdesc = []
            for o in ops:
                if o[0] == "k" and "v" in o[1]:
                    cdesc.append("k%s" % o[1]["v"])
                else:
                    cdesc.append("v")
            ty = ""
            for o in ops:
                if o[0] == "k":
                    ty = o[1].get("t", "")
            if not ty and ops and ops[0][0] in ("c", "m") and len(ops[0][1]) == 1:
                ty = fn.locals[ops[0][1][0]]
            yield {"kind": "assert:" + t[1], "detail": "%s|%s" % (ty[:30], ",".join(cdesc)), "block": b, "line": t[5],
                   "mac": mac, "file": t[7]}


def fingerprint(site):
    return "%s §%s" % (site["kind"], site["detail"])
