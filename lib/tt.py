"""Finite truth-table evaluation of a MIR body over declared atoms.

This is constant propagation over a finite predicate domain, enumerated
exhaustively: for one assignment of the atoms (the results of named observer
calls, or the variant of a parameter) the body is walked along the unique path
the atoms determine. Every SwitchInt must be decided by the atoms through
copies / Not / Eq-with-constant / tuple and aggregate fields; otherwise the
evaluation is *undecided* and the rule using it fails closed. No Cedar value is
ever computed.

Abstract values
  ("int", v)                      integer / bool / char constant
  ("sym", path)                   symbolic place rooted at a parameter, refs and
                                  derefs are transparent; path is a tuple like
                                  ("arg1", "satisfied_forbids")
  ("tup", [v...])                 tuple aggregate
  ("adt", adt, variant, vidx, [v...])   struct / enum aggregate
  ("res", callee, [args], id)     opaque call result (never switched on)
  ("unk",)                        unknown
"""
from .facts import callee as _callee

UNK = ("unk",)


class Undecided(Exception):
    def __init__(self, fn, block, why):
        Exception.__init__(self, "%s bb%d: %s" % (fn.name, block, why))
        self.fn = fn
        self.block = block
        self.why = why


def I(v):
    return ("int", int(v))


class Interp:
    """oracle: object with optional methods
         call(callee, args, term, interp) -> value | None (None = opaque result)
         discriminant(sym_path, adt) -> int | None
    """

    def __init__(self, fn, oracle, max_steps=4000):
        self.fn = fn
        self.oracle = oracle
        self.max_steps = max_steps
        self.trace = []
        self.path = []
        self._rid = 0

    # ---- value access ---------------------------------------------------
    def read_place(self, st, p):
        v = st.get(p[0], UNK)
        for e in p[1:]:
            v = self._proj(v, e)
        return v

    def _proj(self, v, e):
        if e == "*":
            return v
        k = v[0]
        if e[0] == "f":
            if k == "sym":
                return ("sym", v[1] + ((e[2] if e[2] else str(e[1])),))
            if k == "tup":
                return v[1][e[1]] if e[1] < len(v[1]) else UNK
            if k == "adt":
                return v[4][e[1]] if e[1] < len(v[4]) else UNK
            if k == "res":
                step = e[2] if e[2] else e[1]
                return ("res", v[1], v[2], v[3], v[4] + (step,)) if len(v) > 4 else ("res", v[1], v[2], v[3], (step,))
            if k == "closure":
                return v[2][e[1]] if e[1] < len(v[2]) else UNK
            return UNK
        if e[0] == "d":
            if k == "sym":
                return ("sym", v[1] + ("as " + e[1],))
            if k == "adt":
                return v
            if k == "res":
                return v
            return UNK
        return UNK

    def write_place(self, st, p, val):
        if len(p) == 1:
            st[p[0]] = val
            return
        # field write into an aggregate: rebuild
        base = st.get(p[0], UNK)
        st[p[0]] = self._write(base, p[1:], val)

    def _write(self, base, projs, val):
        if not projs:
            return val
        e = projs[0]
        if e == "*" or e[0] == "d":
            return self._write(base, projs[1:], val)
        if e[0] == "f":
            if base[0] == "tup":
                items = list(base[1])
                while len(items) <= e[1]:
                    items.append(UNK)
                items[e[1]] = self._write(items[e[1]], projs[1:], val)
                return ("tup", items)
            if base[0] == "adt":
                items = list(base[4])
                while len(items) <= e[1]:
                    items.append(UNK)
                items[e[1]] = self._write(items[e[1]], projs[1:], val)
                return ("adt", base[1], base[2], base[3], items)
            if base[0] == "unk":
                items = [UNK] * (e[1] + 1)
                items[e[1]] = self._write(UNK, projs[1:], val)
                return ("tup", items)
        return UNK

    def operand(self, st, o):
        if o[0] in ("c", "m"):
            return self.read_place(st, o[1])
        k = o[1]
        if "v" in k:
            return I(k["v"])
        if "static" in k:
            return ("sym", ("static:" + k["static"],))
        if "s" in k:
            return ("str", k["s"])
        if "fn" in k:
            return ("fnitem", k.get("rf") or k["fn"])
        return ("const", k.get("cdef") or k.get("t"))

    def rvalue(self, st, rv, blk):
        k = rv[0]
        if k == "use":
            return self.operand(st, rv[1])
        if k in ("ref", "addr"):
            return self.read_place(st, rv[1])
        if k == "disc":
            v = self.read_place(st, rv[1])
            if v[0] == "adt":
                return I(v[3])
            if v[0] == "sym":
                d = None
                if hasattr(self.oracle, "discriminant"):
                    d = self.oracle.discriminant(v[1], rv[2])
                if d is not None:
                    return I(d)
            if v[0] == "res" and hasattr(self.oracle, "res_discriminant"):
                d = self.oracle.res_discriminant(v, rv[2])
                if d is not None:
                    return I(d)
            return ("disc_of", v, rv[2])
        if k == "agg":
            kd = rv[1]
            vals = [self.operand(st, o) for o in rv[2]]
            if kd[0] == "tuple":
                return ("tup", vals)
            if kd[0] == "adt":
                return ("adt", kd[1], kd[2], kd[4], vals)
            if kd[0] == "closure":
                return ("closure", kd[1], vals)
            return ("tup", vals)
        if k == "un":
            v = self.operand(st, rv[2])
            if rv[1] == "Not" and v[0] == "int":
                if rv[3] == "bool":
                    return I(0 if v[1] else 1)
            return UNK
        if k == "bin":
            a = self.operand(st, rv[2])
            b = self.operand(st, rv[3])
            if a[0] == "int" and b[0] == "int":
                op = rv[1]
                x, y = a[1], b[1]
                table = {"Eq": x == y, "Ne": x != y, "Lt": x < y, "Le": x <= y, "Gt": x > y, "Ge": x >= y}
                if op in table:
                    return I(1 if table[op] else 0)
                if op == "BitAnd":
                    return I(x & y)
                if op == "BitOr":
                    return I(x | y)
                if op == "BitXor":
                    return I(x ^ y)
            return UNK
        if k == "cast":
            v = self.operand(st, rv[2])
            return v
        return UNK

    # ---- execution ------------------------------------------------------
    def run(self, init, start=0):
        """init: {local: value}. Returns (return value of _0, trace). Raises Undecided."""
        fn = self.fn
        st = dict(init)
        b = start
        steps = 0
        visits = {}
        while True:
            steps += 1
            visits[b] = visits.get(b, 0) + 1
            if steps > self.max_steps or visits[b] > 64:
                raise Undecided(fn, b, "path does not terminate under the atoms (loop)")
            self.path.append(b)
            blk = fn.blocks[b]
            for s in blk["st"]:
                if s[0] == "a":
                    self.write_place(st, s[1], self.rvalue(st, s[2], b))
                elif s[0] == "sd":
                    pass
            t = blk["t"]
            k = t[0]
            if k == "go":
                b = t[1]
            elif k == "ret":
                return st.get(0, UNK), self.trace
            elif k == "sw":
                v = self.operand(st, t[1])
                if v[0] != "int" and hasattr(self.oracle, "switch_value"):
                    sv = self.oracle.switch_value(v, self)
                    if sv is not None:
                        v = I(sv)
                if v[0] != "int":
                    raise Undecided(fn, b, "switch on a value the atoms do not decide: %r" % (v,))
                nxt = t[3]
                for val, tgt in t[2]:
                    if val == v[1]:
                        nxt = tgt
                        break
                b = nxt
            elif k == "call":
                cal = _callee(t)
                args = [self.operand(st, o) for o in t[2]]
                res = None
                if self.oracle is not None and hasattr(self.oracle, "call"):
                    res = self.oracle.call(cal, args, t, self)
                if res is None:
                    self._rid += 1
                    res = ("res", cal, args, self._rid)
                self.trace.append((cal, args, t[1].get("l"), res))
                self.write_place(st, t[3], res)
                if t[4] is None:
                    return ("diverge", cal), self.trace
                b = t[4]
            elif k == "as":
                b = t[4]
            elif k == "drop":
                b = t[2]
            elif k == "unr":
                return ("unreachable",), self.trace
            else:
                raise Undecided(fn, b, "unsupported terminator %s" % k)


def variant_of(v):
    """Render an aggregate value as Variant(args...) text for tables."""
    if v[0] == "adt":
        inner = ",".join(variant_of(x) for x in v[4])
        return v[2] + ("(" + inner + ")" if inner else "")
    if v[0] == "int":
        return str(v[1])
    if v[0] == "tup":
        return "(" + ",".join(variant_of(x) for x in v[1]) + ")"
    if v[0] == "sym":
        return ".".join(v[1])
    if v[0] == "res":
        return "res<" + v[1].split("::")[-1] + ">"
    return v[0]


class Fork(Exception):
    pass


def explore(fn, make_oracle, init, max_paths=256, max_steps=4000, visit_bound=3):
    """Enumerate the paths of a (small) body: like Interp.run, but an undecided switch forks
    into every successor instead of failing. Yields (return value, trace, decisions) where
    decisions is the list of (block, scrutinee value, taken value|'else') made at forks.
    Loops are cut after `visit_bound` visits of a block on one path."""
    results = []
    work = [[]]     # each item: list of forced choices (taken values) at successive forks
    while work and len(results) < max_paths:
        forced = work.pop()
        it = Interp(fn, make_oracle(), max_steps)
        st = dict(init)
        b = 0
        decisions = []
        fi = 0
        visits = {}
        steps = 0
        dead = False
        while True:
            steps += 1
            visits[b] = visits.get(b, 0) + 1
            if steps > max_steps or visits[b] > visit_bound:
                dead = True
                break
            it.path.append(b)
            blk = fn.blocks[b]
            for s in blk["st"]:
                if s[0] == "a":
                    it.write_place(st, s[1], it.rvalue(st, s[2], b))
            t = blk["t"]
            k = t[0]
            if k == "go":
                b = t[1]
            elif k == "ret":
                results.append((st.get(0, UNK), it.trace, decisions))
                break
            elif k == "sw":
                v = it.operand(st, t[1])
                if v[0] != "int" and hasattr(it.oracle, "switch_value"):
                    sv = it.oracle.switch_value(v, it)
                    if sv is not None:
                        v = I(sv)
                if v[0] == "int":
                    nxt = t[3]
                    for val, tgt in t[2]:
                        if val == v[1]:
                            nxt = tgt
                            break
                    b = nxt
                else:
                    options = [(val, tgt) for val, tgt in t[2]] + [("else", t[3])]
                    if fi < len(forced):
                        choice = forced[fi]
                    else:
                        choice = 0
                        for j in range(1, len(options)):
                            work.append(forced[:fi] + [j])
                    fi += 1
                    if fi > len(forced):
                        forced = forced + [choice]
                    val, tgt = options[choice]
                    decisions.append((b, v, val))
                    b = tgt
            elif k == "call":
                cal = _callee(t)
                args = [it.operand(st, o) for o in t[2]]
                res = None
                if it.oracle is not None and hasattr(it.oracle, "call"):
                    res = it.oracle.call(cal, args, t, it)
                if res is None:
                    it._rid += 1
                    res = ("res", cal, args, it._rid)
                it.trace.append((cal, args, t[1].get("l"), res, b))
                it.write_place(st, t[3], res)
                if t[4] is None:
                    results.append((("diverge", cal), it.trace, decisions))
                    break
                b = t[4]
            elif k == "as":
                b = t[4]
            elif k == "drop":
                b = t[2]
            elif k == "unr":
                results.append((("unreachable",), it.trace, decisions))
                break
            else:
                dead = True
                break
    return results
