"""CFG analyses over a facts.Fn: dominators, post-dominators, cut-reachability.

All analyses use only non-cleanup edges (panic unwinding paths are not "paths to
a return"). Path rules are phrased as cut-reachability, which is loop-safe:
"is T reachable from S when the blocks in `cut_blocks` and the edges in
`cut_edges` are removed?".
"""


def reachable(fn, start, cut_blocks=(), cut_edges=(), stop=None):
    """Set of blocks reachable from `start` (inclusive unless cut)."""
    cut_blocks = set(cut_blocks)
    cut_edges = set(cut_edges)
    if isinstance(start, int):
        start = [start]
    seen = set()
    st = []
    for s in start:
        if s not in cut_blocks:
            seen.add(s)
            st.append(s)
    while st:
        b = st.pop()
        if stop is not None and b in stop:
            continue
        for s in fn.succs(b):
            if s in cut_blocks or (b, s) in cut_edges or s in seen:
                continue
            seen.add(s)
            st.append(s)
    return seen


def return_blocks(fn):
    return [i for i, b in enumerate(fn.blocks) if not b["cl"] and b["t"][0] == "ret"]


def dominators(fn):
    """idom map (block -> immediate dominator) for blocks reachable from 0."""
    if fn._dom is not None:
        return fn._dom
    order = []
    seen = set()

    def dfs(b):
        stack = [(b, iter(fn.succs(b)))]
        seen.add(b)
        while stack:
            n, it = stack[-1]
            adv = False
            for s in it:
                if s not in seen:
                    seen.add(s)
                    stack.append((s, iter(fn.succs(s))))
                    adv = True
                    break
            if not adv:
                order.append(n)
                stack.pop()
    dfs(0)
    rpo = list(reversed(order))
    idx = {b: i for i, b in enumerate(rpo)}
    idom = {0: 0}
    changed = True
    while changed:
        changed = False
        for b in rpo[1:]:
            new = None
            for p in fn.preds(b):
                if p in idom:
                    if new is None:
                        new = p
                    else:
                        a, c = p, new
                        while a != c:
                            while idx[a] > idx[c]:
                                a = idom[a]
                            while idx[c] > idx[a]:
                                c = idom[c]
                        new = a
            if new is not None and idom.get(b) != new:
                idom[b] = new
                changed = True
    fn._dom = idom
    return idom


def dominates(fn, a, b):
    """True if block a dominates block b (a == b counts)."""
    idom = dominators(fn)
    if b not in idom or a not in idom:
        return False
    while True:
        if a == b:
            return True
        if b == 0:
            return False
        nb = idom[b]
        if nb == b:
            return False
        b = nb


def dominated_region(fn, a):
    """All blocks dominated by a."""
    idom = dominators(fn)
    return {b for b in idom if dominates(fn, a, b)}


def must_pass(fn, start, targets, through):
    """True iff every path from `start` to any block in `targets` crosses a block in
    `through` (cut-reachability). `start` itself may be in `through`."""
    r = reachable(fn, start, cut_blocks=through)
    return not (r & set(targets))


def edge_region(fn, src, dst):
    """Blocks reachable only through the edge src->dst: blocks reachable from dst
    that are NOT reachable from entry when that edge is removed."""
    without = reachable(fn, 0, cut_edges={(src, dst)})
    via = reachable(fn, dst)
    return via - without


def guard_edges(fn, site_block):
    """Conditional edges that dominate `site_block`: list of (switch block, taken)
    where taken is the list of (value|'else', target) successors of the switch from which
    the site is reachable without passing the switch again — only for switches where
    that is a proper subset of the successors."""
    idom = dominators(fn)
    out = []
    if site_block not in idom:
        return out
    d = site_block
    while d != 0:
        d = idom[d]
        t = fn.blocks[d]["t"]
        if t[0] == "sw":
            targets = [(v, bb) for v, bb in t[2]] + [("else", t[3])]
            taken = [(v, bb) for v, bb in targets if site_block in reachable(fn, bb, cut_blocks={d})]
            if len(taken) < len(targets):
                out.append((d, taken))
        if d == 0:
            break
    return out
