"""Helpers shared by the rule modules."""
import itertools

from . import tt
from .facts import callee


def short(name):
    return name.replace("cedar_policy_core::", "core::").replace("cedar_policy::", "api::")


def get_fn(chk, facts, rule, name):
    f = facts.fn(name)
    if f is None:
        chk.lost(rule, name)
    else:
        chk.functions.add(name)
    return f


def find_one(chk, facts, rule, pred, label):
    """Exactly one function satisfying pred(name) or anchor lost."""
    hits = [facts.fns[n] for n in facts.fns if pred(n)]
    if len(hits) != 1:
        chk.lost(rule, label, "expected exactly one match, found %d" % len(hits))
        return None
    chk.functions.add(hits[0].name)
    return hits[0]


# ---- value trees -------------------------------------------------------------
def walk(v):
    """Yield every sub-value of an abstract value."""
    st = [v]
    while st:
        x = st.pop()
        if not isinstance(x, tuple) or not x:
            continue
        yield x
        k = x[0]
        if k == "tup":
            st.extend(x[1])
        elif k == "adt":
            st.extend(x[4])
        elif k == "res":
            st.extend(x[2])
        elif k == "closure":
            st.extend(x[2])
        elif k == "disc_of":
            st.append(x[1])


def syms(v):
    return {x[1] for x in walk(v) if x[0] == "sym"}


def res_calls(v):
    """Callee paths of all opaque call results inside v."""
    return [x[1] for x in walk(v) if x[0] == "res"]


def has_res(v, suffix):
    return any(c.endswith(suffix) for c in res_calls(v))


def closures_in(v):
    return [x[1] for x in walk(v) if x[0] == "closure"]


def adts_in(v):
    return [(x[1], x[2]) for x in walk(v) if x[0] == "adt"]


def arg_syms(fn, names=None):
    """Initial state: every argument local is a symbol ("argN",) (or a given name)."""
    init = {}
    for i in range(1, fn.nargs + 1):
        nm = (names or {}).get(i, "arg%d" % i)
        init[i] = ("sym", (nm,))
    return init


OBSERVERS_EMPTY = ("::is_empty",)

OPTION = "std::option::Option"
RESULT = "std::result::Result"
CFLOW = "std::ops::ControlFlow"


def std_model(cal, args, oracle):
    """Exact models of the `?` desugaring on Option / Result aggregates (and on
    symbols whose variant the oracle declares in `variants`)."""
    if cal.endswith("ops::Try>::branch") and args:
        a = args[0]
        var = None
        payload = None
        if a[0] == "adt" and a[1] in (OPTION, RESULT):
            var = a[2]
            payload = a[4][0] if a[4] else tt.UNK
        elif a[0] == "sym" and a[1] in getattr(oracle, "variants", {}):
            var = oracle.variants[a[1]]
            payload = ("sym", a[1] + ("as " + var, "0"))
        if var in ("Some", "Ok"):
            return ("adt", CFLOW, "Continue", 0, [payload])
        if var == "None":
            return ("adt", CFLOW, "Break", 1, [("adt", OPTION, "None", 0, [])])
        if var == "Err":
            return ("adt", CFLOW, "Break", 1, [("adt", RESULT, "Err", 1, [payload])])
    if cal.endswith("FromResidual<std::option::Option<std::convert::Infallible>>>::from_residual"):
        return ("adt", OPTION, "None", 0, [])
    if "FromResidual<std::result::Result<std::convert::Infallible" in cal and args:
        a = args[0]
        if a[0] == "adt" and a[2] == "Err":
            return ("adt", RESULT, "Err", 1, [("res", "std::convert::From::from", [a[4][0] if a[4] else tt.UNK], 0)])
    return None


class AtomOracle:
    """Atoms: emptiness observers on symbolic fields, discriminants of symbols,
    and opaque call results whose variant / boolean value is enumerated.

    empties:  {sym_path: bool is_empty}
    discs:    {sym_path: variant index}
    res_disc: callable(value, adt) -> int|None     (variant of an opaque result)
    res_bool: callable(value) -> int|None          (boolean value of an opaque result)
    calls:    callable(callee, args, term, interp) -> value|None
    """

    def __init__(self, empties=None, discs=None, res_disc=None, res_bool=None, calls=None, variants=None):
        self.empties = empties or {}
        self.discs = discs or {}
        self._res_disc = res_disc
        self._res_bool = res_bool
        self._calls = calls
        self.variants = variants or {}
        self.undeclared = []

    def call(self, cal, args, term, interp):
        if self._calls is not None:
            r = self._calls(cal, args, term, interp)
            if r is not None:
                return r
        m = std_model(cal, args, self)
        if m is not None:
            return m
        if cal.endswith(OBSERVERS_EMPTY) and args and args[0][0] == "sym":
            p = args[0][1]
            if p in self.empties:
                return tt.I(1 if self.empties[p] else 0)
            self.undeclared.append((cal, p))
        if self._res_bool is not None:
            # boolean-valued opaque results are resolved lazily in switch via res hook
            pass
        return None

    def discriminant(self, path, adt):
        return self.discs.get(path)

    def switch_value(self, v, interp):
        if self._res_bool is not None:
            return self._res_bool(v)
        return None

    def res_discriminant(self, v, adt):
        if self._res_disc is not None:
            return self._res_disc(v, adt)
        return None


def rows(names):
    """All boolean assignments for the given atom names."""
    for bits in itertools.product([False, True], repeat=len(names)):
        yield dict(zip(names, bits))


def call_sites(fn, suffixes):
    """(block, term) of calls whose resolved callee ends with one of suffixes."""
    if isinstance(suffixes, str):
        suffixes = (suffixes,)
    out = []
    for b, t in fn.calls():
        c = callee(t)
        if c.endswith(tuple(suffixes)):
            out.append((b, t))
    return out
