"""Accumulator threading: which object does a `&mut` argument designate?

resolve(facts, f, local) follows reborrows (`&mut (*_c)`), borrows (`&mut _b`), moves / copies and — in closure bodies —
captured places (`(*_1).k`, resolved in the enclosing function through the closure aggregate) back to
   ("param", fn name, index)   a parameter of a (non-closure) function, or a closure's own call parameter
   ("local", fn name, local)   a local that is not a plain alias of anything else (e.g. a fresh `Vec::new()`)
   ("place", fn name, local)   a projection the tracer does not follow (a field of something)
"""
from . import panics


def _closure_aggs(parent, name):
    for b, blk in enumerate(parent.blocks):
        if blk["cl"]:
            continue
        for s in blk["st"]:
            if s[0] == "a" and s[2][0] == "agg" and s[2][1][0] == "closure" and s[2][1][1] == name:
                yield s


def resolve(facts, f, local, depth=24):
    defs = panics._def_sites(f)
    is_closure = "{closure" in f.name.split("::")[-1]
    for _ in range(depth):
        if 1 <= local <= f.nargs and not (is_closure and local == 1):
            return ("param", f.name, local)
        ds = defs.get(local, [])
        if len(ds) != 1 or ds[0][0] != "st":
            return ("local", f.name, local)
        rv = ds[0][2][2]
        if rv[0] in ("ref", "addr"):
            p = rv[1]
        elif rv[0] == "use" and rv[1][0] in ("c", "m"):
            p = rv[1][1]
        else:
            return ("local", f.name, local)
        proj = [e for e in p[1:] if e != "*"]
        if not proj:
            local = p[0]
            continue
        if is_closure and p[0] == 1 and len(proj) == 1 and isinstance(proj[0], list) and proj[0][0] == "f":
            k = proj[0][1]
            parent = facts.fns.get(f.parent) if f.parent else None
            if parent is None:
                return ("place", f.name, local)
            res = set()
            for s in _closure_aggs(parent, f.name):
                ops = s[2][2]
                if k < len(ops) and ops[k][0] in ("c", "m") and len(ops[k][1]) == 1:
                    res.add(resolve(facts, parent, ops[k][1][0], depth))
                else:
                    res.add(("place", parent.name, -1))
            if len(res) == 1:
                return res.pop()
            return ("place", f.name, local)
        return ("place", f.name, local)
    return ("local", f.name, local)
