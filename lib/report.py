"""Rule results -> VIOLATION / KNOWN-FINDING lines, replay files, evidence JSON."""
import json
import os
import re
import sys
import time

VERIF = os.path.dirname(os.path.dirname(os.path.abspath(__file__)))
EVDIR = os.environ.get("VERIF_EVIDENCE_DIR") or os.path.join(VERIF, "evidence")


def load_known():
    p = os.path.join(VERIF, "known_findings.json")
    try:
        with open(p) as fh:
            return json.load(fh)
    except OSError:
        return {"known": [], "fixed": []}


class Check:
    """Collects rule-instance results for one property.

    ob(rule, instance, ok, detail, where=None, key=None, sample=None)
      one obligation: a rule instance evaluated on a concrete construct.
      `key` identifies a violation without line numbers (used for known findings).
    lost(rule, anchor, why): an anchor that could not be found -> violation (fail closed).
    floor(rule, found, floor): instance count must not fall below what was confirmed by hand.
    """

    def __init__(self, pid, tier="quick", seed=0):
        self.pid = pid
        self.tier = tier
        self.seed = seed
        self.t0 = time.time()
        self.obligations = []
        self.violations = []
        self.known_hit = []
        self.samples = []
        self.rules = {}
        self.functions = set()
        self.notes = []
        self.explanation = ""
        self.assumptions = []
        self.extra = {}
        self.known = load_known()
        # secondary build configuration (thorough tier): (config name, fn index of the primary configuration)
        self.secondary = None

    def enter_secondary(self, config, primary_index):
        """Re-run of the same rules on another cargo feature configuration. Anchors that exist only in the
        primary configuration are feature-gated there (the primary run decides them); floors were counted on the
        primary configuration and are informational here; every other obligation is decided on this configuration's MIR."""
        self.secondary = (config, primary_index)

    # ------------------------------------------------------------------
    def ob(self, rule, instance, ok, detail="", where=None, key=None, sample=None, fn=None):
        if self.secondary:
            rule = "%s@%s" % (rule, self.secondary[0])
            if key:
                key = "%s@%s" % (key, self.secondary[0])
        r = self.rules.setdefault(rule, {"instances": 0, "violations": 0})
        r["instances"] += 1
        rec = {"rule": rule, "instance": instance, "ok": bool(ok), "detail": detail, "where": where}
        self.obligations.append(rec)
        if fn:
            self.functions.add(fn)
        if sample is not None and r.setdefault("_ns", 0) < 4:
            r["_ns"] += 1
            self.samples.append({"rule": rule, "instance": instance, "where": where, "fact": sample})
        if not ok:
            r["violations"] += 1
            k = key or ("%s:%s" % (rule, instance))
            rec["key"] = k
            self.violations.append(rec)
        return ok

    def lost(self, rule, anchor, why="anchor not found in the fact base"):
        if self.secondary and anchor in self.secondary[1]:
            return self.ob(rule, "gated:" + anchor, True, "%s exists only with the experimental features; decided on that configuration" % anchor)
        return self.ob(rule, "anchor:" + anchor, False, "anchor lost: %s (%s)" % (anchor, why),
                       key="%s:anchor-lost:%s" % (rule, anchor))

    def floor(self, rule, what, found, floor):
        if self.secondary:
            return self.ob(rule, "count:" + what, True, "%s: %d instance(s) in configuration %s (floor %d applies to the primary configuration)" % (what, found, self.secondary[0], floor))
        if os.environ.get("CEDAR_VERIF_FLOORS"):
            print("FLOOR %s %s found=%d floor=%d" % (rule, what, found, floor))
        return self.ob(rule, "floor:" + what, found >= floor,
                       "%s: found %d instance(s), floor %d (count confirmed by hand)" % (what, found, floor),
                       key="%s:floor:%s" % (rule, what), sample={"found": found, "floor": floor})

    # ------------------------------------------------------------------
    def finish(self, facts=None):
        known_keys = {}
        for k in self.known.get("known", []):
            if k.get("property") == self.pid:
                known_keys[k["key"]] = k
        real = []
        for v in self.violations:
            if v["key"] in known_keys:
                self.known_hit.append(v)
            else:
                real.append(v)
        os.makedirs(os.path.join(EVDIR, "replay"), exist_ok=True)
        out_lines = []
        for v in self.known_hit:
            out_lines.append("KNOWN-FINDING: property=%s %s — %s" % (self.pid, v["key"], known_keys[v["key"]].get("what", v["detail"])))
        for i, v in enumerate(real):
            safe = re.sub(r"[^A-Za-z0-9_.-]+", "_", v["key"])[:120]
            rp = os.path.join(EVDIR, "replay", "%s-%s-%d.json" % (self.pid, safe, i))
            with open(rp, "w") as fh:
                json.dump({"property": self.pid, "violation": v, "tree": getattr(facts, "tree", None),
                           "config": getattr(facts, "config", None)}, fh, indent=1)
            print("  [%s] %s at %s: %s" % (v["rule"], v["instance"], v["where"], v["detail"]))
            out_lines.append("VIOLATION property=%s replay=%s" % (self.pid, rp))
        n_ob = len(self.obligations)
        n_ok = sum(1 for o in self.obligations if o["ok"])
        distinct = len({(o["rule"], o["instance"]) for o in self.obligations})
        ev = {
            "property_id": self.pid,
            "tier": self.tier,
            "seed": self.seed,
            "level": "other",
            "coverage": {
                "explanation": self.explanation,
                "evaluations": n_ob,
                "distinct_nontrivial": distinct,
                "rule": "one evaluation = one static rule instance decided on a concrete construct of /repo's "
                        "current MIR (function, match arm, call site, CFG path set); distinct = distinct (rule, instance) pairs",
                "obligations": n_ob,
                "discharged": n_ok,
                "samples": self.samples[:60] or [{"note": "no instances"}],
                "rules": {k: {"instances": v["instances"], "violations": v["violations"]} for k, v in self.rules.items()},
                "functions_analysed": sorted(self.functions)[:400],
                "n_functions_analysed": len(self.functions),
                "fact_config": getattr(facts, "config", None),
                "fact_tree_hash": getattr(facts, "tree", None),
                "fact_extraction_wall_s": getattr(facts, "extract_s", None),
                "known_findings_hit": [v["key"] for v in self.known_hit],
                "checker_cmd": "bin/check %s --tier %s" % (self.pid, self.tier),
                "trusted_base": ["rustc nightly MIR (mir-opt-level=0) and callee resolution",
                                 "driver/src/main.rs fact extraction", "lib/*.py analyses"],
            },
            "assumptions": self.assumptions,
            "wall_s": round(time.time() - self.t0, 3),
            "violations": len(real),
        }
        ev["coverage"].update(self.extra)
        with open(os.path.join(EVDIR, "%s.json" % self.pid), "w") as fh:
            json.dump(ev, fh, indent=1)
        print("%s: %d rule instance(s) evaluated, %d hold, %d violation(s), %d known finding(s); rules: %s" % (
            self.pid, n_ob, n_ok, len(real), len(self.known_hit),
            ", ".join("%s=%d" % (k, v["instances"]) for k, v in sorted(self.rules.items()))))
        for l in out_lines:
            print(l)
        sys.stdout.flush()
        return 1 if real else 0
