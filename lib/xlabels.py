"""Label provenance across a function and its closure bodies.

A closure's captures carry the labels of the captured places; its parameters carry
the labels of the other arguments of the call it is handed to (for iterator
adaptors: the receiver, i.e. the items). Bodies are processed parents first.
"""
from . import shape
from .facts import callee


def bodies_with_labels(facts, f, seed, call_labels=None, param_labels=None):
    bodies = sorted(facts.closures_of(f.name), key=lambda g: (g.name.count("{closure"), g.name))
    closure_caps = {}
    closure_items = {}
    out = []
    names = {g.name for g in bodies}

    def note(g, L):
        defs = {}
        for b, s in g.stmts():
            if s[0] == "a" and s[2][0] == "agg" and s[2][1][0] == "closure":
                closure_caps[s[2][1][1]] = [L.operand_labels(o) for o in s[2][2]]
                if len(s[1]) == 1:
                    defs[s[1][0]] = s[2][1][1]
        for _ in range(3):
            for b, s in g.stmts():
                if s[0] == "a" and len(s[1]) == 1 and s[2][0] in ("use", "ref"):
                    src = None
                    if s[2][0] == "use" and s[2][1][0] in ("c", "m"):
                        src = s[2][1][1][0]
                    elif s[2][0] == "ref":
                        src = s[2][1][0]
                    if src in defs:
                        defs[s[1][0]] = defs[src]
        for b, t in g.calls():
            c = callee(t)
            if "{closure#" in c.split("::")[-1] and c in names:
                # direct call of a closure (possibly a captured one): its parameters receive the call's arguments
                items = set()
                for o2 in t[2][1:]:
                    items |= L.operand_labels(o2)
                closure_items.setdefault(c, set()).update(items)
            for i, o in enumerate(t[2]):
                if o[0] in ("c", "m") and len(o[1]) == 1 and o[1][0] in defs:
                    items = set()
                    for j, o2 in enumerate(t[2]):
                        if j != i:
                            items |= L.operand_labels(o2)
                    closure_items.setdefault(defs[o[1][0]], set()).update(items)

    def one_pass():
        res = []
        L0 = shape.Labels(f, None, seed, call_labels=call_labels, param_labels=param_labels)
        note(f, L0)
        res.append((f, L0))
        for g in bodies:
            caps = closure_caps.get(g.name, [])
            items = closure_items.get(g.name, set())

            def cseed(p, caps=caps):
                o = set(seed(p) or []) if seed else set()
                if p[0] == 1:
                    for e in p[1:]:
                        if isinstance(e, list) and e[0] == "f" and str(e[3]).startswith("closure:"):
                            if e[1] < len(caps):
                                o |= caps[e[1]]
                            break
                return o
            L = shape.Labels(g, None, cseed, call_labels=call_labels,
                             param_labels={i: set(items) for i in range(2, g.nargs + 1)} if items else None)
            note(g, L)
            res.append((g, L))
        return res

    # closures may be called (and capture) across siblings: iterate until the capture / argument labels are stable
    prev = None
    out = []
    for _ in range(5):
        out = one_pass()
        snap = (sorted((k, tuple(sorted(map(str, sorted(x)) for x in v)) if False else str(v)) for k, v in closure_caps.items()), sorted((k, tuple(sorted(v))) for k, v in closure_items.items()))
        if snap == prev:
            break
        prev = snap
    return out
