"""TRAVERSE — collector completeness (rule family 3.4).

For a recursive collector / checker C over an expression enum S: every
S-typed child of every variant must reach a *continuation sink* of C — a call of
C itself or of a listed partner, or (for worklist iterators) a push/extend on
the worklist. Labels are variant-qualified ("If.then_expr"), computed over the
whole function, so `A | B` patterns that share a body are handled naturally.
"""
from . import shape, hom
from .facts import callee


def child_fields(facts, adt_path, markers, skip_variants=()):
    r = facts.adts.get(adt_path)
    out = []
    if r is None:
        return None
    for v in r["variants"]:
        if v["name"] in skip_variants:
            continue
        for fname, fty, _pub in v["fields"]:
            if any(m in fty for m in markers):
                out.append((v["name"], fname))
    return out


def sinks_reached(facts, f, adt_suffix, is_sink, bodies=None, extra_seed=None):
    """-> {label: [(callee, line)]} for every sink call whose arguments carry a label."""
    reached = {}
    fs = [f] + (bodies or [])
    seed = shape.variant_field_seed(adt_suffix)
    closure_caps = {}
    closure_items = {}

    def note_closures(g, L):
        for b, s in g.stmts():
            if s[0] == "a" and s[2][0] == "agg" and s[2][1][0] == "closure":
                closure_caps[s[2][1][1]] = [L.operand_labels(o) for o in s[2][2]]
        # a closure handed to an iterator adaptor receives the items of the receiver
        defs = {}
        for b, s in g.stmts():
            if s[0] == "a" and s[2][0] == "agg" and s[2][1][0] == "closure" and len(s[1]) == 1:
                defs[s[1][0]] = s[2][1][1]
            if s[0] == "a" and s[2][0] in ("use", "ref") and len(s[1]) == 1:
                src = s[2][1][1][0] if s[2][0] == "use" and s[2][1][0] in ("c", "m") else (s[2][1][0] if s[2][0] == "ref" else None)
                if src in defs:
                    defs[s[1][0]] = defs[src]
        for b, t in g.calls():
            for i, o in enumerate(t[2]):
                if o[0] in ("c", "m") and len(o[1]) == 1 and o[1][0] in defs:
                    items = set()
                    for j, o2 in enumerate(t[2]):
                        if j != i:
                            items |= L.operand_labels(o2)
                    closure_items.setdefault(defs[o[1][0]], set()).update(items)

    for g in fs:
        if g is f:
            L = shape.Labels(g, None, seed)
            note_closures(g, L)
        else:
            caps = closure_caps.get(g.name, [])
            items = closure_items.get(g.name, set())

            def cseed(p, caps=caps):
                out = set(seed(p) or [])
                if p[0] == 1:
                    for e in p[1:]:
                        if isinstance(e, list) and e[0] == "f" and e[3].startswith("closure:"):
                            if e[1] < len(caps):
                                out |= caps[e[1]]
                            break
                return out
            L = shape.Labels(g, None, cseed, param_labels={i: set(items) for i in range(2, g.nargs + 1)} if items else None)
            note_closures(g, L)
        for b, t in g.calls():
            c = callee(t)
            if not is_sink(c, t):
                continue
            labs = set()
            for o in t[2]:
                # out-parameters (&mut error lists etc.) are not the data being traversed
                if o[0] in ("c", "m") and len(o[1]) == 1 and g.locals[o[1][0]].startswith("&mut "):
                    continue
                labs |= L.operand_labels(o)
            for l in labs:
                reached.setdefault(l, []).append((c, t[1].get("l")))
    return reached


def check(chk, rule, facts, f, adt_path, adt_suffix, markers, is_sink, exempt=(), only_variants=None, floor=1, name=None, with_closures=True):
    """exempt: {(variant, field): reason} children that legitimately do not reach a sink."""
    kids = child_fields(facts, adt_path, markers)
    if kids is None:
        chk.lost(rule, adt_path)
        return 0
    bodies = facts.closures_of(f.name) if with_closures else []
    reached = sinks_reached(facts, f, adt_suffix, is_sink, bodies)
    n = 0
    nm = name or f.name.split("::")[-1]
    for v, g in kids:
        if only_variants is not None and v not in only_variants:
            continue
        lab = "%s.%s" % (v, g)
        if (v, g) in exempt:
            continue
        hit = reached.get(lab, [])
        n += 1
        chk.ob(rule, "%s:%s" % (nm, lab), bool(hit),
               "child %s %s" % (lab, ("reaches %s" % sorted({c.split("::")[-1] for c, _ in hit})) if hit else "never reaches a continuation of %s: that sub-expression is skipped" % nm),
               where=f.where(hit[0][1] if hit else None), fn=f.name, key="%s:%s:%s" % (rule, nm, lab),
               sample={"collector": nm, "child": lab, "sinks": sorted({c.split("::")[-1] for c, _ in hit})})
    chk.floor(rule, "%s children" % nm, n, floor)
    return n
