"""Intra-procedural forward taint over MIR locals (flow-insensitive).

With mir-opt-level=0 compiler temporaries are single-assignment, so a
flow-insensitive closure over locals is exact for temporaries and a sound
over-approximation for user variables assigned on several paths.
"""
from .facts import callee

TRANSPARENT = (
    "::deref", "::as_ref", "::borrow", "AsRef<T>>::as_ref", "::as_deref",
    "Deref>::deref", "std::borrow::Borrow<T>>::borrow",
)


def place_local(p):
    return p[0]


def operand_local(o):
    if o[0] in ("c", "m"):
        return o[1][0]
    return None


def rvalue_locals(rv):
    k = rv[0]
    out = []
    if k in ("use", "repeat"):
        l = operand_local(rv[1])
        if l is not None:
            out.append(l)
    elif k in ("ref", "addr", "disc", "len"):
        out.append(rv[1][0])
    elif k == "agg":
        for o in rv[2]:
            l = operand_local(o)
            if l is not None:
                out.append(l)
    elif k == "bin":
        for o in (rv[2], rv[3]):
            l = operand_local(o)
            if l is not None:
                out.append(l)
    elif k in ("un", "cast"):
        l = operand_local(rv[2])
        if l is not None:
            out.append(l)
    return out


def field_reads(fn, adt_suffix, field):
    """Statements/terminators that read `<place>.field` where the base is of ADT adt.
    Yields (block, dest_local|None, where) for assignments whose rvalue mentions the field."""
    def mentions(p):
        for e in p[1:]:
            if isinstance(e, list) and e[0] == "f" and e[2] == field and e[3].endswith(adt_suffix):
                return True
        return False

    for b, blk in enumerate(fn.blocks):
        if blk["cl"]:
            continue
        for s in blk["st"]:
            if s[0] != "a":
                continue
            rv = s[2]
            ps = []
            if rv[0] in ("ref", "addr", "disc"):
                ps.append(rv[1])
            elif rv[0] in ("use", "repeat", "un", "cast"):
                o = rv[1] if rv[0] in ("use", "repeat") else rv[2]
                if o[0] in ("c", "m"):
                    ps.append(o[1])
            elif rv[0] == "agg":
                ps += [o[1] for o in rv[2] if o[0] in ("c", "m")]
            elif rv[0] == "bin":
                ps += [o[1] for o in (rv[2], rv[3]) if o[0] in ("c", "m")]
            if any(mentions(p) for p in ps):
                yield b, s[1][0], s[3]
        t = blk["t"]
        if t[0] == "call":
            for o in t[2]:
                if o[0] in ("c", "m") and mentions(o[1]):
                    yield b, None, t[1].get("l")


def forward(fn, seeds, transparent=TRANSPARENT, extra_transparent=()):
    """Propagate taint from seed locals. Returns (tainted locals, sinks) where sinks
    are (block, callee, arg index, line) for non-transparent calls receiving a
    tainted operand; a tainted return place is reported as callee '<return>'."""
    tr = tuple(transparent) + tuple(extra_transparent)
    tainted = set(seeds)
    sinks = set()
    changed = True
    while changed:
        changed = False
        for b, blk in enumerate(fn.blocks):
            if blk["cl"]:
                continue
            for s in blk["st"]:
                if s[0] != "a":
                    continue
                if any(l in tainted for l in rvalue_locals(s[2])):
                    d = s[1][0]
                    if d not in tainted:
                        tainted.add(d)
                        changed = True
            t = blk["t"]
            if t[0] == "call":
                c = callee(t)
                for i, o in enumerate(t[2]):
                    l = operand_local(o)
                    if l is not None and l in tainted:
                        if c.endswith(tr):
                            d = t[3][0]
                            if d not in tainted:
                                tainted.add(d)
                                changed = True
                        else:
                            sinks.add((b, c, i, t[1].get("l")))
    if 0 in tainted:
        sinks.add((-1, "<return>", 0, fn.line))
    return tainted, sorted(sinks)
