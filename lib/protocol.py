"""Check-then-act protocol rules on MIR CFGs (rule family 3.6 / 3.5).

ok_blocks(fn)            blocks that assign `Ok(..)` to the return place
honor_result(fn, b)      the Result/Option produced by the call in block b is
                         consumed so that its failure edge cannot reach an Ok return
honor_bool(fn, b, good)  same for a boolean test: the !good edge cannot reach Ok
must_pass_from(...)      cut-reachability wrappers
"""
from . import cfg
from .facts import callee
from .panics import _def_sites


def ok_blocks(fn, variants=("Ok",)):
    out = set()
    for b, s in fn.stmts():
        if s[0] == "a" and s[1] == [0] and s[2][0] == "agg" and s[2][1][0] == "adt" and s[2][1][2] in variants:
            out.add(b)
    return out


def success_targets(fn):
    """Blocks after which the function is committed to returning success: Ok-assignments,
    or (for functions that return a callee's result directly) the return blocks."""
    ok = ok_blocks(fn)
    return ok if ok else set(cfg.return_blocks(fn))


def _uses_of_local(fn, local):
    """(block, kind, payload): kind in 'branch' | 'disc' | 'copy' | 'ret' | 'arg' | 'not' | 'switch' | 'ref'"""
    out = []
    for b, blk in enumerate(fn.blocks):
        if blk["cl"]:
            continue
        for s in blk["st"]:
            if s[0] != "a":
                continue
            rv = s[2]
            if rv[0] == "disc" and rv[1][0] == local:
                out.append((b, "disc", s[1][0]))
            elif rv[0] in ("use", "cast"):
                o = rv[1] if rv[0] == "use" else rv[2]
                if o[0] in ("c", "m") and o[1][0] == local:
                    out.append((b, "ret" if s[1] == [0] else "copy", (s[1][0], o[1])))
            elif rv[0] == "un" and rv[2][0] in ("c", "m") and rv[2][1][0] == local:
                out.append((b, "not" if rv[1] == "Not" else "copy", (s[1][0], rv[2][1])))
            elif rv[0] in ("ref", "addr") and rv[1][0] == local:
                out.append((b, "ref", (s[1][0], rv[1])))
            elif rv[0] == "agg":
                for o in rv[2]:
                    if o[0] in ("c", "m") and o[1][0] == local:
                        out.append((b, "copy", (s[1][0], o[1])))
        t = blk["t"]
        if t[0] == "call":
            for i, o in enumerate(t[2]):
                if o[0] in ("c", "m") and o[1][0] == local:
                    c = callee(t)
                    out.append((b, "branch" if c.endswith("ops::Try>::branch") else "arg", (t, i)))
        elif t[0] == "sw":
            o = t[1]
            if o[0] in ("c", "m") and o[1][0] == local:
                out.append((b, "switch", t))
    return out


PASS_THROUGH = ("::map_err", "::ok_or_else", "::ok_or", "::map", "Into<U>>::into", "::and_then", "From<T>>::from",
                "::as_ref", "::cloned", "::copied")


def result_switches(fn, local, depth=6, seen=None):
    """Follow a Result/Option/ControlFlow value to the switches that branch on it.
    Returns list of (switch block, kind, {value: target}, otherwise) and a flag `returned`
    (the value reaches the return place, i.e. the caller decides)."""
    seen = seen if seen is not None else set()
    if local in seen or depth < 0:
        return [], False
    seen.add(local)
    sw = []
    returned = (local == 0)
    for b, kind, pay in _uses_of_local(fn, local):
        if kind == "disc":
            d = pay
            for bb, k2, p2 in _uses_of_local(fn, d):
                if k2 == "switch":
                    t = p2
                    sw.append((bb, "disc", {v: tg for v, tg in t[2]}, t[3]))
        elif kind == "branch":
            t, i = pay
            s2, r2 = result_switches(fn, t[3][0], depth - 1, seen)
            sw += [(bb, "cf", arms, oth) for bb, k, arms, oth in s2]
            returned |= r2
        elif kind in ("copy", "ref"):
            s2, r2 = result_switches(fn, pay[0], depth - 1, seen)
            sw += s2
            returned |= r2
        elif kind == "ret":
            returned = True
        elif kind == "arg":
            t, i = pay
            c = callee(t)
            if c.endswith(PASS_THROUGH) and i == 0:
                s2, r2 = result_switches(fn, t[3][0], depth - 1, seen)
                sw += s2
                returned |= r2
    return sw, returned


def honor_result(fn, call_block, succ=None):
    """-> (ok, detail). The failure edge(s) of the value produced in call_block cannot reach success."""
    t = fn.blocks[call_block]["t"]
    d = t[3][0]
    succ = succ if succ is not None else success_targets(fn)
    sws, returned = result_switches(fn, d)
    if not sws:
        if returned:
            return True, "result is returned to the caller unchanged"
        return False, "the result of the check is never branched on nor returned (ignored)"
    bad_reach = []
    for b, kind, arms, oth in sws:
        # variant 0 = Ok / Some? no: Option::None = 0, Some = 1; Result Ok = 0, Err = 1; ControlFlow Continue = 0, Break = 1
        for v, tgt in arms.items():
            if v == 1 and kind in ("cf",):
                if cfg.reachable(fn, tgt) & succ:
                    bad_reach.append((b, v))
    # direct discriminant switches: need the ADT to know which variant is failure; handled by caller via honor_variant
    if bad_reach:
        return False, "the failure edge of the check can still reach a success return (switch block(s) %s)" % bad_reach
    return True, "failure edges leave through the error return (%d switch(es)%s)" % (len(sws), ", or result returned" if returned else "")


def honor_variant(fn, call_block, bad_variants, succ=None):
    """For `match check(..) { .. }` written without `?`: edges for the given failing
    variant indices of the direct discriminant switch must not reach success."""
    t = fn.blocks[call_block]["t"]
    d = t[3][0]
    succ = succ if succ is not None else success_targets(fn)
    sws, returned = result_switches(fn, d)
    direct = [s for s in sws if s[1] == "disc"]
    if not direct:
        return None, "no direct match on the result"
    bad = []
    for b, kind, arms, oth in direct:
        for v, tgt in arms.items():
            if v in bad_variants and (cfg.reachable(fn, tgt) & succ):
                bad.append((b, v))
    if bad:
        return False, "failing variant(s) %s of the check can reach a success return" % bad
    return True, "failing variants leave through the error return"


def bool_edges(fn, call_block):
    """Switches decided by the boolean produced in call_block (through copies and Not).
    -> list of (switch block, {True: target, False: target})"""
    t = fn.blocks[call_block]["t"]
    d = t[3][0]
    out = []
    work = [(d, False)]
    seen = set()
    while work:
        l, neg = work.pop()
        if (l, neg) in seen:
            continue
        seen.add((l, neg))
        for b, kind, pay in _uses_of_local(fn, l):
            if kind == "switch":
                tt_ = pay
                zero = None
                for v, tg in tt_[2]:
                    if v == 0:
                        zero = tg
                nonzero = tt_[3]
                if zero is None:
                    continue
                m = {False: zero, True: nonzero}
                if neg:
                    m = {True: zero, False: nonzero}
                out.append((b, m))
            elif kind == "not":
                work.append((pay[0], not neg))
            elif kind == "copy":
                work.append((pay[0], neg))
            elif kind == "branch":
                # `?` on Result<bool>: Continue payload
                tcall, i = pay
                work.append((tcall[3][0], neg))
            elif kind == "arg":
                tcall, i = pay
                if callee(tcall).endswith(PASS_THROUGH) and i == 0:
                    work.append((tcall[3][0], neg))
    return out


def honor_bool(fn, call_block, good, succ=None):
    succ = succ if succ is not None else success_targets(fn)
    edges = bool_edges(fn, call_block)
    if not edges:
        return False, "the boolean result of the test is never branched on (ignored)"
    bad = []
    for b, m in edges:
        tgt = m[not good]
        if cfg.reachable(fn, tgt) & succ:
            bad.append(b)
    if bad:
        return False, "the %s edge of the test can still reach a success return (switch block(s) %s)" % (str(not good).lower(), bad)
    return True, "the %s edge leaves through the error return" % str(not good).lower()


def calls_matching(fn, suffixes, region=None):
    if isinstance(suffixes, str):
        suffixes = (suffixes,)
    return [(b, t) for b, t in fn.calls() if callee(t).endswith(tuple(suffixes)) and (region is None or b in region)]


def must_pass(fn, start, targets, through_blocks):
    return cfg.must_pass(fn, start, targets, set(through_blocks))


def loop_of(fn, block):
    """Innermost enclosing `for` loop of `block`: (head block with the next() call, Some target) or None."""
    best = None
    for b, t in fn.calls():
        if not callee(t).endswith("::next"):
            continue
        # the switch on its Option result
        sws, _ = result_switches(fn, t[3][0])
        cands = [(sb, arms.get(1)) for sb, kind, arms, oth in sws if arms.get(1) is not None]
        if not cands:
            continue
        # the switch on the iterator's own Option is the one that dominates the others
        first = [c for c in cands if all(cfg.dominates(fn, c[0], o[0]) for o in cands)]
        sb, some = (first or cands)[0]
        if cfg.dominates(fn, some, block) and b in cfg.reachable(fn, some):
            if best is None or cfg.dominates(fn, best[1], some):
                best = (b, some)
    return best
