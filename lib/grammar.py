"""Minimal reader for cedar-policy-core/src/parser/grammar.lalrpop: the lexer's literal-token
aliases (`"in" => IN`) and the operator productions (`"<" => cst::RelOp::Less`)."""
import os
import re

from .factsbuild import REPO

PATH = "cedar-policy-core/src/parser/grammar.lalrpop"


def load():
    p = os.path.join(REPO, PATH)
    with open(p) as fh:
        src = fh.read()
    out = {"aliases": {}, "literals": set(), "ops": {}, "regex": {}}
    m = re.search(r"\nmatch\s*\{(.*?)\n\}\n", src, re.S)
    if m:
        body = m.group(1)
        for line in body.splitlines():
            line = line.split("//")[0].strip()
            mm = re.match(r'"((?:[^"\\]|\\.)*)"\s*=>\s*([A-Z_]+)\s*,?$', line)
            if mm:
                out["aliases"][mm.group(2)] = mm.group(1)
                continue
            mm = re.match(r'r"((?:[^"\\]|\\.)*)"\s*=>\s*([A-Z_]+)\s*,?$', line)
            if mm:
                out["regex"][mm.group(2)] = mm.group(1)
                continue
            if line.startswith('r"') or line.startswith('r#'):
                continue
            for lit in re.findall(r'"((?:[^"\\]|\\.)*)"\s*,', line + ","):
                out["literals"].add(lit)
    for name in ("RelOp", "AddOp", "MultOp"):
        m = re.search(r"\n%s\s*:\s*cst::%s\s*=\s*\{(.*?)\n\}" % (name, name), src, re.S)
        table = {}
        if m:
            for line in m.group(1).splitlines():
                line = line.split("//")[0].strip()
                mm = re.match(r'(?:"((?:[^"\\]|\\.)*)"|([A-Z_]+))\s*=>\s*cst::%s::(\w+)\s*,?$' % name, line)
                if mm:
                    tok = mm.group(1) if mm.group(1) is not None else out["aliases"].get(mm.group(2))
                    if tok is not None:
                        table[tok] = mm.group(3)
        out["ops"][name] = table
    # which production's repetition is separated by a literal token:  Or: .. ("||" <And>)* => cst::Or  ->  {"||": "Or"}
    out["sep"] = {}
    for m in re.finditer(r"\n(\w+)\s*:\s*Node<Option<cst::(\w+)>>\s*=\s*\{(.*?)\n\}", src, re.S):
        for lit in re.findall(r'\(\s*"((?:[^"\\]|\\.)*)"\s*<\w+>\s*\)\*', m.group(3)):
            out["sep"][lit] = m.group(2)
    return out
