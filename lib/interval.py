"""Interval abstract interpretation of small loop-free integer functions on MIR facts.

A forward analysis over the interval domain with branch refinement, enumerating the (few) acyclic paths of a function:
every integer-valued place gets an interval [lo, hi]; booleans produced by comparisons with constants or by sign tests
(`i64::is_negative`, `is_positive`) remember the predicate they stand for, so that a `SwitchInt` on them refines the interval of
the compared value on each edge; a path whose refinement is empty is infeasible and dropped. Reads of the same immutable place
(`_1.epoch` copied into several temporaries) share one abstract value. No value is ever computed concretely: the result is the
join, over all feasible paths, of the interval(s) of the returned value (struct fields kept apart), plus for every arithmetic
`Assert` (overflow / division by zero) whether the interval of its operands proves it cannot fire.

Relational part (a reduced product with the intervals, still no concrete evaluation): every value also carries an exact *affine
form* over "roots" (the values first read from the function's inputs, and the results of non-linear steps): v = sum c_i * r_i + d;
a root produced by a remainder by a constant m carries a *congruence* r == form(x) (mod m). `checked_*` operations of core::num
yield a wrapped value (Option / ControlFlow payload) with the exact mathematical form, a flag whether the failure side is possible
at all (the mathematical interval leaves the type's range) and are followed through `Try::branch` and discriminant switches.
`rel_to` gives the interval of (v - input) and `mod_form` the affine form of v modulo m after substituting the congruences, which
together decide statements such as "the result is the input rounded down to a multiple of m" or "the result is the input's
non-negative remainder modulo m" for every input.

Sound for the operations modelled (Add, Sub, Mul, Neg, Div and Rem by a non-zero constant, comparisons, rem_euclid with a positive
constant modulus, abs); everything else yields the full range of the type. Functions with loops are refused (Unsupported).
"""
from lib.facts import callee

RANGES = {
    "i8": (-2**7, 2**7 - 1), "i16": (-2**15, 2**15 - 1), "i32": (-2**31, 2**31 - 1), "i64": (-2**63, 2**63 - 1),
    "i128": (-2**127, 2**127 - 1), "isize": (-2**63, 2**63 - 1),
    "u8": (0, 2**8 - 1), "u16": (0, 2**16 - 1), "u32": (0, 2**32 - 1), "u64": (0, 2**64 - 1), "u128": (0, 2**128 - 1),
    "usize": (0, 2**64 - 1),
}


class Unsupported(Exception):
    pass


def _pkey(p):
    """Canonical key of a place: field projections are identified by index only."""
    return repr([p[0]] + [("f", e[1]) if isinstance(e, list) and e and e[0] == "f" else (tuple(e) if isinstance(e, list) else e) for e in p[1:]])


import re
PARAM_RE = re.compile(r"^(?:_(\d+)|\(\*_(\d+)\))((?:\.\w+)*)$")


def place_desc(p):
    """`_1.epoch`, `(*_1).ms`: a readable, name-based description of an input place (field names, not local names)."""
    out = "_%d" % p[0]
    for e in p[1:]:
        if e == "*" or (isinstance(e, list) and e and e[0] == "*"):
            out = "(*%s)" % out
        elif isinstance(e, list) and e and e[0] == "f":
            out += "." + (e[2] if e[2] else str(e[1]))
        elif isinstance(e, list) and e and e[0] == "d":
            out = "(%s as %s)" % (out, e[1])
        else:
            out += "[?]"
    return out


# ---- exact affine forms over roots: ({root: coeff}, d) ------------------------------------------------------------------
def aff_const(k):
    return ({}, k)


def aff_add(a, b, sign=1):
    c = dict(a[0])
    for r, k in b[0].items():
        c[r] = c.get(r, 0) + sign * k
        if c[r] == 0:
            del c[r]
    return (c, a[1] + sign * b[1])


def aff_scale(a, k):
    if k == 0:
        return ({}, 0)
    return ({r: c * k for r, c in a[0].items()}, a[1] * k)


class State:
    def __init__(self):
        self.iv = {}      # value key -> (lo, hi)
        self.alias = {}   # place key -> value key
        self.pred = {}    # place key (bool) -> (value key, op, const)  meaning  bool <=> value op const
        self.agg = {}     # place key -> {field name: value key}
        self.rem = {}     # value key r -> (value key x, c): r = x % c  (the sign of r follows x: the one relational fact kept)
        self.aff = {}     # value key -> ({root: coeff}, d): exact affine form (absent: the value is its own root)
        self.cong = {}    # root -> (({root: coeff}, d), m): root == form (mod m)
        self.origin = {}  # root -> description of the input place it was first read from
        self.wrap = {}    # place key -> (payload value key, can_fail, can_succeed, description)  (Option<int> / ControlFlow)
        self.ovf = {}     # place key of an overflow flag -> (value key, exact form) valid once the assert on the flag has passed
        self.discof = {}  # value key of a discriminant -> (wrap tuple, discriminant value of the payload variant)
        self.variant = {} # aggregate key -> variant name
        self.none_steps = []  # checked steps whose failure side was taken on this path
        self.copyof = {}  # place key of a local -> place it is a whole (non-integer, immutable) copy of
        self.quot = {}    # value key -> (exact form of x, C): v = x / C, truncating, C > 0
        self.n = 0

    def copy(self):
        s = State()
        s.iv = dict(self.iv); s.alias = dict(self.alias); s.pred = dict(self.pred)
        s.agg = {k: dict(v) for k, v in self.agg.items()}; s.n = self.n
        s.rem = dict(self.rem)
        s.aff = dict(self.aff); s.cong = dict(self.cong); s.origin = dict(self.origin); s.wrap = dict(self.wrap)
        s.copyof = dict(self.copyof); s.quot = dict(self.quot)
        s.ovf = dict(self.ovf); s.discof = dict(self.discof); s.variant = dict(self.variant); s.none_steps = list(self.none_steps)
        return s

    def fresh(self, lo, hi):
        self.n += 1
        k = "v%d" % self.n
        self.iv[k] = (lo, hi)
        return k


class Analysis:
    def __init__(self, fn, max_paths=256, resolver=None):
        self.f = fn
        self.max_paths = max_paths
        self.resolver = resolver    # name -> Fn (facts.fn): lets `Option::map(checked result, capture-less closure)` be followed
        self.depth = 0
        self.returns = []       # list of {"": (lo,hi)} or {field: (lo,hi)}
        self.rets = []          # list of (final state, value key of the returned value)
        self.checked_log = {}   # (block, checked op) -> named exact form of its mathematical result
        self.cur = 0
        self.asserts = {}       # (block, kind) -> proved on every path reaching it?
        self.paths = 0
        # locals that are mutably borrowed, or written through a projection, anywhere in the body: reads of places rooted
        # in them are never shared (each read is a fresh unknown) - sharing is only sound for immutable places
        self.mutroots = set()
        for b, s_ in fn.stmts():
            if s_[0] == "a":
                if s_[2][0] == "ref" and s_[2][2]:
                    self.mutroots.add(s_[2][1][0])
                if len(s_[1]) > 1:
                    self.mutroots.add(s_[1][0])
        for b, t in fn.calls():
            if len(t[3]) > 1:
                self.mutroots.add(t[3][0])

    # -- helpers -------------------------------------------------------------------------------------------------
    def ty_range(self, local):
        return RANGES.get(self.f.locals[local])

    def place_ty(self, p):
        if len(p) == 1:
            return self.f.locals[p[0]]
        return None

    def vkey(self, st, p, default_range=None):
        """Abstract value key of a place read (immutable places share their key)."""
        for _ in range(8):
            src = st.copyof.get(_pkey(p[:1]))
            if src is None or len(p) == 1:
                break
            p = list(src) + list(p[1:])
        k = _pkey(p)
        if k in st.alias:
            return st.alias[k]
        # payload of a wrapped checked result: (_x as Continue).0 / (_x as Some).0
        if len(p) == 3 and isinstance(p[1], list) and p[1][0] == "d" and p[1][1] in ("Continue", "Some") \
                and isinstance(p[2], list) and p[2][0] == "f" and p[2][1] == 0 and _pkey(p[:1]) in st.wrap:
            return st.wrap[_pkey(p[:1])][0]
        # field of a tracked aggregate
        if len(p) >= 2 and p[-1][0] == "f":
            base = _pkey(p[:-1])
            if base in st.alias and st.alias[base] in st.agg:
                fld = p[-1][2] if p[-1][2] else str(p[-1][1])
                vk = st.agg[st.alias[base]].get(fld)
                if vk:
                    return vk
        r = default_range or (self.ty_range(p[0]) if len(p) == 1 else None) or RANGES["i128"]
        shared_ref = self.f.locals[p[0]].startswith("&") and not self.f.locals[p[0]].startswith("&mut")
        shared = not (p[0] in self.mutroots and len(p) > 1) and ("*" not in p[1:] or shared_ref)
        if shared and len(p) > 1:
            # an immutable input place has one value however it is reached (by index, by name from a callee summary)
            want = place_desc(p)
            for r0, o in st.origin.items():
                if o == want:
                    st.alias[k] = r0
                    return r0
        vk = st.fresh(*r)
        if shared:
            st.origin[vk] = place_desc(p)   # only immutable places are named: a name identifies one value
            st.alias[k] = vk
        return vk

    def operand(self, st, o, ty_hint=None):
        """-> ('i', value key) | ('b', place key) | ('k', const) | ('?', None)"""
        if o[0] in "cm":
            p = o[1]
            k = _pkey(p)
            if k in st.pred:
                return ("b", k)
            r = RANGES.get(ty_hint) if ty_hint else None
            return ("i", self.vkey(st, p, r))
        c = o[1]
        if "v" in c:
            v = c["v"]
            if isinstance(v, bool):
                return ("k", int(v))
            try:
                return ("k", int(v))
            except (TypeError, ValueError):
                return ("?", None)
        return ("?", None)

    def ival(self, st, a):
        if a[0] == "k":
            return (a[1], a[1])
        if a[0] == "i":
            return st.iv[a[1]]
        return None

    def aff_of(self, st, a):
        """Exact affine form of an operand result ('i', vk) / ('k', c), or None."""
        if a[0] == "k":
            return aff_const(a[1])
        if a[0] == "i":
            return st.aff.get(a[1]) or ({a[1]: 1}, 0)
        return None

    def set_aff(self, st, vk, form):
        if form is not None and form != ({vk: 1}, 0):
            st.aff[vk] = form

    # -- queries on a final state -------------------------------------------------------------------------------------
    def root_name(self, st, r):
        return st.origin.get(r, r)

    def form_named(self, st, form):
        return ({self.root_name(st, r): c for r, c in form[0].items()}, form[1])

    def eval_form(self, st, form):
        lo = hi = form[1]
        for r, c in form[0].items():
            a, b = st.iv[r]
            lo += min(c * a, c * b); hi += max(c * a, c * b)
        return (lo, hi)

    def rel_to(self, st, vk, origin):
        """Interval of (v - x) where x is the input read from `origin`; None when v's form does not mention x."""
        form = st.aff.get(vk) or ({vk: 1}, 0)
        xs = [r for r in form[0] if st.origin.get(r) == origin]
        if len(xs) != 1:
            return None
        rest = aff_add(form, ({xs[0]: 1}, 0), -1)
        return self.eval_form(st, rest)

    def mod_form(self, st, vk, m):
        """Affine form of v modulo m over named input roots, after substituting r == form (mod m') for remainder roots
        whose modulus m' is a multiple of m."""
        form = st.aff.get(vk) or ({vk: 1}, 0)
        for _ in range(64):
            sub = [r for r in form[0] if r in st.cong and st.cong[r][1] % m == 0]
            if not sub:
                break
            r = sub[0]
            c = form[0][r]
            form = aff_add(aff_add(form, ({r: c}, 0), -1), aff_scale(st.cong[r][0], c))
        coeffs = {}
        for r, c in form[0].items():
            c %= m
            if c:
                n = self.root_name(st, r)
                coeffs[n] = (coeffs.get(n, 0) + c) % m
        return ({n: c for n, c in coeffs.items() if c}, form[1] % m)

    def leaves(self, st, vk, prefix=""):
        """Flatten a returned value into {leaf path: value key}; aggregates by field name."""
        if vk in st.agg:
            out = {}
            for n, k in st.agg[vk].items():
                out.update(self.leaves(st, k, (prefix + "." if prefix else "") + n))
            return out
        return {prefix: vk}

    # -- transfer -------------------------------------------------------------------------------------------------
    def binop(self, op, x, y, ty):
        full = RANGES.get(ty, RANGES["i128"])
        if x is None or y is None:
            return full
        (a, b), (c, d) = x, y
        if op in ("Add", "AddWithOverflow", "AddUnchecked"):
            r = (a + c, b + d)
        elif op in ("Sub", "SubWithOverflow", "SubUnchecked"):
            r = (a - d, b - c)
        elif op in ("Mul", "MulWithOverflow", "MulUnchecked"):
            ps = [a * c, a * d, b * c, b * d]
            r = (min(ps), max(ps))
        elif op == "Rem" and c == d and c != 0:
            m = abs(c) - 1
            lo = 0 if a >= 0 else max(a, -m)
            hi = 0 if b <= 0 else min(b, m)
            r = (lo, hi)
        elif op == "Div" and c == d and c > 0:
            # truncating division by a positive constant is monotone
            def q(n):
                return abs(n) // c * (1 if n >= 0 else -1)
            r = (q(a), q(b))
        else:
            return full
        return r

    def lin(self, st, op, x, y):
        """Exact affine form of `x op y`, or None."""
        fx, fy = self.aff_of(st, x), self.aff_of(st, y)
        if fx is None or fy is None:
            return None
        base = op.replace("WithOverflow", "").replace("Unchecked", "")
        if base == "Add":
            return aff_add(fx, fy, 1)
        if base == "Sub":
            return aff_add(fx, fy, -1)
        if base == "Mul":
            if y[0] == "k":
                return aff_scale(fx, y[1])
            if x[0] == "k":
                return aff_scale(fy, x[1])
        return None

    def fits(self, r, ty):
        full = RANGES.get(ty)
        return full is not None and full[0] <= r[0] and r[1] <= full[1]

    def assign(self, st, dest, rv):
        dk = _pkey(dest)
        st.alias.pop(dk, None); st.pred.pop(dk, None); st.wrap.pop(dk, None); st.copyof.pop(dk, None)
        k = rv[0]
        dty = self.place_ty(dest)
        if k == "use":
            if rv[1][0] in "cm" and _pkey(rv[1][1]) in st.wrap:
                st.wrap[dk] = st.wrap[_pkey(rv[1][1])]
                return
            if rv[1][0] in "cm" and len(dest) == 1 and dty not in RANGES and dty != "bool" and dest[0] not in self.mutroots \
                    and rv[1][1][0] not in self.mutroots and _pkey(rv[1][1]) not in st.alias and _pkey(rv[1][1]) not in st.pred:
                # whole copy / move of a struct that nothing mutates: fields of the copy are the fields of the source
                st.copyof[dk] = list(rv[1][1])
                return
            a = self.operand(st, rv[1], dty)
            if a[0] == "i":
                st.alias[dk] = a[1]
            elif a[0] == "b":
                st.pred[dk] = st.pred[a[1]]
            elif a[0] == "k":
                st.alias[dk] = st.fresh(a[1], a[1])
            return
        if k == "bin":
            op = rv[1]
            x = self.operand(st, rv[2]); y = self.operand(st, rv[3])
            if op in ("Eq", "Ne", "Lt", "Le", "Gt", "Ge"):
                if x[0] == "i" and y[0] == "k":
                    st.pred[dk] = (x[1], op, y[1])
                elif x[0] == "k" and y[0] == "i":
                    flip = {"Eq": "Eq", "Ne": "Ne", "Lt": "Gt", "Le": "Ge", "Gt": "Lt", "Ge": "Le"}[op]
                    st.pred[dk] = (y[1], flip, x[1])
                elif x[0] == "k" and y[0] == "k":
                    v = {"Eq": x[1] == y[1], "Ne": x[1] != y[1], "Lt": x[1] < y[1], "Le": x[1] <= y[1], "Gt": x[1] > y[1], "Ge": x[1] >= y[1]}[op]
                    st.pred[dk] = ("const", "Is", bool(v))
                return
            if op in ("BitAnd", "BitOr") and x[0] == "b" and y[0] == "b":
                px, py = st.pred[x[1]], st.pred[y[1]]
                for pa, pb in ((px, py), (py, px)):
                    if pa[0] == "const":
                        if op == "BitAnd":
                            st.pred[dk] = pb if pa[2] else ("const", "Is", False)
                        else:
                            st.pred[dk] = ("const", "Is", True) if pa[2] else pb
                        return
                return
            ity = None
            if rv[2][0] in "cm" and len(rv[2][1]) == 1:
                ity = self.f.locals[rv[2][1][0]]
            elif rv[3][0] in "cm" and len(rv[3][1]) == 1:
                ity = self.f.locals[rv[3][1][0]]
            r = self.binop(op, self.ival(st, x), self.ival(st, y), ity or dty)
            form = self.lin(st, op, x, y)
            if op.endswith("WithOverflow"):
                ok = ity is not None and self.fits(r, ity)
                full = RANGES.get(ity, RANGES["i128"])
                vk = st.fresh(*(r if ok else full))
                ak = st.fresh(0, 0)
                st.agg[ak] = {"0": vk}
                st.alias[dk] = ak
                fk = _pkey(dest + [["f", 1, None]])
                st.pred[fk] = ("const", "Is", False) if ok else ("unknown", "Is", None)
                st.alias[_pkey(dest + [["f", 0, None]])] = vk
                if ok:
                    self.set_aff(st, vk, form)
                elif form is not None:
                    # the mathematical form (and range) hold once the overflow assert on the flag has passed
                    st.ovf[fk] = (vk, form, (max(r[0], full[0]), min(r[1], full[1])))
                return
            full = RANGES.get(dty or ity, RANGES["i128"])
            exact = full[0] <= r[0] and r[1] <= full[1]
            if not exact:
                r = full
            st.alias[dk] = st.fresh(*r)
            if exact:
                self.set_aff(st, st.alias[dk], form)
            if op == "Rem" and x[0] == "i" and y[0] == "k" and y[1] != 0:
                st.rem[st.alias[dk]] = (x[1], y[1])
                st.cong[st.alias[dk]] = (self.aff_of(st, x), abs(y[1]))
            if op == "Div" and x[0] == "i" and y[0] == "k" and y[1] > 0:
                q = st.quot.get(x[1])
                st.quot[st.alias[dk]] = (q[0], q[1] * y[1]) if q else (self.aff_of(st, x), y[1])
            return
        if k == "un" and rv[1] == "Not":
            a = self.operand(st, rv[2])
            if a[0] == "b":
                v, op, c = st.pred[a[1]]
                if v == "const":
                    st.pred[dk] = ("const", "Is", not c)
                elif v != "unknown":
                    st.pred[dk] = (v, {"Eq": "Ne", "Ne": "Eq", "Lt": "Ge", "Ge": "Lt", "Le": "Gt", "Gt": "Le"}[op], c)
            return
        if k == "un" and rv[1] == "Neg":
            a = self.operand(st, rv[2])
            x = self.ival(st, a)
            if x is not None:
                st.alias[dk] = st.fresh(-x[1], -x[0])
                if dty and self.fits((-x[1], -x[0]), dty):
                    self.set_aff(st, st.alias[dk], aff_scale(self.aff_of(st, a), -1))
            return
        if k == "agg" and rv[1][0] == "adt":
            names = rv[1][3]
            ak = st.fresh(0, 0)
            flds = {}
            for n, o in zip(names, rv[2]):
                a = self.operand(st, o)
                if a[0] == "i":
                    flds[n] = a[1]
                elif a[0] == "k":
                    flds[n] = st.fresh(a[1], a[1])
            st.agg[ak] = flds
            st.variant[ak] = rv[1][2]
            st.alias[dk] = ak
            return
        if k == "cast":
            a = self.operand(st, rv[2])
            x = self.ival(st, a)
            tgt = RANGES.get(dty)
            if x is not None and tgt and tgt[0] <= x[0] and x[1] <= tgt[1]:
                st.alias[dk] = st.fresh(*x)
                self.set_aff(st, st.alias[dk], self.aff_of(st, a))
            return
        if k == "disc":
            wk = _pkey(rv[1])
            if wk in st.wrap:
                okv = 0 if str(rv[2]).endswith("ControlFlow") else 1 if str(rv[2]).endswith("Option") else None
                if okv is not None:
                    vk = st.fresh(0, 1)
                    st.discof[vk] = (st.wrap[wk], okv)
                    st.alias[dk] = vk
            return
        # anything else: unknown (fresh on demand)

    def call(self, st, t):
        c = callee(t)
        dest = t[3]
        dk = _pkey(dest)
        st.alias.pop(dk, None); st.pred.pop(dk, None); st.wrap.pop(dk, None); st.copyof.pop(dk, None)
        last = c.split("::")[-1]
        if self.resolver is not None and c.startswith("cedar_policy") and self.depth < 6 and self.summary(st, c, t):
            return
        if last == "branch" and "Try" in c and len(t[2]) == 1 and t[2][0][0] in "cm" and _pkey(t[2][0][1]) in st.wrap:
            st.wrap[dk] = st.wrap[_pkey(t[2][0][1])]
            return
        if last == "map" and "option::Option" in c and len(t[2]) == 2 and t[2][0][0] in "cm" and _pkey(t[2][0][1]) in st.wrap \
                and self.resolver is not None and t[2][1][0] in "cm" and len(t[2][1][1]) == 1:
            w = self.map_closure(st, st.wrap[_pkey(t[2][0][1])], t[2][1][1][0])
            if w is not None:
                st.wrap[dk] = w
            return
        args = [self.operand(st, o) for o in t[2]]
        if c.startswith("core::num::") or c.startswith("std::num::"):
            ity = None
            if t[2] and t[2][0][0] in "cm" and len(t[2][0][1]) == 1:
                ity = self.f.locals[t[2][0][1][0]]
            elif len(t[2]) > 1 and t[2][1][0] == "k":
                ity = t[2][1][1].get("t")
            if last in ("checked_add", "checked_sub", "checked_mul") and len(args) == 2 and args[0][0] in "ik" and args[1][0] in "ik" and ity in RANGES:
                op = {"checked_add": "Add", "checked_sub": "Sub", "checked_mul": "Mul"}[last]
                r = self.binop(op, self.ival(st, args[0]), self.ival(st, args[1]), ity)
                full = RANGES[ity]
                form = self.lin(st, op, args[0], args[1])
                can_fail = not self.fits(r, ity)
                lo, hi = max(r[0], full[0]), min(r[1], full[1])
                can_succeed = lo <= hi
                vk = st.fresh(*((lo, hi) if can_succeed else full))
                self.set_aff(st, vk, form)
                desc = "%s@bb%d" % (last, self.cur)
                st.wrap[dk] = (vk, can_fail, can_succeed, desc)
                self.checked_log.setdefault((self.cur, last), self.form_named(st, form) if form is not None else None)
                return
            if last in ("checked_rem_euclid", "checked_rem") and len(args) == 2 and args[0][0] == "i" and args[1][0] == "k" and args[1][1] not in (0, -1):
                m = abs(args[1][1])
                if last == "checked_rem_euclid":
                    vk = st.fresh(0, m - 1)
                else:
                    vk = st.fresh(*self.binop("Rem", self.ival(st, args[0]), (args[1][1], args[1][1]), ity))
                    st.rem[vk] = (args[0][1], args[1][1])
                st.cong[vk] = (self.aff_of(st, args[0]), m)
                st.wrap[dk] = (vk, False, True, "%s@bb%d" % (last, self.cur))
                self.checked_log.setdefault((self.cur, last), ("rem", self.form_named(st, self.aff_of(st, args[0])), m))
                return
            if last in ("is_negative", "is_positive") and args and args[0][0] == "i":
                st.pred[dk] = (args[0][1], "Lt" if last == "is_negative" else "Gt", 0)
                return
            if last == "rem_euclid" and len(args) == 2 and args[1][0] == "k" and args[1][1] > 0:
                st.alias[dk] = st.fresh(0, args[1][1] - 1)
                if args[0][0] in "ik":
                    st.cong[st.alias[dk]] = (self.aff_of(st, args[0]), args[1][1])
                return
            if last in ("abs", "unsigned_abs") and args and args[0][0] in "ik":
                a, b = self.ival(st, args[0])
                lo = 0 if a <= 0 <= b else min(abs(a), abs(b))
                st.alias[dk] = st.fresh(lo, max(abs(a), abs(b)))
                return

    def summary(self, st, c, t):
        """Call of a small loop-free function of the workspace that returns one integer on one path: re-express its result (exact
        affine form / truncating quotient over its parameters' fields) over the caller's argument places. -> handled?"""
        g = self.resolver(c)
        if g is None or len(g.blocks) > 24:
            return False
        try:
            sub = Analysis(g, 32, self.resolver)
            sub.depth = self.depth + 1
            sub.run()
        except (Unsupported, KeyError, IndexError, TypeError):
            return False
        if len(sub.rets) != 1:
            return False
        sst, svk = sub.rets[0]
        if svk in sst.agg or sst.none_steps:
            return False

        def to_caller(form):
            out = ({}, form[1])
            for r, coef in form[0].items():
                o = sst.origin.get(r)
                m = PARAM_RE.match(o or "")
                if not m or r in sst.cong or r in sst.quot:
                    return None
                i = int(m.group(1) or m.group(2)) - 1
                if i >= len(t[2]) or t[2][i][0] not in "cm":
                    return None
                place = list(t[2][i][1])
                if m.group(2):
                    if not self.f.locals[place[0]].startswith("&") or len(place) != 1:
                        return None
                    place = place + ["*"]
                for fld in (m.group(3) or "").split(".")[1:]:
                    place.append(["f", -1, fld, None])
                vk = self.vkey_named(st, place)
                if vk is None:
                    return None
                out = aff_add(out, aff_scale(st.aff.get(vk) or ({vk: 1}, 0), coef))
            return out
        dk = _pkey(t[3])
        q = sst.quot.get(svk)
        if q is not None:
            base = to_caller(q[0])
            if base is None:
                return False
            lo, hi = sst.iv[svk]
            nk = st.fresh(lo, hi)
            st.quot[nk] = (base, q[1])
            st.alias[dk] = nk
            return True
        form = to_caller(sst.aff.get(svk) or ({svk: 1}, 0))
        if form is None:
            return False
        lo, hi = self.eval_form(st, form)
        a, b = sst.iv[svk]
        lo, hi = max(lo, a), min(hi, b)
        if lo > hi:
            return False
        if len(form[0]) == 1 and form[1] == 0 and list(form[0].values()) == [1]:
            st.alias[dk] = list(form[0])[0]     # the callee returns one of its inputs unchanged
            return True
        nk = st.fresh(lo, hi)
        self.set_aff(st, nk, form)
        st.alias[dk] = nk
        return True

    def vkey_named(self, st, place):
        """vkey for a place whose field projections are given by *name* (index -1): resolved against the fields already read
        by name, else created under the name."""
        for _ in range(8):
            src = st.copyof.get(_pkey(place[:1]))
            if src is None or len(place) == 1:
                break
            place = list(src) + list(place[1:])
        if not any(isinstance(e, list) and e and e[0] == "f" and e[1] == -1 for e in place[1:]):
            return self.vkey(st, place)
        if place[0] in self.mutroots:
            return None
        shared_ref = self.f.locals[place[0]].startswith("&") and not self.f.locals[place[0]].startswith("&mut")
        if "*" in place[1:] and not shared_ref:
            return None
        want = place_desc(place)
        for r, o in st.origin.items():
            if o == want:
                return r
        vk = st.fresh(*RANGES["i64"])
        st.origin[vk] = want
        return vk

    def map_closure(self, st, w, clocal):
        """`wrapped.map(closure)`: analyse the capture-less closure once and re-express what it returns over the payload."""
        name = None
        for _b, s_ in self.f.stmts():
            if s_[0] == "a" and s_[1] == [clocal] and s_[2][0] == "agg" and s_[2][1][0] == "closure":
                if s_[2][2]:
                    return None     # captures: not followed
                name = s_[2][1][1]
        g = self.resolver(name) if name else None
        if g is None:
            return None
        try:
            sub = Analysis(g, self.max_paths, self.resolver).run()
        except Unsupported:
            return None
        if len(sub.rets) != 1 or sub.rets[0][0].none_steps:
            return None
        sst, svk = sub.rets[0]
        pvk = w[0]
        pform = st.aff.get(pvk) or ({pvk: 1}, 0)

        def imp(k):
            if k in sst.agg:
                ak = st.fresh(0, 0)
                st.agg[ak] = {n: imp(c) for n, c in sst.agg[k].items()}
                if k in sst.variant:
                    st.variant[ak] = sst.variant[k]
                return ak
            form = sst.aff.get(k) or ({k: 1}, 0)
            if all(sst.origin.get(r) == "_2" for r in form[0]) and not any(r in sst.cong for r in form[0]):
                coeff = sum(form[0].values())
                nf = aff_add(aff_scale(pform, coeff), aff_const(form[1]))
                lo, hi = self.eval_form(st, nf)
                a, b = st.iv[pvk] if coeff == 1 and form[1] == 0 else (lo, hi)
                nk = st.fresh(max(lo, a), min(hi, b)) if max(lo, a) <= min(hi, b) else st.fresh(lo, hi)
                self.set_aff(st, nk, nf)
                return nk
            return st.fresh(*sst.iv[k])
        return (imp(svk), w[1], w[2], w[3])

    def refine(self, st, pred, truth):
        """Refine under `pred == truth`; return False when infeasible."""
        v, op, c = pred
        if v == "const":
            return c == truth
        if v == "unknown":
            return True
        if not truth:
            op = {"Eq": "Ne", "Ne": "Eq", "Lt": "Ge", "Ge": "Lt", "Le": "Gt", "Gt": "Le"}[op]
        lo, hi = st.iv[v]
        if op == "Eq":
            lo, hi = max(lo, c), min(hi, c)
        elif op == "Ne":
            if lo == c: lo += 1
            if hi == c: hi -= 1
        elif op == "Lt":
            hi = min(hi, c - 1)
        elif op == "Le":
            hi = min(hi, c)
        elif op == "Gt":
            lo = max(lo, c + 1)
        elif op == "Ge":
            lo = max(lo, c)
        if lo > hi:
            return False
        st.iv[v] = (lo, hi)
        # r = x % c: a refined dividend refines the remainder (sign follows the dividend)
        for r, (x, c) in st.rem.items():
            if x == v:
                n = self.binop("Rem", (lo, hi), (c, c), None)
                rl, rh = st.iv[r]
                rl, rh = max(rl, n[0]), min(rh, n[1])
                if rl > rh:
                    return False
                st.iv[r] = (rl, rh)
        return True

    # -- driver ----------------------------------------------------------------------------------------------------
    def run(self):
        f = self.f
        stack = [(0, State(), frozenset())]
        while stack:
            b, st, seen = stack.pop()
            if b in seen:
                raise Unsupported("loop through bb%d" % b)
            seen = seen | {b}
            self.cur = b
            blk = f.blocks[b]
            for s in blk["st"]:
                if s[0] == "a":
                    self.assign(st, s[1], s[2])
            t = blk["t"]
            k = t[0]
            if k == "go":
                stack.append((t[1], st, seen))
            elif k == "drop":
                stack.append((t[2], st, seen))
            elif k == "call":
                self.call(st, t)
                if t[4] is not None:
                    stack.append((t[4], st, seen))
            elif k == "as":
                a = self.operand(st, t[2])
                proved = False
                if a[0] == "b":
                    p = st.pred[a[1]]
                    proved = p[0] == "const" and p[2] == bool(t[3])
                    if p[0] not in ("const", "unknown"):
                        # would-fire iff pred != expected: provable when refinement to the firing side is infeasible
                        proved = not self.refine(st.copy(), p, not bool(t[3]))
                elif a[0] == "k":
                    proved = bool(a[1]) == bool(t[3])
                key = (b, t[1])
                self.asserts[key] = self.asserts.get(key, True) and proved
                st2 = st
                if a[0] == "b" and st.pred[a[1]][0] not in ("const", "unknown"):
                    if not self.refine(st2, st.pred[a[1]], bool(t[3])):
                        continue
                if a[0] == "b" and a[1] in st2.ovf and not bool(t[3]) and str(t[1]).startswith("overflow"):
                    vk, form, rng = st2.ovf.pop(a[1])
                    if rng[0] > rng[1]:
                        continue   # the operation overflows for every value: nothing continues past the assert
                    lo, hi = st2.iv[vk]
                    st2.iv[vk] = (max(lo, rng[0]), min(hi, rng[1]))
                    self.set_aff(st2, vk, form)
                stack.append((t[4], st2, seen))
            elif k == "sw":
                a = self.operand(st, t[1])
                targets = list(t[2])
                if a[0] == "b":
                    p = st.pred[a[1]]
                    taken = set()
                    for v, tb in targets:
                        s2 = st.copy()
                        if self.refine(s2, p, bool(int(v))):
                            stack.append((tb, s2, seen))
                        taken.add(bool(int(v)))
                    for truth in (True, False):
                        if truth not in taken:
                            s2 = st.copy()
                            if self.refine(s2, p, truth):
                                stack.append((t[3], s2, seen))
                elif a[0] == "i":
                    w = st.discof.get(a[1])

                    def side(s2, value):
                        """Follow a discriminant of a wrapped checked result: drop the impossible side, log the failing one."""
                        if w is None or value is None:
                            return True
                        (_vk, can_fail, can_succeed, desc), okv = w
                        if value == okv:
                            return can_succeed
                        if not can_fail:
                            return False
                        s2.none_steps.append(desc)
                        return True
                    for v, tb in targets:
                        s2 = st.copy()
                        if self.refine(s2, (a[1], "Eq", int(v)), True) and side(s2, int(v)):
                            stack.append((tb, s2, seen))
                    s2 = st.copy()
                    ok = True
                    for v, tb in targets:
                        ok = ok and self.refine(s2, (a[1], "Ne", int(v)), True)
                    if ok:
                        lo, hi = s2.iv[a[1]]
                        if side(s2, lo if lo == hi else None):
                            stack.append((t[3], s2, seen))
                else:
                    for v, tb in targets:
                        stack.append((tb, st.copy(), seen))
                    stack.append((t[3], st.copy(), seen))
            elif k in ("ret", "return"):
                self.paths += 1
                if self.paths > self.max_paths:
                    raise Unsupported("more than %d paths" % self.max_paths)
                self.returns.append(self.value_of(st, [0]))
                wk = _pkey([0])
                if wk in st.wrap:
                    # a wrapped checked result returned as it is: Some(payload) where it can succeed, None where it can fail
                    pvk, can_fail, can_succeed, desc = st.wrap[wk]
                    if can_succeed:
                        s2 = st.copy(); ak = s2.fresh(0, 0)
                        s2.agg[ak] = {"0": pvk}; s2.variant[ak] = "Some"
                        self.rets.append((s2, ak))
                    if can_fail:
                        s3 = st.copy(); nk = s3.fresh(0, 0)
                        s3.agg[nk] = {}; s3.variant[nk] = "None"; s3.none_steps.append(desc)
                        self.rets.append((s3, nk))
                else:
                    self.rets.append((st, self.vkey(st, [0])))
            else:
                # unreachable / resume: no value leaves here
                pass
        return self

    def value_of(self, st, p):
        vk = self.vkey(st, p)
        if vk in st.agg:
            return {n: st.iv[k] for n, k in st.agg[vk].items()}
        return {"": st.iv[vk]}

    def joined(self):
        out = {}
        for r in self.returns:
            for n, (lo, hi) in r.items():
                if n in out:
                    out[n] = (min(out[n][0], lo), max(out[n][1], hi))
                else:
                    out[n] = (lo, hi)
        return out
