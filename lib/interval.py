"""Interval abstract interpretation of small loop-free integer functions on MIR facts.

A forward analysis over the interval domain with branch refinement, enumerating the (few) acyclic paths of a function:
every integer-valued place gets an interval [lo, hi]; booleans produced by comparisons with constants or by sign tests
(`i64::is_negative`, `is_positive`) remember the predicate they stand for, so that a `SwitchInt` on them refines the interval of
the compared value on each edge; a path whose refinement is empty is infeasible and dropped. Reads of the same immutable place
(`_1.epoch` copied into several temporaries) share one abstract value. No value is ever computed concretely: the result is the
join, over all feasible paths, of the interval(s) of the returned value (struct fields kept apart), plus for every arithmetic
`Assert` (overflow / division by zero) whether the interval of its operands proves it cannot fire.

Sound for the operations modelled (Add, Sub, Mul, Neg, Div and Rem by a non-zero constant, comparisons, rem_euclid with a positive
constant modulus, abs); everything else yields the full range of the type. Functions with loops are refused (Unsupported).
"""
from lib.facts import callee

RANGES = {
    "i8": (-2**7, 2**7 - 1), "i16": (-2**15, 2**15 - 1), "i32": (-2**31, 2**31 - 1), "i64": (-2**63, 2**63 - 1),
    "i128": (-2**127, 2**127 - 1), "isize": (-2**63, 2**63 - 1),
    "u8": (0, 2**8 - 1), "u16": (0, 2**16 - 1), "u32": (0, 2**32 - 1), "u64": (0, 2**64 - 1), "u128": (0, 2**128 - 1),
    "usize": (0, 2**64 - 1),
}


class Unsupported(Exception):
    pass


def _pkey(p):
    """Canonical key of a place: field projections are identified by index only."""
    return repr([p[0]] + [("f", e[1]) if isinstance(e, list) and e and e[0] == "f" else (tuple(e) if isinstance(e, list) else e) for e in p[1:]])


class State:
    def __init__(self):
        self.iv = {}      # value key -> (lo, hi)
        self.alias = {}   # place key -> value key
        self.pred = {}    # place key (bool) -> (value key, op, const)  meaning  bool <=> value op const
        self.agg = {}     # place key -> {field name: value key}
        self.rem = {}     # value key r -> (value key x, c): r = x % c  (the sign of r follows x: the one relational fact kept)
        self.n = 0

    def copy(self):
        s = State()
        s.iv = dict(self.iv); s.alias = dict(self.alias); s.pred = dict(self.pred)
        s.agg = {k: dict(v) for k, v in self.agg.items()}; s.n = self.n
        s.rem = dict(self.rem)
        return s

    def fresh(self, lo, hi):
        self.n += 1
        k = "v%d" % self.n
        self.iv[k] = (lo, hi)
        return k


class Analysis:
    def __init__(self, fn, max_paths=256):
        self.f = fn
        self.max_paths = max_paths
        self.returns = []       # list of {"": (lo,hi)} or {field: (lo,hi)}
        self.asserts = {}       # (block, kind) -> proved on every path reaching it?
        self.paths = 0
        # locals that are mutably borrowed, or written through a projection, anywhere in the body: reads of places rooted
        # in them are never shared (each read is a fresh unknown) - sharing is only sound for immutable places
        self.mutroots = set()
        for b, s_ in fn.stmts():
            if s_[0] == "a":
                if s_[2][0] == "ref" and s_[2][2]:
                    self.mutroots.add(s_[2][1][0])
                if len(s_[1]) > 1:
                    self.mutroots.add(s_[1][0])
        for b, t in fn.calls():
            if len(t[3]) > 1:
                self.mutroots.add(t[3][0])

    # -- helpers -------------------------------------------------------------------------------------------------
    def ty_range(self, local):
        return RANGES.get(self.f.locals[local])

    def place_ty(self, p):
        if len(p) == 1:
            return self.f.locals[p[0]]
        return None

    def vkey(self, st, p, default_range=None):
        """Abstract value key of a place read (immutable places share their key)."""
        k = _pkey(p)
        if k in st.alias:
            return st.alias[k]
        # field of a tracked aggregate
        if len(p) >= 2 and p[-1][0] == "f":
            base = _pkey(p[:-1])
            if base in st.alias and st.alias[base] in st.agg:
                fld = p[-1][2] if p[-1][2] else str(p[-1][1])
                vk = st.agg[st.alias[base]].get(fld)
                if vk:
                    return vk
        r = default_range or (self.ty_range(p[0]) if len(p) == 1 else None) or RANGES["i128"]
        vk = st.fresh(*r)
        shared_ref = self.f.locals[p[0]].startswith("&") and not self.f.locals[p[0]].startswith("&mut")
        if not (p[0] in self.mutroots and len(p) > 1) and ("*" not in p[1:] or shared_ref):
            st.alias[k] = vk
        return vk

    def operand(self, st, o, ty_hint=None):
        """-> ('i', value key) | ('b', place key) | ('k', const) | ('?', None)"""
        if o[0] in "cm":
            p = o[1]
            k = _pkey(p)
            if k in st.pred:
                return ("b", k)
            r = RANGES.get(ty_hint) if ty_hint else None
            return ("i", self.vkey(st, p, r))
        c = o[1]
        if "v" in c:
            v = c["v"]
            if isinstance(v, bool):
                return ("k", int(v))
            try:
                return ("k", int(v))
            except (TypeError, ValueError):
                return ("?", None)
        return ("?", None)

    def ival(self, st, a):
        if a[0] == "k":
            return (a[1], a[1])
        if a[0] == "i":
            return st.iv[a[1]]
        return None

    # -- transfer -------------------------------------------------------------------------------------------------
    def binop(self, op, x, y, ty):
        full = RANGES.get(ty, RANGES["i128"])
        if x is None or y is None:
            return full
        (a, b), (c, d) = x, y
        if op in ("Add", "AddWithOverflow", "AddUnchecked"):
            r = (a + c, b + d)
        elif op in ("Sub", "SubWithOverflow", "SubUnchecked"):
            r = (a - d, b - c)
        elif op in ("Mul", "MulWithOverflow", "MulUnchecked"):
            ps = [a * c, a * d, b * c, b * d]
            r = (min(ps), max(ps))
        elif op == "Rem" and c == d and c != 0:
            m = abs(c) - 1
            lo = 0 if a >= 0 else max(a, -m)
            hi = 0 if b <= 0 else min(b, m)
            r = (lo, hi)
        elif op == "Div" and c == d and c > 0:
            # truncating division by a positive constant is monotone
            def q(n):
                return abs(n) // c * (1 if n >= 0 else -1)
            r = (q(a), q(b))
        else:
            return full
        return r

    def fits(self, r, ty):
        full = RANGES.get(ty)
        return full is not None and full[0] <= r[0] and r[1] <= full[1]

    def assign(self, st, dest, rv):
        dk = _pkey(dest)
        st.alias.pop(dk, None); st.pred.pop(dk, None)
        k = rv[0]
        dty = self.place_ty(dest)
        if k == "use":
            a = self.operand(st, rv[1], dty)
            if a[0] == "i":
                st.alias[dk] = a[1]
            elif a[0] == "b":
                st.pred[dk] = st.pred[a[1]]
            elif a[0] == "k":
                st.alias[dk] = st.fresh(a[1], a[1])
            return
        if k == "bin":
            op = rv[1]
            x = self.operand(st, rv[2]); y = self.operand(st, rv[3])
            if op in ("Eq", "Ne", "Lt", "Le", "Gt", "Ge"):
                if x[0] == "i" and y[0] == "k":
                    st.pred[dk] = (x[1], op, y[1])
                elif x[0] == "k" and y[0] == "i":
                    flip = {"Eq": "Eq", "Ne": "Ne", "Lt": "Gt", "Le": "Ge", "Gt": "Lt", "Ge": "Le"}[op]
                    st.pred[dk] = (y[1], flip, x[1])
                elif x[0] == "k" and y[0] == "k":
                    v = {"Eq": x[1] == y[1], "Ne": x[1] != y[1], "Lt": x[1] < y[1], "Le": x[1] <= y[1], "Gt": x[1] > y[1], "Ge": x[1] >= y[1]}[op]
                    st.pred[dk] = ("const", "Is", bool(v))
                return
            if op in ("BitAnd", "BitOr") and x[0] == "b" and y[0] == "b":
                px, py = st.pred[x[1]], st.pred[y[1]]
                for pa, pb in ((px, py), (py, px)):
                    if pa[0] == "const":
                        if op == "BitAnd":
                            st.pred[dk] = pb if pa[2] else ("const", "Is", False)
                        else:
                            st.pred[dk] = ("const", "Is", True) if pa[2] else pb
                        return
                return
            ity = None
            if rv[2][0] in "cm" and len(rv[2][1]) == 1:
                ity = self.f.locals[rv[2][1][0]]
            elif rv[3][0] in "cm" and len(rv[3][1]) == 1:
                ity = self.f.locals[rv[3][1][0]]
            r = self.binop(op, self.ival(st, x), self.ival(st, y), ity or dty)
            if op.endswith("WithOverflow"):
                ok = ity is not None and self.fits(r, ity)
                full = RANGES.get(ity, RANGES["i128"])
                vk = st.fresh(*(r if ok else full))
                ak = st.fresh(0, 0)
                st.agg[ak] = {"0": vk}
                st.alias[dk] = ak
                st.pred[_pkey(dest + [["f", 1, None]])] = ("const", "Is", False) if ok else ("unknown", "Is", None)
                st.alias[_pkey(dest + [["f", 0, None]])] = vk
                return
            full = RANGES.get(dty or ity, RANGES["i128"])
            if not (full[0] <= r[0] and r[1] <= full[1]):
                r = full
            st.alias[dk] = st.fresh(*r)
            if op == "Rem" and x[0] == "i" and y[0] == "k" and y[1] != 0:
                st.rem[st.alias[dk]] = (x[1], y[1])
            return
        if k == "un" and rv[1] == "Not":
            a = self.operand(st, rv[2])
            if a[0] == "b":
                v, op, c = st.pred[a[1]]
                if v == "const":
                    st.pred[dk] = ("const", "Is", not c)
                elif v != "unknown":
                    st.pred[dk] = (v, {"Eq": "Ne", "Ne": "Eq", "Lt": "Ge", "Ge": "Lt", "Le": "Gt", "Gt": "Le"}[op], c)
            return
        if k == "un" and rv[1] == "Neg":
            a = self.operand(st, rv[2])
            x = self.ival(st, a)
            if x is not None:
                st.alias[dk] = st.fresh(-x[1], -x[0])
            return
        if k == "agg" and rv[1][0] == "adt":
            names = rv[1][3]
            ak = st.fresh(0, 0)
            flds = {}
            for n, o in zip(names, rv[2]):
                a = self.operand(st, o)
                if a[0] == "i":
                    flds[n] = a[1]
                elif a[0] == "k":
                    flds[n] = st.fresh(a[1], a[1])
            st.agg[ak] = flds
            st.alias[dk] = ak
            return
        if k == "cast":
            a = self.operand(st, rv[2])
            x = self.ival(st, a)
            tgt = RANGES.get(dty)
            if x is not None and tgt and tgt[0] <= x[0] and x[1] <= tgt[1]:
                st.alias[dk] = st.fresh(*x)
            return
        # anything else: unknown (fresh on demand)

    def call(self, st, t):
        c = callee(t)
        dest = t[3]
        dk = _pkey(dest)
        st.alias.pop(dk, None); st.pred.pop(dk, None)
        last = c.split("::")[-1]
        args = [self.operand(st, o) for o in t[2]]
        if c.startswith("core::num::") or c.startswith("std::num::"):
            if last in ("is_negative", "is_positive") and args and args[0][0] == "i":
                st.pred[dk] = (args[0][1], "Lt" if last == "is_negative" else "Gt", 0)
                return
            if last == "rem_euclid" and len(args) == 2 and args[1][0] == "k" and args[1][1] > 0:
                st.alias[dk] = st.fresh(0, args[1][1] - 1)
                return
            if last in ("abs", "unsigned_abs") and args and args[0][0] in "ik":
                a, b = self.ival(st, args[0])
                lo = 0 if a <= 0 <= b else min(abs(a), abs(b))
                st.alias[dk] = st.fresh(lo, max(abs(a), abs(b)))
                return

    def refine(self, st, pred, truth):
        """Refine under `pred == truth`; return False when infeasible."""
        v, op, c = pred
        if v == "const":
            return c == truth
        if v == "unknown":
            return True
        if not truth:
            op = {"Eq": "Ne", "Ne": "Eq", "Lt": "Ge", "Ge": "Lt", "Le": "Gt", "Gt": "Le"}[op]
        lo, hi = st.iv[v]
        if op == "Eq":
            lo, hi = max(lo, c), min(hi, c)
        elif op == "Ne":
            if lo == c: lo += 1
            if hi == c: hi -= 1
        elif op == "Lt":
            hi = min(hi, c - 1)
        elif op == "Le":
            hi = min(hi, c)
        elif op == "Gt":
            lo = max(lo, c + 1)
        elif op == "Ge":
            lo = max(lo, c)
        if lo > hi:
            return False
        st.iv[v] = (lo, hi)
        # r = x % c: a refined dividend refines the remainder (sign follows the dividend)
        for r, (x, c) in st.rem.items():
            if x == v:
                n = self.binop("Rem", (lo, hi), (c, c), None)
                rl, rh = st.iv[r]
                rl, rh = max(rl, n[0]), min(rh, n[1])
                if rl > rh:
                    return False
                st.iv[r] = (rl, rh)
        return True

    # -- driver ----------------------------------------------------------------------------------------------------
    def run(self):
        f = self.f
        stack = [(0, State(), frozenset())]
        while stack:
            b, st, seen = stack.pop()
            if b in seen:
                raise Unsupported("loop through bb%d" % b)
            seen = seen | {b}
            blk = f.blocks[b]
            for s in blk["st"]:
                if s[0] == "a":
                    self.assign(st, s[1], s[2])
            t = blk["t"]
            k = t[0]
            if k == "go":
                stack.append((t[1], st, seen))
            elif k == "drop":
                stack.append((t[2], st, seen))
            elif k == "call":
                self.call(st, t)
                if t[4] is not None:
                    stack.append((t[4], st, seen))
            elif k == "as":
                a = self.operand(st, t[2])
                proved = False
                if a[0] == "b":
                    p = st.pred[a[1]]
                    proved = p[0] == "const" and p[2] == bool(t[3])
                    if p[0] not in ("const", "unknown"):
                        # would-fire iff pred != expected: provable when refinement to the firing side is infeasible
                        proved = not self.refine(st.copy(), p, not bool(t[3]))
                elif a[0] == "k":
                    proved = bool(a[1]) == bool(t[3])
                key = (b, t[1])
                self.asserts[key] = self.asserts.get(key, True) and proved
                st2 = st
                if a[0] == "b" and st.pred[a[1]][0] not in ("const", "unknown"):
                    if not self.refine(st2, st.pred[a[1]], bool(t[3])):
                        continue
                stack.append((t[4], st2, seen))
            elif k == "sw":
                a = self.operand(st, t[1])
                targets = list(t[2])
                if a[0] == "b":
                    p = st.pred[a[1]]
                    taken = set()
                    for v, tb in targets:
                        s2 = st.copy()
                        if self.refine(s2, p, bool(int(v))):
                            stack.append((tb, s2, seen))
                        taken.add(bool(int(v)))
                    for truth in (True, False):
                        if truth not in taken:
                            s2 = st.copy()
                            if self.refine(s2, p, truth):
                                stack.append((t[3], s2, seen))
                elif a[0] == "i":
                    for v, tb in targets:
                        s2 = st.copy()
                        if self.refine(s2, (a[1], "Eq", int(v)), True):
                            stack.append((tb, s2, seen))
                    s2 = st.copy()
                    ok = True
                    for v, tb in targets:
                        ok = ok and self.refine(s2, (a[1], "Ne", int(v)), True)
                    if ok:
                        stack.append((t[3], s2, seen))
                else:
                    for v, tb in targets:
                        stack.append((tb, st.copy(), seen))
                    stack.append((t[3], st.copy(), seen))
            elif k in ("ret", "return"):
                self.paths += 1
                if self.paths > self.max_paths:
                    raise Unsupported("more than %d paths" % self.max_paths)
                self.returns.append(self.value_of(st, [0]))
            else:
                # unreachable / resume: no value leaves here
                pass
        return self

    def value_of(self, st, p):
        vk = self.vkey(st, p)
        if vk in st.agg:
            return {n: st.iv[k] for n, k in st.agg[vk].items()}
        return {"": st.iv[vk]}

    def joined(self):
        out = {}
        for r in self.returns:
            for n, (lo, hi) in r.items():
                if n in out:
                    out[n] = (min(out[n][0], lo), max(out[n][1], hi))
                else:
                    out[n] = (lo, hi)
        return out
