"""Match-arm regions and label provenance (rule families HOM / TRAVERSE / GUARD).

variant_switches(fn, adt): SwitchInt terminators on the discriminant of a place
of ADT `adt`; arm_region(): blocks dominated by an arm's entry block.

Labels: flow-insensitive forward provenance inside a region. Seeds are places
that project a variant's fields ("And.left"); a local's label set is the union
of the labels of everything its value was computed from (copies, refs, casts,
aggregates, and *all* calls: a call result depends on all its arguments).
With mir-opt-level=0 temporaries are single-assignment, so this is exact for
temporaries and an over-approximation for user variables.
"""
from . import cfg
from .facts import callee


MUT_WRITERS = ("::push", "::insert", "::extend", "::append", "::push_back", "::push_front", "::push_str", "::extend_from_slice",
               "::entry", "::or_insert", "::or_default", "::or_insert_with", "::insert_full", "::replace", "::get_or_insert_with", "::union_with")


def variant_switches(fn, adt_suffix):
    """Yield (block, scrutinee place, {variant idx: target}, otherwise) for each
    `switch discr(place)` on an ADT whose path ends with adt_suffix."""
    for b, blk in enumerate(fn.blocks):
        if blk["cl"]:
            continue
        t = blk["t"]
        if t[0] != "sw" or t[1][0] not in ("c", "m"):
            continue
        l = t[1][1]
        if len(l) != 1:
            continue
        # discriminant assigned in this block (or a dominating one)
        d = None
        for s in blk["st"]:
            if s[0] == "a" and s[1] == l and s[2][0] == "disc":
                d = s[2]
        if d is None:
            for bb, s in fn.stmts():
                if s[0] == "a" and s[1] == l and s[2][0] == "disc":
                    d = s[2]
                    break
        if d is None or not d[2].endswith(adt_suffix):
            continue
        yield b, d[1], {v: tgt for v, tgt in t[2]}, t[3]


def arm_region(fn, target):
    return cfg.dominated_region(fn, target)


def place_fields(p):
    """(variant, field) pairs projected by a place, innermost last."""
    out = []
    var = None
    for e in p[1:]:
        if isinstance(e, list):
            if e[0] == "d":
                var = e[1]
            elif e[0] == "f":
                out.append((var, e[2] if e[2] else str(e[1]), e[3]))
                var = None
    return out


def _rv_places(rv):
    k = rv[0]
    if k in ("use", "repeat"):
        return [rv[1][1]] if rv[1][0] in ("c", "m") else []
    if k in ("ref", "addr", "disc", "len"):
        return [rv[1]]
    if k == "agg":
        return [o[1] for o in rv[2] if o[0] in ("c", "m")]
    if k == "bin":
        return [o[1] for o in (rv[2], rv[3]) if o[0] in ("c", "m")]
    if k in ("un", "cast"):
        return [rv[2][1]] if rv[2][0] in ("c", "m") else []
    return []


class Labels:
    """labels = Labels(fn, region_blocks, seed) ; seed(place) -> iterable of labels for
    a place that is read (called for every place mentioned on a right-hand side)."""

    def __init__(self, fn, region, seed, param_labels=None, opaque=(), facts=None, call_labels=None):
        self.fn = fn
        self.region = set(region) if region is not None else None
        self.seed = seed
        self.lab = {}
        self.lab_f = {}      # (local, field index) -> labels, for tuple / struct aggregates (field-sensitive)
        self.opaque = tuple(opaque)
        self.call_labels = call_labels
        if param_labels:
            for l, ls in param_labels.items():
                self.lab[l] = set(ls)
        self._mutref = {}
        self._run()

    def place_labels(self, p):
        out = None
        # field-sensitive read of a locally built tuple / struct: `(_t.1 as Ok).0` only sees what went into field 1
        for e in p[1:]:
            if e == "*":
                continue
            if isinstance(e, list) and e[0] == "d":
                continue
            if isinstance(e, list) and e[0] == "f" and (p[0], e[1]) in self.lab_f:
                out = set(self.lab_f[(p[0], e[1])])
            break
        if out is None:
            out = set(self.lab.get(p[0], ()))
        s = self.seed(p) if self.seed else None
        if s:
            out |= set(s)
        return out

    def operand_labels(self, o):
        if o[0] in ("c", "m"):
            return self.place_labels(o[1])
        return set()

    def _blocks(self):
        for b, blk in enumerate(self.fn.blocks):
            if blk["cl"]:
                continue
            if self.region is not None and b not in self.region:
                continue
            yield b, blk

    def _run(self):
        fn = self.fn
        # mutable-reference aliases: _a = &mut _b
        for b, blk in self._blocks():
            for s in blk["st"]:
                if s[0] == "a" and s[2][0] == "ref" and s[2][2] and len(s[1]) == 1:
                    self._mutref[s[1][0]] = s[2][1][0]
        changed = True
        it = 0
        while changed and it < 50:
            changed = False
            it += 1
            for b, blk in self._blocks():
                for s in blk["st"]:
                    if s[0] != "a":
                        continue
                    new = set()
                    for p in _rv_places(s[2]):
                        new |= self.place_labels(p)
                    if s[2][0] == "agg" and len(s[1]) == 1 and s[2][1][0] in ("tuple", "adt"):
                        for i, o in enumerate(s[2][2]):
                            ls = self.operand_labels(o)
                            cur = self.lab_f.setdefault((s[1][0], i), set())
                            if not ls <= cur:
                                cur |= ls
                                changed = True
                    if new:
                        changed |= self._add(s[1][0], new)
                t = blk["t"]
                if t[0] == "call":
                    c = callee(t)
                    new = set()
                    for o in t[2]:
                        new |= self.operand_labels(o)
                    if c.endswith(self.opaque):
                        new = set()
                    if self.call_labels is not None:
                        extra = self.call_labels(c, t)
                        if extra:
                            new |= set(extra)
                    if new:
                        changed |= self._add(t[3][0], new)
                        # side effect through &mut arguments: only for collection writers (push / insert / extend ...)
                        for o in (t[2] if c.endswith(MUT_WRITERS) else ()):
                            if o[0] in ("c", "m") and len(o[1]) == 1 and o[1][0] in self._mutref:
                                changed |= self._add(self._mutref[o[1][0]], new)
                                changed |= self._add(o[1][0], new)

    def _add(self, l, new):
        cur = self.lab.setdefault(l, set())
        if new <= cur:
            return False
        cur |= new
        return True


def variant_field_seed(adt_suffix, scrutinee_local=None):
    """Seed: a place projecting `(.. as V).f` of the ADT yields label 'V.f'."""
    def seed(p):
        out = []
        var = None
        for e in p[1:]:
            if isinstance(e, list):
                if e[0] == "d":
                    var = e[1]
                elif e[0] == "f":
                    if var is not None and e[3].endswith(adt_suffix) and (scrutinee_local is None or p[0] == scrutinee_local):
                        out.append("%s.%s" % (var, e[2] if e[2] else e[1]))
                    var = None
        return out
    return seed


def adt_variants(facts, adt_path):
    r = facts.adts.get(adt_path)
    if r is None:
        return None
    return [(v["name"], [(f[0], f[1]) for f in v["fields"]]) for v in r["variants"]]
