"""Load and index the MIR fact base written by driver/.

Record kinds (one JSON object per line):
  {"fn": path, "crate":..., "kind": Fn|AssocFn|Closure, "blocks":[{"cl","st","t"}], ...}
  {"adt": path, "variants":[{"name","fields":[[name,ty,pub]]}]}
  {"static": path, "ty", "mut", "tl", "freeze"}
  {"meta": crate, "bodies": n}

Places are [local, proj...]; proj is "*" | ["f",idx,name,adt] | ["d",variant,idx] |
["i",local] | ["ci",off,from_end] | ["sub",..] | ["o"].
Operands are ["c",place] | ["m",place] | ["k",const].
"""
import json
import os

from . import factsbuild


class Fn:
    __slots__ = ("r", "name", "crate", "kind", "file", "line", "gen", "blocks", "nargs",
                 "locals", "_succ", "_pred", "_dom", "_pdom", "root", "parent", "_defs")

    def __init__(self, r):
        self.r = r
        self.name = r["fn"]
        self.crate = r["crate"]
        self.kind = r["kind"]
        self.file = r["file"]
        self.line = r["line"]
        self.gen = r["gen"]
        self.blocks = r["blocks"]
        self.nargs = r["nargs"]
        self.locals = r["locals"]
        self.root = r.get("root")
        self.parent = r.get("parent")
        self._succ = None
        self._pred = None
        self._dom = None
        self._pdom = None
        self._defs = None

    # ---- CFG over non-cleanup edges -------------------------------------
    def term(self, b):
        return self.blocks[b]["t"]

    def succs(self, b):
        if self._succ is None:
            self._build()
        return self._succ[b]

    def preds(self, b):
        if self._pred is None:
            self._build()
        return self._pred[b]

    def _build(self):
        n = len(self.blocks)
        succ = [[] for _ in range(n)]
        for i, blk in enumerate(self.blocks):
            if blk["cl"]:
                continue
            t = blk["t"]
            k = t[0]
            if k == "go":
                succ[i] = [t[1]]
            elif k == "sw":
                s = [b for _, b in t[2]] + [t[3]]
                seen = []
                for b in s:
                    if b not in seen:
                        seen.append(b)
                succ[i] = seen
            elif k == "call":
                if t[4] is not None:
                    succ[i] = [t[4]]
            elif k == "as":
                succ[i] = [t[4]]
            elif k == "drop":
                succ[i] = [t[2]]
            else:
                succ[i] = []
        pred = [[] for _ in range(n)]
        for i, ss in enumerate(succ):
            for s in ss:
                pred[s].append(i)
        self._succ = succ
        self._pred = pred

    def live_blocks(self):
        """Blocks reachable from entry over non-cleanup edges."""
        seen = {0}
        st = [0]
        while st:
            b = st.pop()
            for s in self.succs(b):
                if s not in seen:
                    seen.add(s)
                    st.append(s)
        return seen

    def calls(self):
        """Yield (block, terminator) for every call terminator in non-cleanup blocks."""
        for i, blk in enumerate(self.blocks):
            if blk["cl"]:
                continue
            t = blk["t"]
            if t[0] == "call":
                yield i, t

    def stmts(self):
        for i, blk in enumerate(self.blocks):
            if blk["cl"]:
                continue
            for s in blk["st"]:
                yield i, s

    def where(self, line=None):
        return "%s:%s" % (self.file, line if line is not None else self.line)


def callee(t):
    """Resolved callee path of a call terminator (falls back to the unresolved one)."""
    info = t[1]
    c = info.get("f") or info.get("o") or ""
    # "#virtual" / "#fnptrshim" ... mark the instance kind; rules match on the path
    for suf in ("#virtual", "#fnptrshim", "#dropglue", "#cloneshim"):
        if c.endswith(suf):
            return c[:-len(suf)]
    return c


def callee_orig(t):
    return t[1].get("o") or ""


def build_index(path):
    """One pass over a fact file: byte offsets of every body record plus the small
    non-body records, so rules can parse only the functions they look at."""
    idx = {"fns": {}, "adts": [], "statics": [], "meta": None}
    off = 0
    with open(path, "rb") as fh:
        for line in fh:
            n = len(line)
            if line.startswith(b'{"fn"'):
                r = json.loads(line)
                idx["fns"][r["fn"]] = [off, n, r["gen"], r["kind"], r.get("root"), r.get("trait_item"), r["file"], r["line"], r.get("fnmac")]
            else:
                r = json.loads(line)
                if "adt" in r:
                    idx["adts"].append(r)
                elif "static" in r:
                    idx["statics"].append(r)
                elif "meta" in r:
                    idx["meta"] = r
            off += n
    tmp = "%s.idx.%d.tmp" % (path, os.getpid())
    with open(tmp, "w") as fh:
        json.dump(idx, fh)
    os.replace(tmp, path + ".idx")
    return idx


def load_index(path):
    try:
        if os.path.getmtime(path + ".idx") >= os.path.getmtime(path):
            with open(path + ".idx") as fh:
                return json.load(fh)
    except (OSError, ValueError):
        pass
    return build_index(path)


class LazyFns:
    """Mapping fn name -> Fn, parsed on first access from the indexed fact files."""

    def __init__(self):
        self.index = {}     # name -> (path, off, len, gen, kind, root, trait_item, file, line, is_bin)
        self.cache = {}
        self._fh = {}

    def add_unit(self, path, idx, is_bin):
        for n, e in idx["fns"].items():
            name = ("bin:" + n) if is_bin else n
            self.index[name] = (path, e[0], e[1], e[2], e[3], e[4], e[5], e[6], e[7], is_bin, e[8] if len(e) > 8 else None)

    def _load(self, name):
        e = self.index[name]
        fh = self._fh.get(e[0])
        if fh is None:
            fh = self._fh[e[0]] = open(e[0], "rb")
        fh.seek(e[1])
        f = Fn(json.loads(fh.read(e[2])))
        if e[9]:
            f.name = name
        self.cache[name] = f
        return f

    def __contains__(self, name):
        return name in self.index

    def __getitem__(self, name):
        f = self.cache.get(name)
        if f is None:
            f = self._load(name)
        return f

    def get(self, name, default=None):
        if name in self.index:
            return self[name]
        return default

    def __iter__(self):
        return iter(self.index)

    def keys(self):
        return self.index.keys()

    def __len__(self):
        return len(self.index)

    def items(self):
        for n in list(self.index):
            yield n, self[n]

    def values(self):
        for n in list(self.index):
            yield self[n]

    def fnmac(self, name):
        return self.index[name][10]

    def meta(self, name):
        """(gen, kind, root, trait_item, file, line) without parsing the body."""
        e = self.index[name]
        return e[3], e[4], e[5], e[6], e[7], e[8]


class Facts:
    def __init__(self, config="E", crates=None):
        self.dir, self.tree, self.extract_s = factsbuild.facts_dir(config)
        self.config = config
        self.fns = LazyFns()
        self.adts = {}
        self.statics = {}
        self.meta = {}
        self._loaded = set()
        self._files = {}
        for n in sorted(os.listdir(self.dir)):
            if n.endswith(".jsonl"):
                self._files[".".join(n.split(".")[:2])] = os.path.join(self.dir, n)
        if crates:
            for c in crates:
                self.load_crate(c)

    def load_crate(self, unit):
        """unit e.g. 'cedar_policy_core.lib'"""
        if unit in self._loaded:
            return
        self._loaded.add(unit)
        path = self._files.get(unit)
        if path is None:
            raise RuntimeError("fact file for %s missing in %s" % (unit, self.dir))
        idx = load_index(path)
        self.fns.add_unit(path, idx, unit.endswith(".bin"))
        for r in idx["adts"]:
            self.adts[r["adt"]] = r
        for r in idx["statics"]:
            self.statics[r["static"]] = r
        self.meta[unit] = idx["meta"]

    def unit_fns(self, unit):
        path = self._files.get(unit)
        return [n for n, e in self.fns.index.items() if e[0] == path]

    def load_all(self):
        for u in self._files:
            self.load_crate(u)

    def fn(self, name):
        return self.fns.get(name)

    def find(self, suffix):
        """All functions whose path ends with `suffix` (on a :: boundary)."""
        out = []
        for n in self.fns:
            if n == suffix or n.endswith("::" + suffix) or n.endswith(suffix) and suffix.startswith("<"):
                out.append(self.fns[n])
        return out

    def closures_of(self, root):
        """Closure bodies whose typeck root is `root` (transitively nested)."""
        return [self.fns[n] for n, e in self.fns.index.items() if e[4] == "Closure" and e[5] == root]
