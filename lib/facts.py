"""Load and index the MIR fact base written by driver/.

Record kinds (one JSON object per line):
  {"fn": path, "crate":..., "kind": Fn|AssocFn|Closure, "blocks":[{"cl","st","t"}], ...}
  {"adt": path, "variants":[{"name","fields":[[name,ty,pub]]}]}
  {"static": path, "ty", "mut", "tl", "freeze"}
  {"meta": crate, "bodies": n}

Places are [local, proj...]; proj is "*" | ["f",idx,name,adt] | ["d",variant,idx] |
["i",local] | ["ci",off,from_end] | ["sub",..] | ["o"].
Operands are ["c",place] | ["m",place] | ["k",const].
"""
import json
import os

from . import factsbuild


class Fn:
    __slots__ = ("r", "name", "crate", "kind", "file", "line", "gen", "blocks", "nargs",
                 "locals", "_succ", "_pred", "_dom", "_pdom", "root", "parent", "_defs")

    def __init__(self, r):
        self.r = r
        self.name = r["fn"]
        self.crate = r["crate"]
        self.kind = r["kind"]
        self.file = r["file"]
        self.line = r["line"]
        self.gen = r["gen"]
        self.blocks = r["blocks"]
        self.nargs = r["nargs"]
        self.locals = r["locals"]
        self.root = r.get("root")
        self.parent = r.get("parent")
        self._succ = None
        self._pred = None
        self._dom = None
        self._pdom = None
        self._defs = None

    # ---- CFG over non-cleanup edges -------------------------------------
    def term(self, b):
        return self.blocks[b]["t"]

    def succs(self, b):
        if self._succ is None:
            self._build()
        return self._succ[b]

    def preds(self, b):
        if self._pred is None:
            self._build()
        return self._pred[b]

    def _build(self):
        n = len(self.blocks)
        succ = [[] for _ in range(n)]
        for i, blk in enumerate(self.blocks):
            if blk["cl"]:
                continue
            t = blk["t"]
            k = t[0]
            if k == "go":
                succ[i] = [t[1]]
            elif k == "sw":
                s = [b for _, b in t[2]] + [t[3]]
                seen = []
                for b in s:
                    if b not in seen:
                        seen.append(b)
                succ[i] = seen
            elif k == "call":
                if t[4] is not None:
                    succ[i] = [t[4]]
            elif k == "as":
                succ[i] = [t[4]]
            elif k == "drop":
                succ[i] = [t[2]]
            else:
                succ[i] = []
        pred = [[] for _ in range(n)]
        for i, ss in enumerate(succ):
            for s in ss:
                pred[s].append(i)
        self._succ = succ
        self._pred = pred

    def live_blocks(self):
        """Blocks reachable from entry over non-cleanup edges."""
        seen = {0}
        st = [0]
        while st:
            b = st.pop()
            for s in self.succs(b):
                if s not in seen:
                    seen.add(s)
                    st.append(s)
        return seen

    def calls(self):
        """Yield (block, terminator) for every call terminator in non-cleanup blocks."""
        for i, blk in enumerate(self.blocks):
            if blk["cl"]:
                continue
            t = blk["t"]
            if t[0] == "call":
                yield i, t

    def stmts(self):
        for i, blk in enumerate(self.blocks):
            if blk["cl"]:
                continue
            for s in blk["st"]:
                yield i, s

    def where(self, line=None):
        return "%s:%s" % (self.file, line if line is not None else self.line)


def callee(t):
    """Resolved callee path of a call terminator (falls back to the unresolved one)."""
    info = t[1]
    return info.get("f") or info.get("o") or ""


def callee_orig(t):
    return t[1].get("o") or ""


class Facts:
    def __init__(self, config="E", crates=None):
        self.dir, self.tree, self.extract_s = factsbuild.facts_dir(config)
        self.config = config
        self.fns = {}
        self.adts = {}
        self.statics = {}
        self.meta = {}
        self.by_crate = {}
        self._loaded = set()
        self._files = {}
        for n in sorted(os.listdir(self.dir)):
            if n.endswith(".jsonl"):
                self._files[".".join(n.split(".")[:2])] = os.path.join(self.dir, n)
        if crates:
            for c in crates:
                self.load_crate(c)

    def load_crate(self, unit):
        """unit e.g. 'cedar_policy_core.lib'"""
        if unit in self._loaded:
            return
        self._loaded.add(unit)
        path = self._files.get(unit)
        if path is None:
            raise RuntimeError("fact file for %s missing in %s" % (unit, self.dir))
        with open(path, "rb") as fh:
            for line in fh:
                r = json.loads(line)
                if "fn" in r:
                    f = Fn(r)
                    if unit.endswith(".bin"):
                        f.name = "bin:" + f.name
                    self.fns[f.name] = f
                    self.by_crate.setdefault(unit, []).append(f)
                elif "adt" in r:
                    self.adts[r["adt"]] = r
                elif "static" in r:
                    self.statics[r["static"]] = r
                elif "meta" in r:
                    self.meta[unit] = r

    def load_all(self):
        for u in self._files:
            self.load_crate(u)

    def fn(self, name):
        return self.fns.get(name)

    def find(self, suffix):
        """All functions whose path ends with `suffix` (on a :: boundary)."""
        out = []
        for n, f in self.fns.items():
            if n == suffix or n.endswith("::" + suffix) or n.endswith(suffix) and suffix.startswith("<"):
                out.append(f)
        return out

    def closures_of(self, root):
        """Closure bodies whose typeck root is `root` (transitively nested)."""
        return [f for f in self.fns.values() if f.kind == "Closure" and f.root == root]
