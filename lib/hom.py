"""HOM — structure-preserving conversions (rule family 3.3).

builder_map(): for an implementation X of the `ExprBuilder` trait, what each
method builds: the variant of X's expression enum and which parameter lands in
which field (derived by constant-propagating the method body, inlining
workspace helpers; no frozen table).

arm_events(): for a conversion function that matches on a source enum S, per
variant V the constructor calls / aggregates made in V's arm, with the set of
source fields ("V.f") each argument derives from (label provenance).
"""
from . import tt, shape, cfg
from .facts import callee
from .rulelib import AtomOracle, std_model, syms, walk

TRAIT = "cedar_policy_core::expr_builder::ExprBuilder::"


class InlineOracle(AtomOracle):
    """Constant propagation that follows calls into workspace functions (bounded depth).
    Trait-method calls made from default methods are re-resolved to `self_impl`."""

    def __init__(self, facts, depth=4, self_impl=None, discs=None, allow=("cedar_policy_core::", "<cedar_policy_core::", "cedar_policy::", "<cedar_policy::"),
                 default_disc=None, deny=()):
        AtomOracle.__init__(self, discs=discs)
        self.facts = facts
        self.depth = depth
        self.self_impl = self_impl
        self.allow = allow
        self.deny = tuple(deny)
        self.default_disc = default_disc
        self.inlined = []

    def discriminant(self, path, adt):
        d = AtomOracle.discriminant(self, path, adt)
        if d is None and self.default_disc is not None:
            return self.default_disc(path, adt)
        return d

    def resolve(self, cal):
        if cal.startswith(TRAIT) and self.self_impl:
            m = cal[len(TRAIT):]
            cand = "<%s as cedar_policy_core::expr_builder::ExprBuilder>::%s" % (self.self_impl, m)
            if cand in self.facts.fns:
                return cand
        return cal

    def call(self, cal, args, term, interp):
        m = std_model(cal, args, self)
        if m is not None:
            return m
        if cal.endswith(("Into<U>>::into", "From<T>>::from", "Clone>::clone", "convert::Into::into", "convert::From::from", "clone::Clone::clone")) and len(args) == 1 and args[0][0] == "adt" and not args[0][4]:
            return args[0]
        cal2 = self.resolve(cal)
        if self.depth > 0 and cal2.startswith(self.allow) and cal2 in self.facts.fns and not cal2.endswith(self.deny):
            f = self.facts.fns[cal2]
            if len(f.blocks) <= 400:
                sub = InlineOracle(self.facts, self.depth - 1, self.self_impl, self.discs, self.allow, self.default_disc, self.deny)
                init = {i + 1: a for i, a in enumerate(args)}
                try:
                    ret, tr = tt.Interp(f, sub, max_steps=3000).run(init)
                    self.inlined.append(cal2)
                    if ret[0] not in ("diverge", "unreachable"):
                        return ret
                except tt.Undecided:
                    return None
        # transparent wrappers keep the value visible
        if cal.endswith(("Arc::<T>::new", "Box::<T>::new", "Into<U>>::into", "From<T>>::from", "Arc::<T, A>::unwrap_or_clone",
                         "Clone>::clone", "::to_owned", "::cloned", "::as_ref", "Deref>::deref")) and len(args) == 1:
            return ("res", cal, args, 0)
        return None


def find_adt(v, enum_suffixes):
    """First aggregate of one of the enums in a value tree (outermost first)."""
    st = [v]
    while st:
        x = st.pop(0)
        if not isinstance(x, tuple) or not x:
            continue
        if x[0] == "adt" and x[1].endswith(tuple(enum_suffixes)):
            return x
        k = x[0]
        if k == "tup":
            st.extend(x[1])
        elif k == "adt":
            st.extend(x[4])
        elif k in ("res", "closure"):
            st.extend(x[2])
    return None


def sig_of(v, enum_suffixes, facts, depth=0):
    """Canonical description of a built node: Variant(field=..., ...) with $k for parameter k."""
    a = find_adt(v, enum_suffixes) if not (v[0] == "adt" and v[1].endswith(tuple(enum_suffixes))) else v
    if a is None:
        ss = sorted(s for s in syms(v) if len(s) == 1 and s[0].startswith("arg"))
        if ss:
            return "+".join("$" + s[0][3:] for s in ss)
        for x in walk(v):
            if x[0] == "adt":
                return x[1].split("::")[-1] + "::" + x[2]
            if x[0] == "int":
                return "k%s" % x[1]
        return "?"
    adt = facts.adts.get(a[1])
    names = []
    if adt:
        for vv in adt["variants"]:
            if vv["name"] == a[2]:
                names = [f[0] for f in vv["fields"]]
    parts = []
    for i, fv in enumerate(a[4]):
        nm = names[i] if i < len(names) else str(i)
        if nm in ("source_loc", "data", "loc"):
            continue
        parts.append("%s=%s" % (nm, sig_of(fv, enum_suffixes, facts, depth + 1) if depth < 3 else "…"))
    return "%s(%s)" % (a[2], ",".join(parts))


def fields_to_params(a, facts):
    """{field name: sorted param indices feeding it} for an aggregate value."""
    adt = facts.adts.get(a[1])
    names = []
    if adt:
        for vv in adt["variants"]:
            if vv["name"] == a[2]:
                names = [f[0] for f in vv["fields"]]
    out = {}
    for i, fv in enumerate(a[4]):
        nm = names[i] if i < len(names) else str(i)
        ps = sorted(int(s[0][3:]) for s in syms(fv) if len(s) >= 1 and s[0].startswith("arg") and s[0][3:].isdigit())
        out[nm] = ps
    return out


def builder_methods(facts, impl_self):
    """{method name: fn name} for an impl of ExprBuilder, falling back to trait defaults."""
    out = {}
    pre = "<%s as cedar_policy_core::expr_builder::ExprBuilder>::" % impl_self
    for n, e in facts.fns.index.items():
        if n.startswith(pre) and e[4] != "Closure":
            out[n[len(pre):]] = n
    for n, e in facts.fns.index.items():
        if n.startswith(TRAIT) and e[4] != "Closure":
            m = n[len(TRAIT):]
            out.setdefault(m, n)
    return out


def builder_map(facts, impl_self, enum_suffixes, skip=("new", "with_data", "with_maybe_source_loc", "with_source_loc", "loc", "data", "error")):
    """method -> {"variant", "fields": {field: [param idx]}, "sig", "fn"} ; methods whose body the
    constant propagation cannot decide are returned with "undecided": reason."""
    out = {}

    def dd(path, adt):
        # take the generic (non-literal, non-folding) path through literal-folding matches
        if adt.endswith("ExprKind") or adt.endswith("ExprNoExt") or adt.endswith("pst::expr::Expr"):
            return 10 ** 6
        return None
    for m, fname in sorted(builder_methods(facts, impl_self).items()):
        if m in skip or "{" in m:
            continue
        f = facts.fns[fname]
        o = InlineOracle(facts, 4, impl_self, default_disc=dd)
        init = {i: ("sym", ("arg%d" % i,)) for i in range(1, f.nargs + 1)}
        try:
            ret, trace = tt.Interp(f, o, max_steps=3000).run(init)
        except tt.Undecided as e:
            out[m] = {"undecided": str(e)[:160], "fn": fname}
            continue
        a = find_adt(ret, enum_suffixes)
        if a is None:
            out[m] = {"undecided": "no %s aggregate in the result" % (enum_suffixes,), "fn": fname}
            continue
        out[m] = {"variant": a[2], "fields": fields_to_params(a, facts), "sig": sig_of(a, enum_suffixes, facts), "fn": fname, "line": f.line, "file": f.file}
    return out


# ---- arm events ----------------------------------------------------------------
def _is_child_type(ty, enum_markers):
    return any(m in ty for m in enum_markers)


def arm_events(facts, f, adt_suffix, ctor_name, include_aggs=(), sub_dispatch=None, region_extra=None, extra_seed=None):
    """Per variant of the widest `match` on `adt_suffix` in f:
       {variant idx: {"region", "events": [{"ctor","args":[labels...],"fields":[names]|None,"line","block"}], "labels": Labels}}
    ctor_name(callee) -> canonical constructor name or None. include_aggs: ADT suffixes whose aggregates count as events."""
    sws = sorted(shape.variant_switches(f, adt_suffix), key=lambda s: -len(s[2]))
    if not sws:
        return None
    b, scrut, arms, other = sws[0]
    out = {}
    # several variants may share a target (or-patterns): group
    # or-patterns with bindings give every alternative its own binding block and a SHARED body that none of them dominates:
    # an arm's region is what it dominates plus what it reaches before the point where all arms have joined
    reach = {vi: cfg.reachable(f, tgt, cut_blocks={b}) for vi, tgt in arms.items()}
    common = set.intersection(*reach.values()) if len(reach) > 1 else set()
    if other is not None and f.blocks[other]["t"][0] != "unr" and common:
        common &= cfg.reachable(f, other, cut_blocks={b})
    for vi, tgt in arms.items():
        region = set(shape.arm_region(f, tgt)) | (reach[vi] - common)
        vseed = shape.variant_field_seed(adt_suffix)
        seed = vseed if extra_seed is None else (lambda p, a=vseed, b=extra_seed: list(a(p) or []) + list(b(p) or []))
        L = shape.Labels(f, region, seed)
        events = []
        for bb, blk in enumerate(f.blocks):
            if blk["cl"] or bb not in region:
                continue
            for s in blk["st"]:
                if s[0] == "a" and s[2][0] == "agg" and s[2][1][0] == "adt" and s[2][1][1].endswith(tuple(include_aggs)):
                    kd = s[2][1]
                    events.append({"ctor": "%s::%s" % (kd[1].split("::")[-1], kd[2]), "args": [L.operand_labels(o) for o in s[2][2]],
                                   "fields": kd[3], "line": s[3], "block": bb, "consts": [_const_desc(o) for o in s[2][2]]})
                if s[0] == "a" and s[2][0] == "agg" and s[2][1][0] == "closure":
                    caps = [L.operand_labels(o) for o in s[2][2]]
                    events += closure_events(facts, s[2][1][1], caps, ctor_name, include_aggs, 2)
            t = blk["t"]
            if t[0] == "call":
                nm = ctor_name(callee(t), t)
                if nm:
                    events.append({"ctor": nm, "args": [L.operand_labels(o) for o in t[2]], "fields": None, "line": t[1].get("l"), "block": bb,
                                   "consts": [_const_desc(o) for o in t[2]]})
        out[vi] = {"region": region, "events": events, "labels": L, "target": tgt}
    return {"switch": b, "arms": out, "otherwise": other, "scrutinee": scrut}


def closure_events(facts, cname, caps, ctor_name, include_aggs, depth):
    """Constructor events inside a closure body; captured variable k carries labels caps[k]."""
    g = facts.fns.get(cname)
    if g is None or depth <= 0:
        return []

    def seed(p):
        out = set()
        if p[0] == 1:
            for e in p[1:]:
                if isinstance(e, list) and e[0] == "f" and e[3].startswith("closure:"):
                    if e[1] < len(caps):
                        out |= caps[e[1]]
                    break
        return out
    L = shape.Labels(g, None, seed)
    events = []
    for bb, blk in enumerate(g.blocks):
        if blk["cl"]:
            continue
        for s in blk["st"]:
            if s[0] == "a" and s[2][0] == "agg" and s[2][1][0] == "adt" and s[2][1][1].endswith(tuple(include_aggs)):
                kd = s[2][1]
                events.append({"ctor": "%s::%s" % (kd[1].split("::")[-1], kd[2]), "args": [L.operand_labels(o) for o in s[2][2]],
                               "fields": kd[3], "line": s[3], "block": bb, "consts": [_const_desc(o) for o in s[2][2]], "in_closure": cname})
            if s[0] == "a" and s[2][0] == "agg" and s[2][1][0] == "closure":
                caps2 = [L.operand_labels(o) for o in s[2][2]]
                events += closure_events(facts, s[2][1][1], caps2, ctor_name, include_aggs, depth - 1)
        t = blk["t"]
        if t[0] == "call":
            nm = ctor_name(callee(t), t)
            if nm:
                events.append({"ctor": nm, "args": [L.operand_labels(o) for o in t[2]], "fields": None, "line": t[1].get("l"), "block": bb,
                               "consts": [_const_desc(o) for o in t[2]], "in_closure": cname})
    return events


def _const_desc(o):
    if o[0] == "k":
        k = o[1]
        if "v" in k:
            return "k%s" % k["v"]
        if "s" in k:
            return "s:" + k["s"][:30]
        return "const"
    return None


def variant_fields(facts, adt_path, vi):
    r = facts.adts.get(adt_path)
    if r is None or vi >= len(r["variants"]):
        return None, []
    v = r["variants"][vi]
    return v["name"], [(f[0], f[1]) for f in v["fields"]]
