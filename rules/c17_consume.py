"""C17.CONSUME — the manifest analysis keeps what its children computed.

entity_manifest_from_expr returns, per sub-expression, the accesses found so far (global_trie) and the paths the value
of the sub-expression may still be dereferenced through (resulting_paths). On every path from a recursive call to an Ok
return (or to the next iteration of the loop the call sits in)
  (g) the child's global_trie is consumed — the result is passed on whole, or its global_trie field is read;
  (p) for the children whose value is (part of) the value of the node — the branches of `if`, set elements, record
      values, the target of `.attr` / `has` — its resulting_paths is consumed as well (whole, or the field is read).
The children are identified by variant-qualified provenance of the argument of the recursive call (no local names).
Decides where the child results go, not what union / get_or_has_attr compute.
"""
from lib import cfg, shape
from lib.facts import callee
from lib.rulelib import get_fn

EM = "cedar_policy_core::validator::entity_manifest::"
PATHS_NEEDED = {"If.then_expr", "If.else_expr", "Set.0", "Record.0", "GetAttr.expr", "HasAttr.expr"}


def _field(p, name):
    return any(isinstance(e, list) and e[0] == "f" and e[2] == name for e in p[1:])


def _operands(blk):
    """(operand, is_terminator_arg) for every operand read in the block"""
    for s in blk["st"]:
        if s[0] != "a":
            continue
        rv = s[2]
        if rv[0] == "use":
            yield s, rv[1]
        elif rv[0] == "cast":
            yield s, rv[2]
        elif rv[0] in ("ref", "addr"):
            yield s, ["c", rv[1]]
        elif rv[0] == "agg":
            for o in rv[2]:
                yield s, o
    t = blk["t"]
    if t[0] == "call":
        for o in t[2]:
            yield t, o


def check(chk, facts):
    rule = "C17.CONSUME"
    f = get_fn(chk, facts, rule, EM + "entity_manifest_from_expr")
    if f is None:
        return
    L = shape.Labels(f, None, shape.variant_field_seed("ast::expr::ExprKind"))
    n = 0
    # blocks that produce the success value
    oks = set()
    for b, blk in enumerate(f.blocks):
        if blk["cl"]:
            continue
        for s in blk["st"]:
            if s[0] == "a" and s[1] == [0]:
                oks.add(b)
        t = blk["t"]
        if t[0] == "call" and t[3] == [0] and not callee(t).endswith("from_residual"):
            oks.add(b)
    for b, t in f.calls():
        if callee(t) != f.name:
            continue
        labs = {x for x in L.operand_labels(t[2][0]) if "." in x}
        r0 = t[3][0]
        # result -> `?` -> Continue payload
        holders = set()
        start = None
        for b2, t2 in f.calls():
            if callee(t2).endswith("ops::Try>::branch") and t2[2] and t2[2][0][0] in ("c", "m") and t2[2][0][1] == [r0]:
                d = t2[3][0]
                for b3, blk in enumerate(f.blocks):
                    for s in blk["st"]:
                        if s[0] == "a" and s[2][0] == "use" and s[2][1][0] in ("c", "m") and s[2][1][1][0] == d and \
                                any(isinstance(e, list) and e[0] == "d" and e[1] == "Continue" for e in s[2][1][1][1:]) and len(s[1]) == 1:
                            holders.add(s[1][0])
                            start = b3
        if start is None:
            chk.ob(rule, "site@L%s" % t[1].get("l"), False, "recursive result is not unwrapped with `?` (unrecognised shape)", where=f.where(t[1].get("l")), fn=f.name)
            continue
        # plain moves of the whole value extend the holder set
        changed = True
        moves = set()
        while changed:
            changed = False
            for b3, blk in enumerate(f.blocks):
                if blk["cl"]:
                    continue
                for s in blk["st"]:
                    if s[0] == "a" and len(s[1]) == 1 and s[2][0] == "use" and s[2][1][0] in ("c", "m") and len(s[2][1][1]) == 1 and s[2][1][1][0] in holders and s[1][0] != 0:
                        moves.add(id(s))
                        if s[1][0] not in holders:
                            holders.add(s[1][0])
                            changed = True
        whole, gt, rp = set(), set(), set()
        for b3, blk in enumerate(f.blocks):
            if blk["cl"]:
                continue
            for site, o in _operands(blk):
                if o[0] not in ("c", "m") or o[1][0] not in holders:
                    continue
                p = o[1]
                if len([e for e in p[1:] if e != "*"]) == 0:
                    if id(site) in moves:
                        continue
                    if site is blk["t"] or (site[0] == "a" and site[2][0] in ("agg", "use")):
                        # passed to a call by value / by reference, or stored into the returned value
                        if site is blk["t"] and o[0] == "c":
                            continue
                        whole.add(b3)
                elif _field(p, "global_trie"):
                    gt.add(b3)
                elif _field(p, "resulting_paths"):
                    rp.add(b3)
        # by-reference method calls on the holder (`&holder` then call) count as whole only when moved: references are ignored
        targets = set(oks) | {b}
        g_ok = cfg.must_pass(f, start, targets - whole - gt, whole | gt) if (whole | gt) else False
        n += 1
        inst = "/".join(sorted(labs)) or "site@L%s" % t[1].get("l")
        chk.ob(rule, "%s:global_trie" % inst, g_ok,
               "the accesses found in child %s reach the result on every path to an Ok return or the next iteration (passed on whole in %d block(s), global_trie read in %d): %s" % (inst, len(whole), len(gt), g_ok),
               where=f.where(t[1].get("l")), fn=f.name, key="%s:%s:g" % (rule, inst), sample={"child": inst, "whole": len(whole), "global_trie": len(gt), "resulting_paths": len(rp)})
        if labs & PATHS_NEEDED:
            p_ok = cfg.must_pass(f, start, targets - whole - rp, whole | rp) if (whole | rp) else False
            n += 1
            chk.ob(rule, "%s:resulting_paths" % inst, p_ok,
                   "the value of child %s is (part of) the node's value: its resulting paths reach the result on every path (whole in %d block(s), resulting_paths read in %d): %s" % (inst, len(whole), len(rp), p_ok),
                   where=f.where(t[1].get("l")), fn=f.name, key="%s:%s:p" % (rule, inst))
    chk.floor(rule, "child-result obligations in entity_manifest_from_expr", n, 21)


SETTY = "&mut std::collections::HashSet<cedar_policy_core::ast::entity::EntityUID>"
LOADER = "cedar_policy_core::validator::entity_manifest::loader::"


def _root(f, local, depth=8):
    """Follow `_a = &mut _b`, `_a = &mut (*_c)`, `_a = move _c` back to the local the reference designates."""
    from lib import panics
    defs = panics._def_sites(f)
    for _ in range(depth):
        if 1 <= local <= f.nargs:
            return ("param", local)
        ds = defs.get(local, [])
        if len(ds) != 1 or ds[0][0] != "st":
            return ("local", local)
        rv = ds[0][2][2]
        if rv[0] in ("ref", "addr"):
            p = rv[1]
            if any(e != "*" for e in p[1:]):
                return ("place", local)
            if not p[1:]:
                return ("local", p[0])     # &mut _b : the set itself
            local = p[0]
        elif rv[0] == "use" and rv[1][0] in ("c", "m") and len(rv[1][1]) == 1:
            local = rv[1][1][0]
        else:
            return ("local", local)
    return ("local", local)


def ancestors_threading(chk, facts):
    """Required-ancestor ids are accumulated in one set threaded by `&mut` through the collectors: a helper that
    receives the accumulator hands *it* to every collector it calls, and compute_ancestors_request hands every
    collector the set it returns."""
    rule = "C17.ANCESTORS"
    n = 0
    # everything the ancestors computation calls inside the loader module works for it: no throw-away accumulators there
    roots = [x for x in facts.fns.keys() if x.startswith(LOADER) and "AncestorsRequest" in facts.fns[x].locals[0] and "{closure" not in x]
    reach = set()
    work = list(roots)
    while work:
        x = work.pop()
        for _, t in facts.fns[x].calls():
            c = callee(t)
            if c.startswith(LOADER) and c in facts.fns and c not in reach and c not in roots:
                reach.add(c)
                work.append(c)
    if not roots:
        chk.lost(rule, "the loader function returning AncestorsRequest")
    for name in sorted(facts.fns.keys()):
        if not name.startswith(LOADER):
            continue
        f = facts.fns[name]
        own = [i for i in range(1, f.nargs + 1) if f.locals[i] == SETTY]
        returns_req = "AncestorsRequest" in f.locals[0]
        if not own and not returns_req and name not in reach:
            continue
        chk.functions.add(f.name)
        ret_root = None
        if returns_req:
            # the set stored in the `ancestors` field of the returned request
            for b, blk in enumerate(f.blocks):
                for s in blk["st"]:
                    if s[0] == "a" and s[2][0] == "agg" and s[2][1][0] == "adt" and str(s[2][1][1]).endswith("AncestorsRequest"):
                        for o in s[2][2]:
                            if o[0] in ("c", "m") and "HashSet<" in f.locals[o[1][0]] and "EntityUID" in f.locals[o[1][0]]:
                                ret_root = _root(f, o[1][0])
            if ret_root is None:
                chk.lost(rule, "%s: the set stored in the returned AncestorsRequest" % name.split("::")[-1])
                continue
        for b, t in f.calls():
            for i, o in enumerate(t[2]):
                if o[0] not in ("c", "m") or len(o[1]) != 1 or f.locals[o[1][0]] != SETTY:
                    continue
                c = callee(t)
                if not c.startswith(LOADER):
                    continue
                r = _root(f, o[1][0])
                if own or not returns_req:
                    ok = bool(own) and r == ("param", own[0])
                    want = "its own accumulator parameter (it is called by the ancestors computation)"
                else:
                    ok = r == ret_root
                    want = "the set it returns in AncestorsRequest.ancestors"
                n += 1
                chk.ob(rule, "%s->%s@L%s" % (name.split("::")[-1], c.split("::")[-1], t[1].get("l")), ok,
                       "%s hands %s the accumulator %s (must be %s)" % (name.split("::")[-1], c.split("::")[-1], r, want),
                       where=f.where(t[1].get("l")), fn=f.name, key="%s:%s:%s" % (rule, name.split("::")[-1], c.split("::")[-1]),
                       sample={"fn": name.split("::")[-1], "callee": c.split("::")[-1], "accumulator": list(r)})
    chk.floor(rule, "accumulator hand-offs", n, 6)
