"""C06.GUARD.slot — a JSON (EST) scope constraint that names a slot becomes an AST slot constraint only for the slot of its own role.

In the two `TryFrom<est::{Principal,Resource}Constraint> for ast::PrincipalOrResourceConstraint` conversions every site that produces a
slot-bearing AST constraint (an `EntityReference::Slot` aggregate, a call of `is_entity_type_in_slot`) is control-dependent on the
*equal* edge of a `SlotId == SlotId::principal()` (resp. `resource()`) comparison whose other operand is the `slot` payload of the JSON
constraint. Otherwise `principal in ?resource` is silently read as `principal in ?principal` while the lossless JSON copy kept beside
the AST still names `?resource`: a different policy (C06), and linking it later trips internal `expect`s (C20).
"""
from lib import cfg
from lib.facts import callee
from lib.rulelib import get_fn
from lib.slice import leaf_producers

FNS = (("cedar_policy_core::est::scope_constraints::<impl std::convert::TryFrom<cedar_policy_core::est::scope_constraints::PrincipalConstraint> for cedar_policy_core::ast::policy::PrincipalOrResourceConstraint>::try_from", "principal"),
       ("cedar_policy_core::est::scope_constraints::<impl std::convert::TryFrom<cedar_policy_core::est::scope_constraints::ResourceConstraint> for cedar_policy_core::ast::policy::PrincipalOrResourceConstraint>::try_from", "resource"))


def check(chk, facts, rule="C06.GUARD.slot"):
    total = 0
    for name, role in FNS:
        f = get_fn(chk, facts, rule, name)
        if f is None:
            continue
        sites = [(b, "EntityReference::Slot", s[3]) for b, s in f.stmts()
                 if s[0] == "a" and s[2][0] == "agg" and s[2][1][0] == "adt" and s[2][1][2] == "Slot" and str(s[2][1][1]).endswith("ast::policy::EntityReference")]
        sites += [(b, "is_entity_type_in_slot", t[1].get("l")) for b, t in f.calls() if callee(t).endswith("::is_entity_type_in_slot")]
        # `==` resolves to SlotId's own PartialEq::eq, `!=` to the trait's provided `ne`; the operands checked below make it a SlotId comparison
        eqs = [(b, t) for b, t in f.calls() if callee(t).endswith(("PartialEq>::eq", "PartialEq>::ne", "cmp::PartialEq::ne", "cmp::PartialEq::eq"))]
        bad = []
        for b, what, line in sites:
            ok = False
            for d, taken in cfg.guard_edges(f, b):
                sw = f.blocks[d]["t"]
                if sw[1][0] not in "cm":
                    continue
                lp = leaf_producers(f, sw[1])
                tv = [v for v, _ in taken]
                # the site lies on the "slots are equal" side: `==` answered true (`else` of the bool switch) or `!=` answered false (0)
                want = None
                if any(str(x).endswith(("PartialEq>::eq", "PartialEq::eq")) for x in lp) and tv == ["else"]:
                    want = "::eq"
                elif any(str(x).endswith(("PartialEq>::ne", "PartialEq::ne")) for x in lp) and tv in ([0], ["0"]):
                    want = "::ne"
                if want is None:
                    continue
                for eb, t in eqs:
                    if not cfg.dominates(f, eb, d) or not callee(t).endswith(want):
                        continue
                    ops = [leaf_producers(f, a) for a in t[2]]
                    has_payload = any(any(str(x).startswith("place:") and str(x).endswith("Slot.slot") for x in o) for o in ops)
                    has_role = any(any(str(x) == "call:cedar_policy_core::ast::name::SlotId::%s" % role for x in o) for o in ops)
                    if has_payload and has_role:
                        ok = True
            total += 1
            if not ok:
                bad.append("%s@L%s" % (what, line))
        chk.ob(rule, "%s:slot" % role, bool(sites) and not bad,
               "%s constraint: each of the %d site(s) producing a slot constraint is reached only when the JSON slot equals SlotId::%s()" % (role, len(sites), role)
               if sites and not bad else
               "%s constraint: %s produce(s) a slot constraint without first comparing the JSON slot with SlotId::%s() (a constraint naming the other role's slot is accepted and re-labelled)" % (role, bad or "no site", role),
               where=f.where(), fn=f.name, sample={"sites": len(sites), "unguarded": bad})
    chk.floor(rule, "slot-constraint sites", total, 4)
