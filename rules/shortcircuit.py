"""GUARD rule for short-circuit evaluation order (shared by C02 / C14).

For a node with a first child F and later children {X: polarity}: every call of
the interpreter on X must be control-dependent on (a) the result of interpreting
F being a residual, or (b) the boolean extracted from F's value having the
required polarity; and some call on F must dominate every call on X.
"""
from lib import cfg, panics
from lib.facts import callee
from lib.rulelib import short


def _def_stmt(fn, local):
    for kind, b, x in panics._def_sites(fn).get(local, []):
        return kind, b, x
    return None


def classify_switch(fn, d):
    """-> ('disc', adt, place) | ('bool', producer) | ('other', desc)"""
    t = fn.blocks[d]["t"]
    o = t[1]
    if o[0] not in ("c", "m"):
        return ("other", "const")
    p = o[1]
    if len(p) == 1:
        ds = panics._def_sites(fn).get(p[0], [])
        if len(ds) == 1 and ds[0][0] == "st" and ds[0][2][2][0] == "disc":
            rv = ds[0][2][2]
            return ("disc", rv[2], rv[1])
    prod = panics.producer(fn, o)
    ty = t[4] if len(t) > 4 else ""
    if ty == "bool":
        return ("bool", prod)
    return ("other", prod)


def check(chk, rule, fn, region, labels, interp_suffix, arg_index, first, later, residual_adt, residual_variant_idx,
          bool_producer="get_as_bool", node="", extra_first_ok=()):
    """later: {label: required polarity (True/False) or None when either residual/any}."""
    calls = []
    for b, t in fn.calls():
        if region is not None and b not in region:
            continue
        if not callee(t).endswith(interp_suffix):
            continue
        if arg_index >= len(t[2]):
            continue
        ls = labels.operand_labels(t[2][arg_index])
        calls.append((b, t, ls))
    first_calls = [b for b, t, ls in calls if first in ls]
    n = 0
    for lab, pol in later.items():
        for b, t, ls in calls:
            if lab not in ls:
                continue
            n += 1
            line = t[1].get("l")
            dominated = any(cfg.dominates(fn, fb, b) and fb != b for fb in first_calls)
            ok_guard = False
            seen = []
            for d, taken in cfg.guard_edges(fn, b):
                kind = classify_switch(fn, d)
                tv = [v for v, _ in taken]
                if kind[0] == "disc" and kind[1].endswith(residual_adt):
                    if first in labels.place_labels(kind[2]) and tv == [residual_variant_idx]:
                        ok_guard = True
                        seen.append("residual(%s)" % first)
                elif kind[0] == "bool" and bool_producer in kind[1]:
                    sw_op = fn.blocks[d]["t"][1]
                    if first in labels.operand_labels(sw_op):
                        truth = (tv == ["else"]) or (tv == [1])
                        falsity = (tv == [0])
                        if pol is None or (pol and truth) or ((pol is False) and falsity):
                            ok_guard = True
                        seen.append("bool(%s)=%s" % (first, "true" if truth else "false" if falsity else tv))
            chk.ob(rule, "%s:%s@L%s" % (node, lab, line), ok_guard and dominated,
                   "evaluation of %s is guarded by %s (required: %s is residual, or its boolean is %s) and %s evaluated first" % (
                       lab, seen or "nothing", first, {True: "true", False: "false", None: "known"}[pol], "is" if dominated else "is NOT"),
                   where=fn.where(line), fn=fn.name,
                   key="%s:%s:%s:%s" % (rule, short(fn.name), node, lab),
                   sample={"fn": short(fn.name), "node": node, "child": lab, "guards": seen, "first_dominates": dominated})
    return n, len(first_calls)
