"""C07.EXACT — the calendar helpers of the datetime extension compute the exact documented value for every input.

Decided by the relational part of lib/interval.py (intervals x exact affine forms over the inputs x congruences of remainders,
`checked_*` results followed through `?`, discriminant switches and `Option::map` with a capture-less closure). Nothing is
executed and no formula is handed to a solver: each statement below is a conjunction of an interval fact, an affine-form fact and
a congruence fact that the abstract interpretation derives on every feasible path, and together they pin the result uniquely:

* `toTime()`  (DateTime::to_time):  result in [0, DAY) and result == epoch (mod DAY)   <=>  result = epoch mod DAY, non-negative
* `toDate()`  (DateTime::to_date):  Some(e) with e == 0 (mod DAY) and e - epoch in (-DAY, 0]   <=>  e = the start of epoch's day;
                                    None only through a checked step whose mathematical result can leave i64
* `offset()`  (DateTime::offset):   Some(e) with e = epoch + ms exactly; None only through the overflowing checked_add
* `durationSince()` (DateTime::duration_since): Some(d) with d = self.epoch - other.epoch exactly; None only on overflow

* `toMilliseconds/toSeconds/toMinutes/toHours/toDays` (Duration::to_*): the result is the stored milliseconds divided, truncating
  toward zero, by exactly 1 / 1000 / 60 000 / 3 600 000 / 86 400 000 (a quotient relation composed through the helper calls:
  trunc(trunc(x/a)/b) = trunc(x/(ab)) for positive constants)

DAY is 24*60*60*1000 by definition of the documented unit (milliseconds), not read from the code.
The statements are properties of the *result*, not of how it is computed: `rem_euclid`, a sign case split on the remainder or on the
epoch, `?` or `map`, by-value or by-reference receivers all satisfy them (selftest variants). When the engine cannot follow a
rewritten body (a loop, an unmodelled helper) the value is *undecided*: that is reported as a lost anchor (the check fails closed,
naming the function), never as a wrong value.
"""
import re

from lib import interval
from lib.rulelib import get_fn

DAY = 24 * 60 * 60 * 1000
MOD = "cedar_policy_core::extensions::datetime::DateTime::"


def _self_field(origin, local, field):
    """`_1.epoch` or `(*_1).epoch` (receiver by value or by reference)."""
    return bool(re.match(r"^(\(\*_%d\)|_%d)\.%s$" % (local, local, field), origin or ""))


def _named(a, st, k):
    return a.form_named(st, st.aff.get(k) or ({k: 1}, 0))


def _origin_of(a, st, local, field):
    for r, o in st.origin.items():
        if _self_field(o, local, field):
            return o
    return None


def _analyse(chk, facts, rule, name):
    f = get_fn(chk, facts, rule, MOD + name)
    if f is None:
        return None, None
    try:
        return f, interval.Analysis(f, resolver=facts.fn).run()
    except interval.Unsupported as e:
        chk.lost(rule, MOD + name, "no longer analysable by the relational interval engine (%s): the exact value is undecided" % e)
        return f, None


def _payload(a, st, vk, leafname):
    lv = a.leaves(st, vk)
    for leaf, k in lv.items():
        if leaf == leafname:
            return k
    return None


def _none_paths(chk, rule, f, a, name, some_leaf):
    """Every path that returns without the payload leaf must have taken the failure side of a checked step that can overflow."""
    bad = []
    nones = 0
    for st, vk in a.rets:
        if _payload(a, st, vk, some_leaf) is not None:
            continue
        nones += 1
        if not st.none_steps:
            bad.append("variant %s without a failing checked step" % st.variant.get(vk, "?"))
    chk.ob(rule, name + ":none-only-on-overflow", not bad,
           "%s: %d path(s) return no value, each through the failure side of a checked step whose mathematical result can leave i64" % (name, nones) if not bad
           else "%s: a path returns no value although no checked arithmetic step failed on it (%s): the operation is defined for inputs it now rejects" % (name, "; ".join(bad)),
           where=f.where(), fn=f.name, sample={"none_paths": nones, "bad": bad})


def check(chk, facts):
    rule = "C07.EXACT"
    # ---- toTime -------------------------------------------------------------------------------------------------------
    f, a = _analyse(chk, facts, rule, "to_time")
    if a is not None:
        bad = []
        seen = 0
        for st, vk in a.rets:
            k = _payload(a, st, vk, "ms")
            if k is None:
                bad.append("a path returns something other than Duration{ms}")
                continue
            seen += 1
            lo, hi = st.iv[k]
            mf = a.mod_form(st, k, DAY)
            o = _origin_of(a, st, 1, "epoch")
            if not (0 <= lo and hi <= DAY - 1):
                bad.append("ms in [%d, %d] is not within [0, %d]" % (lo, hi, DAY - 1))
            if o is None or mf != ({o: 1}, 0):
                bad.append("ms == %s (mod one day), expected == epoch" % (mf,))
        chk.ob(rule, "to_time:exact", not bad and seen > 0,
               "toTime(): on each of %d feasible path(s) the result lies in [0, one day) and is congruent to the epoch modulo one day: it is the epoch's non-negative remainder for every datetime" % seen
               if not bad and seen else "toTime(): %s" % "; ".join(sorted(set(bad)) or ["no returning path"]),
               where=f.where(), fn=f.name, sample={"paths": seen, "bad": sorted(set(bad))})
    # ---- toDate -------------------------------------------------------------------------------------------------------
    f, a = _analyse(chk, facts, rule, "to_date")
    if a is not None:
        bad = []
        seen = 0
        for st, vk in a.rets:
            k = _payload(a, st, vk, "0.epoch")
            if k is None:
                continue
            seen += 1
            o = _origin_of(a, st, 1, "epoch")
            rel = a.rel_to(st, k, o) if o else None
            mf = a.mod_form(st, k, DAY)
            if rel is None or not (-(DAY - 1) <= rel[0] and rel[1] <= 0):
                bad.append("result - epoch in %s, expected within [-%d, 0]" % (list(rel) if rel else "?", DAY - 1))
            if mf != ({}, 0):
                bad.append("result == %s (mod one day), expected == 0" % (mf,))
        chk.ob(rule, "to_date:exact", not bad and seen > 0,
               "toDate(): on each of %d value-returning path(s) the result is a multiple of one day and lies in (epoch - one day, epoch]: it is the start of the epoch's day for every datetime" % seen
               if not bad and seen else "toDate(): %s" % "; ".join(sorted(set(bad)) or ["no value-returning path"]),
               where=f.where(), fn=f.name, sample={"paths": seen, "bad": sorted(set(bad))})
        _none_paths(chk, rule, f, a, "to_date", "0.epoch")
    # ---- offset / durationSince -----------------------------------------------------------------------------------------
    for name, leaf, want_fields, text in (
            ("offset", "0.epoch", (("epoch", 1, 1), ("ms", 2, 1)), "epoch + ms"),
            ("duration_since", "0.ms", (("epoch", 1, 1), ("epoch", 2, -1)), "self.epoch - other.epoch")):
        f, a = _analyse(chk, facts, rule, name)
        if a is None:
            continue
        bad = []
        seen = 0
        for st, vk in a.rets:
            k = _payload(a, st, vk, leaf)
            if k is None:
                continue
            seen += 1
            form = _named(a, st, k)
            want = {}
            for field, local, coeff in want_fields:
                o = _origin_of(a, st, local, field)
                if o is None:
                    want = None
                    break
                want[o] = coeff
            if want is None or form != (want, 0):
                bad.append("result = %s, expected %s" % (form, text))
        chk.ob(rule, name + ":exact", not bad and seen > 0,
               "%s: on each of %d value-returning path(s) the result is exactly %s" % (name, seen, text) if not bad and seen
               else "%s: %s" % (name, "; ".join(sorted(set(bad)) or ["no value-returning path whose payload could be followed"])),
               where=f.where(), fn=f.name, sample={"paths": seen, "bad": sorted(set(bad))})
        _none_paths(chk, rule, f, a, name, leaf)


UNITS = (("to_milliseconds", 1), ("to_seconds", 1000), ("to_minutes", 60 * 1000), ("to_hours", 60 * 60 * 1000), ("to_days", DAY))
DMOD = "cedar_policy_core::extensions::datetime::Duration::"


def check_units(chk, facts):
    rule = "C07.EXACT"
    for name, unit in UNITS:
        f = get_fn(chk, facts, rule, DMOD + name)
        if f is None:
            continue
        try:
            a = interval.Analysis(f, resolver=facts.fn).run()
        except interval.Unsupported as e:
            chk.lost(rule, DMOD + name, "no longer analysable by the relational interval engine (%s): the exact value is undecided" % e)
            continue
        bad = []
        for st, vk in a.rets:
            o = _origin_of(a, st, 1, "ms")
            q = st.quot.get(vk)
            form = _named(a, st, vk)
            if unit == 1 and q is None:
                got = ("ms" if o and form == ({o: 1}, 0) else str(form), 1)
            elif q is not None:
                qf = a.form_named(st, q[0])
                got = ("ms" if o and qf == ({o: 1}, 0) else str(qf), q[1])
            else:
                got = (str(form), None)
            if got != ("ms", unit):
                bad.append("result = %s / %s (truncating)" % got if got[1] else "result = %s, not a truncating quotient of the stored milliseconds" % got[0])
        chk.ob(rule, name + ":unit", not bad and a.rets,
               "%s: the result is the stored milliseconds / %d, truncating toward zero, on every path" % (name, unit) if not bad and a.rets
               else "%s: %s; expected ms / %d truncating toward zero" % (name, "; ".join(sorted(set(bad)) or ["no returning path"]), unit),
               where=f.where(), fn=f.name, sample={"unit": unit, "bad": sorted(set(bad))})
