"""C18.VERIFY — the verification conditions are the formulas their names state.

Each verify_* builder hands a formula `phi` over the compiled policy term(s) to verify_evaluate / verify_evaluate_pair /
verify_is_authorized, which assert the well-formedness constraints of the compiled expressions plus `not(phi(..))`.
The rule renders every phi (closure body, function item or local closure) as a term over the factory functions and
compares it with the definition: never-errors = is_some(t); always-matches = (t == some(true)); never-matches =
not(t == some(true)); matches-equivalent = (m1 == m2); matches-implies = implies(m1, m2) in that order; matches-disjoint
= not(and(m1, m2)); implies / equivalent / disjoint on policy sets likewise over the two authorization terms;
always-allows = implies(allow-all, policies); always-denies = implies(policies, empty). Both verifier modules
(symcc and symccopt) are checked against the same table. Decides the shape of the conditions, not the factory's folding.
"""
from lib import panics
from lib.facts import callee
from lib.rulelib import short

MODS = ("cedar_policy_symcc::symcc::verifier::", "cedar_policy_symcc::symccopt::verifier::")
M1 = ("eq", ("p", 1), ("some_of", ("true",)))
M2 = ("eq", ("p", 2), ("some_of", ("true",)))
PHI = {
    "verify_never_errors": ("is_some", ("p", 1)),
    "verify_always_matches": M1,
    "verify_never_matches": ("not", M1),
    "verify_matches_equivalent": ("eq", M1, M2),
    "verify_matches_implies": ("implies", M1, M2),
    "verify_matches_disjoint": ("not", ("and", M1, M2)),
    "verify_implies": ("implies", ("p", 1), ("p", 2)),
    "verify_equivalent": ("eq", ("p", 1), ("p", 2)),
    "verify_disjoint": ("not", ("and", ("p", 1), ("p", 2))),
}
SYMMETRIC = {"eq", "and"}
DRIVER = {"verify_never_errors": "verify_evaluate", "verify_always_matches": "verify_evaluate", "verify_never_matches": "verify_evaluate",
          "verify_matches_equivalent": "verify_evaluate_pair", "verify_matches_implies": "verify_evaluate_pair", "verify_matches_disjoint": "verify_evaluate_pair",
          "verify_implies": "verify_is_authorized", "verify_equivalent": "verify_is_authorized", "verify_disjoint": "verify_is_authorized"}


def render(facts, f, o, depth=0, env=None):
    """term of an operand: ('p', i) closure parameter i (1-based, after the environment), ('true',), (fn, args..) or ('?', text)"""
    if depth > 14:
        return ("?", "deep")
    if o[0] == "k":
        k = o[1]
        if k.get("v") == 1 and k.get("t") == "bool":
            return ("true",)
        if k.get("v") == 0 and k.get("t") == "bool":
            return ("false",)
        if "fn" in k:
            return ("fn", (k.get("rf") or k["fn"]).split("::")[-1])
        return ("?", "const")
    p = o[1]
    l = p[0]
    if any(e != "*" for e in p[1:]):
        # a captured closure: `(*_1).k`
        if env is not None and l == 1:
            for e in p[1:]:
                if isinstance(e, list) and e[0] == "f" and e[1] in env:
                    return env[e[1]]
        return ("?", "projection")
    is_closure = "{closure" in f.name.split("::")[-1]
    if 1 <= l <= f.nargs:
        return ("p", l - 1 if is_closure else l)
    ds = panics._def_sites(f).get(l, [])
    if len(ds) != 1:
        return ("?", "%d defs" % len(ds))
    kind, b, x = ds[0]
    if kind == "st":
        rv = x[2]
        if rv[0] == "use":
            return render(facts, f, rv[1], depth + 1, env)
        if rv[0] in ("ref", "addr"):
            return render(facts, f, ["c", rv[1]], depth + 1, env)
        if rv[0] == "agg" and rv[1][0] == "closure":
            return ("closure", rv[1][1], tuple(render(facts, f, a, depth + 1, env) for a in rv[2]))
        return ("?", rv[0])
    c = callee(x)
    last = c.split("::")[-1]
    args = [render(facts, f, a, depth + 1, env) for a in x[2]]
    if last == "into" and args == [("true",)]:
        return ("true",)
    if last == "clone" and len(args) == 1:
        return args[0]
    # calling a local / captured closure: inline its body
    if last in ("call", "call_once", "call_mut") and args and args[0][0] == "closure":
        return inline(facts, args[0], _tuple_args(facts, f, x[2][1], depth, env))
    if "{closure#" in last and c in facts.fns:
        actual = _tuple_args(facts, f, x[2][1], depth, env) if len(x[2]) == 2 else args[1:]
        return inline(facts, ("closure", c, ()), actual)
    return (last,) + tuple(args)


def _tuple_args(facts, f, o, depth, env):
    ds = panics._def_sites(f).get(o[1][0], []) if o[0] in ("c", "m") else []
    if len(ds) == 1 and ds[0][0] == "st" and ds[0][2][2][0] == "agg" and ds[0][2][2][1][0] == "tuple":
        return [render(facts, f, a, depth + 1, env) for a in ds[0][2][2][2]]
    return [render(facts, f, o, depth + 1, env)]


def body_of(facts, name, env=None):
    g = facts.fns.get(name)
    if g is None:
        return ("?", "no body " + name)
    return render(facts, g, ["c", [0]], 0, env)


def inline(facts, clo, actual):
    """term of closure `clo` applied to the actual argument terms"""
    env = {i: a for i, a in enumerate(clo[2])}
    t = body_of(facts, clo[1], env)
    return subst(t, actual)


def subst(t, actual):
    if t[0] == "p" and len(t) == 2 and isinstance(t[1], int):
        return actual[t[1] - 1] if 0 < t[1] <= len(actual) else ("?", "param %d" % t[1])
    if t[0] in ("true", "false", "?", "fn"):
        return t
    if t[0] == "closure":
        return t
    return (t[0],) + tuple(subst(a, actual) for a in t[1:])


def norm(t):
    if not isinstance(t, tuple):
        return t
    if t[0] in ("p", "true", "false", "?", "fn", "closure"):
        return t
    args = [norm(a) for a in t[1:]]
    if t[0] in SYMMETRIC:
        args = sorted(args, key=repr)
    return (t[0],) + tuple(args)


def phi_term(facts, f, o, arity):
    """the formula an operand denotes, applied to parameters 1..arity"""
    t = render(facts, f, o)
    actual = [("p", i + 1) for i in range(arity)]
    if t[0] == "fn":
        return (t[1],) + tuple(actual)
    if t[0] == "closure":
        return inline(facts, t, actual)
    return t


def check(chk, facts):
    rule = "C18.VERIFY"
    n = 0
    for mod in MODS:
        tag = mod.split("::")[1]
        sfx = "_opt" if "symccopt" in mod else ""
        for name, want in sorted(PHI.items()):
            f = facts.fns.get(mod + name + sfx)
            if f is None:
                chk.lost(rule, "%s%s" % (mod, name))
                continue
            chk.functions.add(f.name)
            drv = [(b, t) for b, t in f.calls() if callee(t).startswith(mod) and callee(t).split("::")[-1] == DRIVER[name] + sfx]
            if len(drv) != 1:
                n += 1
                chk.ob(rule, "%s:%s" % (tag, name), False, "%s no longer hands its formula to %s (found %d calls)" % (name, DRIVER[name], len(drv)), where=f.where(), fn=f.name,
                       key="%s:%s:%s:driver" % (rule, tag, name))
                continue
            b, t = drv[0]
            arity = 1 if DRIVER[name] == "verify_evaluate" else 2
            got = phi_term(facts, f, t[2][0], arity)
            ok = norm(got) == norm(want)
            # the policies reach the driver in the builder's own order
            order = [render(facts, f, a) for a in t[2][1:]]
            ord_ok = order == [("p", i + 1) for i in range(len(order))]
            n += 1
            chk.ob(rule, "%s:%s" % (tag, name), ok and ord_ok,
                   "%s asserts not(phi) with phi = %s (definition: %s); arguments passed on in order: %s" % (name, show(got), show(want), ord_ok),
                   where=f.where(t[1].get("l")), fn=f.name, key="%s:%s:%s" % (rule, tag, name), sample={"builder": "%s::%s" % (tag, name), "phi": show(got)})
        # always_allows / always_denies: implies(allow-all, policies) / implies(policies, empty)
        for name, want in (("verify_always_allows", [("allow-all",), ("p", 1)]), ("verify_always_denies", [("p", 1), ("deny-all",)])):
            f = facts.fns.get(mod + name + sfx)
            if f is None:
                chk.lost(rule, "%s%s" % (mod, name))
                continue
            chk.functions.add(f.name)
            drv = [(b, t) for b, t in f.calls() if callee(t).startswith(mod) and callee(t).split("::")[-1] == "verify_implies" + sfx]
            got = [render(facts, f, a) for a in drv[0][1][2][:2]] if len(drv) == 1 else None
            if got:
                got = [("allow-all",) if g[0] in ("allow_all_pset", "allow_all") else ("deny-all",) if g[0] in ("new", "deny_all") else g for g in got]
            n += 1
            chk.ob(rule, "%s:%s" % (tag, name), got == want, "%s = verify_implies(%s) (definition: %s)" % (name, ", ".join(show(g) for g in got) if got else "?", ", ".join(show(w) for w in want)),
                   where=f.where(), fn=f.name, key="%s:%s:%s" % (rule, tag, name), sample={"builder": "%s::%s" % (tag, name), "args": [show(g) for g in got] if got else None})
        # the drivers: asserts = enforce(..) ++ [not(phi(compiled terms))]
        for name, comp in (("verify_evaluate", "compile"), ("verify_evaluate_pair", "compile"), ("verify_is_authorized", "is_authorized")):
            f = facts.fns.get(mod + name + sfx)
            if f is None:
                chk.lost(rule, "%s%s" % (mod, name))
                continue
            chk.functions.add(f.name)
            nots = [(b, t) for b, t in f.calls() if callee(t).split("::")[-1] == "not" and "factory" in callee(t)]
            enf = [(b, t) for b, t in f.calls() if callee(t).split("::")[-1].startswith("enforce")]
            comps = [(b, t) for b, t in f.calls() if callee(t).split("::")[-1].startswith(comp)]
            ok = len(nots) == 1 and bool(enf) and (bool(sfx) or len(comps) == (1 if name == "verify_evaluate" else 2))
            det = ""
            if ok:
                a = render(facts, f, nots[0][1][2][0])
                det = show(a)
                # not( phi(term..) ): a call of the first parameter on the compiled terms, in order
                ok = a[0] in ("call_once", "call", "call_mut") and a[1] == ("p", 1)
            n += 1
            chk.ob(rule, "%s:%s" % (tag, name), ok, "%s asserts the well-formedness constraints and not(phi(compiled terms)): negated term %s" % (name, det or "?"), where=f.where(), fn=f.name,
                   key="%s:%s:%s" % (rule, tag, name))
    chk.floor(rule, "verification-condition builders", n, 28)


def show(t):
    if not isinstance(t, tuple):
        return str(t)
    if t[0] == "p":
        return "t%d" % t[1]
    if t[0] in ("true", "false"):
        return t[0]
    if t[0] == "?":
        return "?(%s)" % t[1]
    if t[0] == "fn":
        return t[1]
    if t[0] == "closure":
        return "closure"
    return "%s(%s)" % (t[0], ", ".join(show(a) for a in t[1:]))


QUERIES = ["never_errors", "always_matches", "never_matches", "matches_equivalent", "matches_implies", "matches_disjoint", "always_allows", "always_denies", "implies", "equivalent", "disjoint"]


def namesake(chk, facts):
    """Every API layer above the builders (check_X, check_X_with_counterexample, their _opt forms, X_asserts) reaches the
    builder of the same query X: a function named after query X calls no check / verify / asserts function of another query."""
    import re
    rule = "C18.NAMESAKE"
    pat = re.compile(r"^(?:check_|verify_)?(%s)(?:_asserts)?(?:_with_counterexample)?(?:_opt)?$" % "|".join(QUERIES))

    def q_of(path):
        segs = [s for s in path.split("::") if not s.startswith("{")]
        m = pat.match(segs[-1])
        return m.group(1) if m else None
    n = 0
    per_query = {}
    for name in sorted(facts.fns.keys()):
        if not name.startswith("cedar_policy_symcc::") or "::verifier::" in name:
            continue
        own = q_of(name)
        if not own:
            continue
        f = facts.fns[name]
        called = []
        for b, t in f.calls():
            c = callee(t)
            if not c.startswith("cedar_policy_symcc::"):
                continue
            seg = [s for s in c.split("::") if not s.startswith("{")][-1]
            if seg in QUERIES and "::factory::" in c:
                continue        # the factory's own `implies` / ... connectives
            y = q_of(c)
            if y:
                called.append((seg, y, t[1].get("l")))
        if not called:
            continue
        chk.functions.add(f.name)
        for seg, y, line in called:
            n += 1
            per_query.setdefault(own, 0)
            per_query[own] += 1
            chk.ob(rule, "%s->%s" % (short(name).split("::")[-1] if "{closure" not in name.split("::")[-1] else [s for s in name.split("::") if not s.startswith("{")][-1], seg), y == own,
                   "%s (query %s) calls %s (query %s)" % ([s for s in name.split("::") if not s.startswith("{")][-1], own, seg, y), where=f.where(line), fn=f.name,
                   key="%s:%s:%s" % (rule, [s for s in name.split("::") if not s.startswith("{")][-1], seg),
                   sample={"fn": [s for s in name.split("::") if not s.startswith("{")][-1], "calls": seg} if n % 12 == 0 else None)
    chk.floor(rule, "query hand-offs above the builders", n, 143)
    missing = [q for q in QUERIES if per_query.get(q, 0) < 9]
    chk.ob(rule, "all-queries", not missing, "every query has its 9 API hand-offs (check / with_counterexample / _opt / asserts layers): %s" % (per_query if missing else "yes"), key=rule + ":all")


def _ok_consts(f, region):
    """(kind, value) results written in a region: ('Ok', 1/0), ('Ok', 'None'/'Some'), ('Err', None)"""
    out = []
    for b in sorted(region):
        blk = f.blocks[b]
        if blk["cl"]:
            continue
        for s in blk["st"]:
            if s[0] == "a" and s[2][0] == "agg" and s[2][1][0] == "adt" and str(s[2][1][1]).endswith("result::Result") and s[2][1][2] in ("Ok", "Err"):
                if s[2][1][2] == "Err":
                    out.append(("Err", None))
                    continue
                o = s[2][2][0]
                if o[0] == "k" and "v" in o[1]:
                    out.append(("Ok", o[1]["v"]))
                elif o[0] in ("c", "m"):
                    ds = panics._def_sites(f).get(o[1][0], [])
                    var = [d[2][2][1][2] for d in ds if d[0] == "st" and d[2][2][0] == "agg" and d[2][2][1][0] == "adt" and str(d[2][2][1][1]).endswith("option::Option")]
                    out.append(("Ok", var[0] if len(var) == 1 else "?"))
                else:
                    out.append(("Ok", "?"))
    return out


def unsat_table(chk, facts):
    """How a list of asserts becomes an answer: a constant-false assert means unsatisfiable (the property holds), all
    constant-true means satisfiable, otherwise the solver's Unsat / Sat / Unknown become true / false / error
    (None / Some(counterexample) / error for the counterexample variant)."""
    from lib import cfg, protocol
    rule = "C18.TABLE.unsat"
    n = 0
    for fname, yes, no in (("check_unsat_asserts", 1, 0), ("check_sat_asserts", "None", "Some")):
        hits = [x for x in facts.fns.keys() if x.startswith("cedar_policy_symcc::symcc::SymCompiler::") and x.endswith("::%s::{closure#0}" % fname)]
        if len(hits) != 1:
            chk.lost(rule, "SymCompiler::%s (async body)" % fname, "found %d" % len(hits))
            continue
        f = facts.fns[hits[0]]
        chk.functions.add(f.name)
        for adaptor, const, want in (("any", "false", yes), ("all", "true", no)):
            calls = [(b, t) for b, t in f.calls() if callee(t).endswith("iter::Iterator>::" + adaptor) or callee(t).endswith("Iterator::" + adaptor)]
            ok = False
            det = "no `%s` shortcut" % adaptor
            if len(calls) == 1:
                b, t = calls[0]
                # the predicate: assert == <const>.into()
                pred = render(facts, f, t[2][1])
                body = body_of(facts, pred[1]) if pred[0] == "closure" else ("?", "not a closure")
                pred_ok = body[0] == "eq" and (("into", (const,)) in body[1:] or (const,) in body[1:])
                edges = protocol.bool_edges(f, b)
                res = []
                for sb, m in edges:
                    reg = cfg.reachable(f, m[True], cut_blocks={sb}) - cfg.reachable(f, m[False], cut_blocks={sb})
                    res = _ok_consts(f, reg)
                ok = pred_ok and res == [("Ok", want)]
                det = "`%s(assert == %s)` (predicate %s) answers %s" % (adaptor, const, show(body), res)
            n += 1
            chk.ob(rule, "%s:%s-%s" % (fname, adaptor, const), ok, "%s; definition: %s" % (det, [("Ok", want)]), where=f.where(calls[0][1][1].get("l") if calls else None), fn=f.name,
                   key="%s:%s:%s" % (rule, fname, adaptor), sample={"fn": fname, "shortcut": adaptor, "detail": det})
        # the solver's answer
        sw = [b for b, blk in enumerate(f.blocks) if not blk["cl"] and blk["t"][0] == "sw" and panics.cond_desc(f, b).startswith(("disc:Decision<", "disc:DecisionWithModel<"))]
        ok = False
        det = "no match on the solver's decision"
        if len(sw) == 1:
            t = f.blocks[sw[0]]["t"]
            adt = [a for k, a in facts.adts.items() if k.endswith("solver::DecisionWithModel" if fname == "check_sat_asserts" else "solver::Decision")]
            names = [v["name"] for v in adt[0]["variants"]] if adt else []
            reach = {v: cfg.reachable(f, tg) for v, tg in t[2]}
            common = set.intersection(*reach.values()) if reach else set()
            got = {}
            for v, tg in t[2]:
                got[names[v] if isinstance(v, int) and v < len(names) else str(v)] = _ok_consts(f, reach[v] - common)[:1]
            want_t = {"Unsat": [("Ok", yes)], "Sat": [("Ok", no)], "Unknown": [("Err", None)]}
            ok = got == want_t
            det = "solver decision -> %s" % got
        n += 1
        chk.ob(rule, "%s:solver" % fname, ok, "%s; definition: Unsat -> %s, Sat -> %s, Unknown -> error" % (det, yes, no), where=f.where(), fn=f.name, key="%s:%s:solver" % (rule, fname),
               sample={"fn": fname, "detail": det})
    chk.floor(rule, "answer-table rows", n, 6)
