"""C04.TC — the closure / acyclicity checks themselves are complete.

compute_tc always runs the SCC-based closure and, when asked, returns the self-loop check's verdict; repair_tc recomputes
exactly the nodes to fix and checks them; enforce_tc_and_dag returns enforce_tc's error and otherwise the self-loop check;
enforce_tc visits every (entity, parent, grandparent) triple (no filtered iteration) and a missing edge is an error;
the self-loop checks visit every node (all values / all nodes to check) and a self edge is an error.
"""
from lib import cfg, protocol
from lib.facts import callee
from lib.rulelib import get_fn, short
from lib.slice import leaf_producers

TC = "cedar_policy_core::transitive_closure::"
FILTERS = ("filter", "filter_map", "take", "skip", "take_while", "skip_while", "step_by", "nth", "last", "find")


def _returns_result_of(f, suffix):
    """blocks where `_0` is assigned the result of a call to `suffix` (directly or by move)"""
    out = []
    for b, t in f.calls():
        if callee(t).endswith(suffix):
            if t[3] == [0]:
                out.append(b)
            else:
                for bb, s in f.stmts():
                    if s[0] == "a" and s[1] == [0] and s[2][0] == "use" and s[2][1][0] in ("c", "m") and s[2][1][1] == t[3]:
                        out.append(b)
    return out


def _all_loops_unfiltered(f):
    return sorted({callee(t).split("::")[-1] for _, t in f.calls() if callee(t).split("::")[-1] in FILTERS})


def check(chk, facts):
    rule = "C04.TC"
    # compute_tc
    f = get_fn(chk, facts, rule, TC + "compute_tc")
    if f is not None:
        cy = [b for b, t in f.calls() if callee(t).endswith("transitive_closure::cyclic_tc")]
        rets = set(cfg.return_blocks(f))
        ok = bool(cy) and cfg.must_pass(f, 0, rets, set(cy))
        chk.ob(rule, "compute_tc:closure", ok, "compute_tc runs the SCC-based closure on every path: %s" % ok, where=f.where(), fn=f.name)
        dag = _returns_result_of(f, "transitive_closure::enforce_dag_from_tc")
        guarded = False
        for b in dag:
            for d, taken in cfg.guard_edges(f, b):
                sw = f.blocks[d]["t"]
                if sw[1][0] in ("c", "m") and "param:2" in leaf_producers(f, sw[1]) and [v for v, _ in taken] == ["else"]:
                    guarded = True
        chk.ob(rule, "compute_tc:dag", bool(dag) and guarded, "with enforce_dag the verdict of the self-loop check is returned: %s" % (bool(dag) and guarded), where=f.where(), fn=f.name)
    f = get_fn(chk, facts, rule, TC + "repair_tc")
    if f is not None:
        ci = [(b, t) for b, t in f.calls() if callee(t).endswith("transitive_closure::compute_tc_internal")]
        ok = bool(ci) and cfg.must_pass(f, 0, set(cfg.return_blocks(f)), {b for b, _ in ci})
        src = set()
        for b, t in ci:
            src |= leaf_producers(f, t[2][0], extra_transparent=("::iter", "::cloned", "::into_iter", "::copied"))
        from_fix = "param:1" in src
        dag = _returns_result_of(f, "transitive_closure::enforce_dag_from_tc_for") + _returns_result_of(f, "transitive_closure::enforce_dag_from_tc")
        chk.ob(rule, "repair_tc", ok and from_fix and bool(dag), "repair_tc recomputes the closure of exactly nodes_to_fix on every path (%s, source %s) and returns the self-loop verdict when asked (%s)" %
               (ok, sorted(short(x) for x in src)[:3], bool(dag)), where=f.where(), fn=f.name)
        # `seen` = all keys not to fix
        cl = facts.closures_of(f.name)
        neg = any(s[0] == "a" and s[2][0] == "un" and s[2][1] == "Not" for c_ in cl for _, s in c_.stmts()) and any(callee(t).endswith("::contains") for c_ in cl for _, t in c_.calls())
        chk.ob(rule, "repair_tc:seen", neg, "the nodes assumed correct are exactly those NOT in nodes_to_fix (negated contains in the filter): %s" % neg, where=f.where(), fn=f.name)
    f = get_fn(chk, facts, rule, TC + "compute_tc_internal")
    if f is not None:
        aa = [(b, t) for b, t in f.calls() if callee(t).endswith("transitive_closure::add_ancestors")]
        lp = protocol.loop_of(f, aa[0][0]) if aa else None
        ok = False
        det = "no add_ancestors in a loop over the node ids"
        if lp:
            head, some = lp
            # an iteration may skip add_ancestors only on the `already seen` edge (insert returned false) with detect_cycles false
            ins = [(b, t) for b, t in f.calls() if callee(t).endswith("HashSet::<T, S, A>::insert")]
            cut = set()
            for b, t in ins:
                for sb, m in protocol.bool_edges(f, b):
                    cut.add((sb, m[False]))
            r = cfg.reachable(f, some, cut_blocks={b for b, _ in aa}, cut_edges=cut)
            ok = head not in r and bool(ins)
            det = "every node id is expanded unless it was already seen: %s" % ok
        chk.ob(rule, "compute_tc_internal", ok, det, where=f.where(), fn=f.name)
    f = get_fn(chk, facts, rule, TC + "add_ancestors")
    if f is not None:
        # a direct ancestor without a record of its own is skipped *alone*: the edges inherited from the other ancestors may not be
        # gathered through an all-or-nothing collection (`collect::<Option<_>>()` / `collect::<Result<_, _>>()` in a function that
        # returns nothing can only be followed by dropping everything when one lookup fails)
        aon = []
        for g in (f,) + tuple(facts.closures_of(f.name)):
            for b, t in g.calls():
                if callee(t).split("::")[-1] in ("collect", "from_iter", "try_collect", "collect_vec", "sum", "product"):
                    ty = g.locals[t[3][0]]
                    if ty.startswith(("std::option::Option<", "core::option::Option<", "std::result::Result<", "core::result::Result<")):
                        aon.append(ty[:70])
        chk.ob(rule, "add_ancestors:per-ancestor", not aon,
               "add_ancestors inherits the edges of each recorded ancestor on its own (no all-or-nothing collection over the ancestors)" if not aon
               else "add_ancestors gathers inherited edges through an all-or-nothing collection %s: one ancestor without a record drops the edges inherited from all the others" % aon,
               where=f.where(), fn=f.name, sample={"all_or_nothing": aon})
    f = get_fn(chk, facts, rule, TC + "enforce_tc_and_dag")
    if f is not None:
        et = [(b, t) for b, t in f.calls() if callee(t).endswith("transitive_closure::enforce_tc")]
        ed = _returns_result_of(f, "transitive_closure::enforce_dag_from_tc")
        ok1 = bool(et) and cfg.must_pass(f, 0, set(cfg.return_blocks(f)), {b for b, _ in et})
        # the dag check is reached only when enforce_tc was ok; otherwise enforce_tc's own result is returned
        ret_et = False
        for b, t in et:
            for bb, s in f.stmts():
                if s[0] == "a" and s[1] == [0] and s[2][0] == "use" and s[2][1][0] in ("c", "m") and s[2][1][1] == t[3]:
                    ret_et = True
        chk.ob(rule, "enforce_tc_and_dag", ok1 and bool(ed) and ret_et, "enforce_tc runs on every path (%s); its error is returned as is (%s); otherwise the self-loop verdict is (%s)" % (ok1, ret_et, bool(ed)),
               where=f.where(), fn=f.name)
    f = get_fn(chk, facts, rule, TC + "enforce_tc")
    if f is not None:
        he = [(b, t) for b, t in f.calls() if callee(t).endswith("::has_edge_to")]
        oks = protocol.ok_blocks(f)
        ok = bool(he)
        for b, t in he:
            o, _d = protocol.honor_bool(f, b, True, oks)
            # the false edge must construct the error; the true edge continues: honor_bool judges reachability of Ok from the false edge,
            # which is legitimate only through the loop — so require instead that the false edge reaches an Err construction without passing the loop heads
            errs = {bb for bb, s in f.stmts() if s[0] == "a" and s[2][0] == "agg" and s[2][1][0] == "adt" and s[2][1][2] == "Err"}
            e_ok = False
            for sb, m in protocol.bool_edges(f, b):
                nexts = {bb for bb, tt_ in f.calls() if callee(tt_).endswith("::next")}
                r = cfg.reachable(f, m[False], cut_blocks=nexts)
                e_ok = bool(r & errs) and not (r & oks)
            ok &= e_ok
        n_loops = len([1 for _, t in f.calls() if callee(t).endswith("::next")])
        fl = _all_loops_unfiltered(f)
        # which edges are walked: ALL out-going edges (direct and already-recorded indirect ones) at both levels
        walked = sorted(callee(t).split("::")[-1] for _, t in f.calls() if "TCNode" in callee(t) and callee(t).split("::")[-1] in ("out_edges", "direct_edges", "indirect_edges", "parents", "ancestors"))
        edges_ok = walked == ["out_edges", "out_edges"]
        chk.ob(rule, "enforce_tc:edges", edges_ok, "enforce_tc walks %s (required: out_edges of the entity and out_edges of each of those — every recorded ancestor's ancestors must be recorded too)" % walked,
               where=f.where(), fn=f.name, key="%s:enforce_tc:edges:%s" % (rule, ",".join(walked)))
        chk.ob(rule, "enforce_tc", ok and n_loops >= 3 and not fl, "a missing (entity, grandparent) edge is an error (%s); three nested unfiltered loops (%d next() sites, filters %s)" % (ok, n_loops, fl),
               where=f.where(), fn=f.name)
    for nm, test in (("enforce_dag_from_tc", "::contains"), ("enforce_dag_from_tc_for", "::has_edge_to")):
        f = get_fn(chk, facts, rule, TC + nm)
        if f is None:
            continue
        ts = [(b, t) for b, t in f.calls() if callee(t).endswith(test)]
        errs = {bb for bb, s in f.stmts() if s[0] == "a" and s[2][0] == "agg" and s[2][1][0] == "adt" and s[2][1][2] == "Err"}
        oks = protocol.ok_blocks(f)
        ok = bool(ts)
        for b, t in ts:
            e_ok = False
            for sb, m in protocol.bool_edges(f, b):
                nexts = {bb for bb, tt_ in f.calls() if callee(tt_).endswith("::next")}
                r = cfg.reachable(f, m[True], cut_blocks=nexts)
                e_ok = bool(r & errs) and not (r & oks)
            ok &= e_ok
        lp = protocol.loop_of(f, ts[0][0]) if ts else None
        early = True
        if lp:
            head, some = lp
            early = bool(cfg.reachable(f, some, cut_blocks={head}) & oks)
        fl = _all_loops_unfiltered(f)
        chk.ob(rule, nm, ok and not early and not fl, "a self edge is an error (%s), Ok only after all nodes were visited (%s), unfiltered iteration (%s)" % (ok, not early, not fl), where=f.where(), fn=f.name)
