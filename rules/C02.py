"""C02 — expression evaluation: checked arithmetic, short-circuit order,
operator dispatch, literal folding at construction.

Declines the value-level clauses (==, set algebra, like, in, attribute access,
error classes).
"""
from lib import tt, shape, cfg
from lib.rulelib import AtomOracle, arg_syms, get_fn, res_calls, short, syms, adts_in, walk
from lib.facts import callee
from rules import arith, shortcircuit
from rules import C20 as c20

EV = "cedar_policy_core::evaluator::"
EXPRKIND = "cedar_policy_core::ast::expr::ExprKind"


def variant_index(facts, adt, name):
    r = facts.adts.get(adt)
    if r is None:
        return None
    for i, v in enumerate(r["variants"]):
        if v["name"] == name:
            return i
    return None


def arith_table(chk, facts):
    rule = "C02.ARITH.table"
    f = get_fn(chk, facts, rule, EV + "binary_arith")
    BOP = "cedar_policy_core::ast::ops::BinaryOp"
    want = {"Add": "checked_add", "Sub": "checked_sub", "Mul": "checked_mul"}
    n = 0
    if f is not None:
        for opname, meth in want.items():
            vi = variant_index(facts, BOP, opname)
            for outcome in ("Some", "None"):
                def res_disc(v, adt, outcome=outcome):
                    if adt.endswith("ControlFlow"):
                        return 0
                    if adt.endswith("Option") and "checked_" in v[1]:
                        return 1 if outcome == "Some" else 0
                    return None
                o = AtomOracle(discs={("arg1",): vi}, res_disc=res_disc)
                try:
                    ret, trace = tt.Interp(f, o).run(arg_syms(f))
                except tt.Undecided as e:
                    chk.ob(rule, "%s/%s" % (opname, outcome), False, "undecided: %s" % e, where=f.where(), fn=f.name)
                    continue
                ar = [(c, a, l) for c, a, l, _ in trace if c.startswith("core::num::<impl i64>::")]
                ok = len(ar) == 1 and ar[0][0].endswith("::" + meth)
                order = False
                if ar:
                    a0, a1 = ar[0][1][0], ar[0][1][1]
                    order = ("arg2",) in syms(a0) and ("arg3",) not in syms(a0) and ("arg3",) in syms(a1) and ("arg2",) not in syms(a1) \
                        and any(c.endswith("get_as_long") for c in res_calls(a0)) and any(c.endswith("get_as_long") for c in res_calls(a1))
                if outcome == "Some":
                    res_ok = ret[0] == "adt" and ret[2] == "Ok" and any("checked_" in c for c in res_calls(ret))
                    what = "Ok(<the checked result>)"
                else:
                    res_ok = ret[0] == "adt" and ret[2] == "Err" and any(a.endswith("IntegerOverflowError") for a, _ in adts_in(ret))
                    what = "Err(IntegerOverflowError)"
                n += 1
                chk.ob(rule, "binary_arith:%s/%s" % (opname, outcome), ok and order and res_ok,
                       "op %s computes with %s (required %s) on (long(arg1), long(arg2)) in that order: %s; on %s the result is %s: %s" % (
                           opname, [short(c) for c, _, _ in ar], meth, order, outcome, what, res_ok),
                       where=f.where(ar[0][2] if ar else None), fn=f.name,
                       sample={"op": opname, "checked_result": outcome, "arith": [c.split("::")[-1] for c, _, _ in ar], "operand_order_ok": order})
    g = get_fn(chk, facts, rule, EV + "unary_app")
    UOP = "cedar_policy_core::ast::ops::UnaryOp"
    if g is not None:
        vi = variant_index(facts, UOP, "Neg")
        for outcome in ("Some", "None"):
            def res_disc(v, adt, outcome=outcome):
                if adt.endswith("ControlFlow"):
                    return 0
                if adt.endswith("Option") and "checked_" in v[1]:
                    return 1 if outcome == "Some" else 0
                return None
            try:
                ret, trace = tt.Interp(g, AtomOracle(discs={("arg1",): vi}, res_disc=res_disc)).run(arg_syms(g))
            except tt.Undecided as e:
                chk.ob(rule, "unary_app:Neg/%s" % outcome, False, "undecided: %s" % e, where=g.where())
                continue
            ar = [(c, a, l) for c, a, l, _ in trace if c.startswith("core::num::<impl i64>::")]
            ok = len(ar) == 1 and ar[0][0].endswith("::checked_neg")
            if outcome == "Some":
                res_ok = ret[0] == "adt" and ret[2] == "Ok" and any("checked_neg" in c for c in res_calls(ret))
            else:
                res_ok = ret[0] == "adt" and ret[2] == "Err" and any(a.endswith("IntegerOverflowError") for a, _ in adts_in(ret))
            n += 1
            chk.ob(rule, "unary_app:Neg/%s" % outcome, ok and res_ok, "Neg computes with %s; result %s" % ([short(c) for c, _, _ in ar], res_ok),
                   where=g.where(ar[0][2] if ar else None), fn=g.name, sample={"op": "Neg", "checked_result": outcome})
        # Not: true -> false, false -> true
        vi = variant_index(facts, UOP, "Not")
        for b in (0, 1):
            def res_disc(v, adt):
                if adt.endswith("ControlFlow"):
                    return 0
                return None

            def res_bool(v, b=b):
                if v[0] == "res" and any(c.endswith("get_as_bool") for c in res_calls(v)):
                    return b
                return None
            try:
                ret, trace = tt.Interp(g, AtomOracle(discs={("arg1",): vi}, res_disc=res_disc, res_bool=res_bool)).run(arg_syms(g))
            except tt.Undecided as e:
                chk.ob(rule, "unary_app:Not/%s" % b, False, "undecided: %s" % e, where=g.where())
                continue
            consts = [x[1] for x in walk(ret) if x[0] == "int"]
            n += 1
            chk.ob(rule, "unary_app:Not/%s" % bool(b), ret[0] == "adt" and ret[2] == "Ok" and consts == [0 if b else 1],
                   "!%s evaluates to constant %s" % (bool(b), consts), where=g.where(), fn=g.name, sample={"op": "Not", "arg": bool(b), "result": consts})
    chk.floor(rule, "rows", n, 10)


def fold_table(chk, facts):
    """ast::ExprBuilder::{and, or} fold two boolean literals, otherwise build And/Or(e1, e2) in order."""
    rule = "C02.TABLE.fold"
    LIT = variant_index(facts, EXPRKIND, "Lit")
    BOOL = variant_index(facts, "cedar_policy_core::ast::literal::Literal", "Bool")
    n = 0
    for meth, fn_op in (("and", lambda a, b: a and b), ("or", lambda a, b: a or b)):
        name = "<cedar_policy_core::ast::expr::ExprBuilder<T> as cedar_policy_core::expr_builder::ExprBuilder>::" + meth
        f = get_fn(chk, facts, rule, name)
        if f is None:
            continue
        for l1 in (True, False):
            for l2 in (True, False):
                for b1 in ((0, 1) if l1 and l2 else (0,)):
                    for b2 in ((0, 1) if l1 and l2 else (0,)):
                        class O(AtomOracle):
                            def discriminant(self, path, adt):
                                if adt.endswith("ExprKind"):
                                    lit = l1 if path[0] == "arg2" else l2
                                    return LIT if lit else (LIT + 1)
                                if adt.endswith("Literal"):
                                    return BOOL
                                return None

                            def switch_value(self, v, interp):
                                if v[0] == "sym" and v[1][-2:] == ("as Bool", "0"):
                                    return b1 if v[1][0] == "arg2" else b2
                                return None
                        try:
                            ret, trace = tt.Interp(f, O()).run(arg_syms(f))
                        except tt.Undecided as e:
                            chk.ob(rule, "%s:%s" % (meth, (l1, l2, b1, b2)), False, "undecided: %s" % e, where=f.where())
                            continue
                        wk = [a for c, a, _, _ in trace if c.endswith("with_expr_kind")]
                        kind = wk[0][1] if wk else ("unk",)
                        n += 1
                        if l1 and l2:
                            want = 1 if fn_op(bool(b1), bool(b2)) else 0
                            got = None
                            if kind[0] == "adt" and kind[2] == "Lit" and kind[4] and kind[4][0][0] == "adt" and kind[4][0][2] == "Bool":
                                x = kind[4][0][4][0]
                                if x[0] == "int":
                                    got = x[1]
                                elif x[0] == "sym" and x[1][-2:] == ("as Bool", "0"):
                                    got = b1 if x[1][0] == "arg2" else b2
                            chk.ob(rule, "%s:lit(%s),lit(%s)" % (meth, bool(b1), bool(b2)), got == want,
                                   "%s of literals %s, %s folds to %s; required %s" % (meth, bool(b1), bool(b2), got, want),
                                   where=f.where(), fn=f.name, sample={"builder": meth, "b1": bool(b1), "b2": bool(b2), "folded": got})
                        else:
                            ok = kind[0] == "adt" and kind[2] == {"and": "And", "or": "Or"}[meth]
                            order = False
                            if ok:
                                order = syms(kind[4][0]) == {("arg2",)} and syms(kind[4][1]) == {("arg3",)}
                            chk.ob(rule, "%s:lit1=%s,lit2=%s" % (meth, l1, l2), ok and order,
                                   "%s with a non-literal operand builds %s with (left,right) = (e1,e2): %s" % (meth, kind[2] if kind[0] == "adt" else kind[0], order),
                                   where=f.where(), fn=f.name, sample={"builder": meth, "e1_literal": l1, "e2_literal": l2, "node": kind[2] if kind[0] == "adt" else None})
    chk.floor(rule, "rows", n, 14)


def short_circuit(chk, facts):
    rule = "C02.GUARD.shortcircuit"
    f = get_fn(chk, facts, rule, EV + "Evaluator::partial_interpret_internal")
    total = 0
    RES = variant_index(facts, "cedar_policy_core::ast::partial_value::PartialValue", "Residual")
    if f is not None and RES is not None:
        sws = [s for s in shape.variant_switches(f, "ast::expr::ExprKind")]
        # the top-level match: the switch with most arms
        sws.sort(key=lambda s: -len(s[2]))
        if not sws:
            chk.lost(rule, "match on ExprKind in partial_interpret_internal")
        else:
            b, scrut, arms, other = sws[0]
            for node, first, later in (("And", "And.left", {"And.right": True}), ("Or", "Or.left", {"Or.right": False})):
                vi = variant_index(facts, EXPRKIND, node)
                if vi not in arms:
                    chk.lost(rule, "arm %s" % node)
                    continue
                region = shape.arm_region(f, arms[vi])
                L = shape.Labels(f, region, shape.variant_field_seed("ast::expr::ExprKind"))
                n, nf = shortcircuit.check(chk, rule, f, region, L, "evaluator::Evaluator::partial_interpret", 1, first, later,
                                           "partial_value::PartialValue", RES, node=node)
                chk.ob(rule, "%s:instances" % node, n >= 2 and nf >= 1,
                       "%s arm: %d evaluation(s) of the right operand (residual path and full path), %d of the left" % (node, n, nf),
                       where=f.where(), fn=f.name)
                total += n
                # a non-boolean right operand always surfaces: get_as_bool is applied to the right value
                gb = [(bb, t) for bb, t in f.calls() if bb in region and callee(t).endswith("get_as_bool")
                      and later and list(later)[0] in L.operand_labels(t[2][0])]
                chk.ob(rule, "%s:right-boolean-check" % node, len(gb) >= 1,
                       "%s arm: the evaluated right operand is projected with get_as_bool (%d site(s)), so a non-boolean surfaces" % (node, len(gb)),
                       where=f.where(gb[0][1][1].get("l") if gb else None), fn=f.name)
    g = get_fn(chk, facts, rule, EV + "Evaluator::eval_if")
    if g is not None and RES is not None:
        L = shape.Labels(g, None, None, param_labels={2: {"If.test"}, 3: {"If.then"}, 4: {"If.else"}})
        n, nf = shortcircuit.check(chk, rule, g, None, L, "evaluator::Evaluator::partial_interpret", 1, "If.test",
                                   {"If.then": True, "If.else": False}, "partial_value::PartialValue", RES, node="If")
        chk.ob(rule, "If:instances", n >= 4 and nf >= 1, "eval_if: %d guarded branch evaluations, %d test evaluations" % (n, nf), where=g.where(), fn=g.name)
        total += n
        # the If arm hands (test, then, else) to eval_if in that order
        if f is not None:
            sws = sorted(shape.variant_switches(f, "ast::expr::ExprKind"), key=lambda s: -len(s[2]))
            if sws:
                vi = variant_index(facts, EXPRKIND, "If")
                region = shape.arm_region(f, sws[0][2][vi])
                L2 = shape.Labels(f, region, shape.variant_field_seed("ast::expr::ExprKind"))
                ok = False
                for bb, t in f.calls():
                    if bb in region and callee(t).endswith("Evaluator::eval_if"):
                        ls = [L2.operand_labels(o) for o in t[2]]
                        ok = ls[1] == {"If.test_expr"} and ls[2] == {"If.then_expr"} and ls[3] == {"If.else_expr"}
                chk.ob(rule, "If:argument-order", ok, "the If arm passes (test_expr, then_expr, else_expr) to eval_if in order: %s" % ok, where=f.where(), fn=f.name)
    # TPE evaluator: same discipline over Residual
    h = get_fn(chk, facts, rule, "cedar_policy_core::tpe::evaluator::Evaluator::interpret")
    PART = variant_index(facts, "cedar_policy_core::tpe::residual::Residual", "Partial")
    RK = "cedar_policy_core::tpe::residual::ResidualKind"
    if h is not None and PART is not None:
        sws = sorted(shape.variant_switches(h, "tpe::residual::ResidualKind"), key=lambda s: -len(s[2]))
        if not sws:
            chk.lost(rule, "match on ResidualKind in tpe interpret")
        else:
            arms = sws[0][2]
            for node, first, later in (("And", "And.left", {"And.right": True}), ("Or", "Or.left", {"Or.right": False}),
                                       ("If", "If.test_expr", {"If.then_expr": True, "If.else_expr": False})):
                vi = variant_index(facts, RK, node)
                if vi not in arms:
                    chk.lost(rule, "tpe arm %s" % node)
                    continue
                region = shape.arm_region(h, arms[vi])
                L = shape.Labels(h, region, shape.variant_field_seed("tpe::residual::ResidualKind"))
                n, nf = shortcircuit.check(chk, rule, h, region, L, "tpe::evaluator::Evaluator::interpret", 1, first, later,
                                           "tpe::residual::Residual", PART, node="tpe." + node)
                chk.ob(rule, "tpe.%s:instances" % node, n >= 2 and nf >= 1, "tpe %s arm: %d guarded evaluations of later operands, %d of the first" % (node, n, nf),
                       where=h.where(), fn=h.name)
                total += n
    chk.floor(rule, "guarded operand evaluations", total, 15)


def set_tables(chk, facts):
    """ast::value::Set keeps a fast all-literal representation next to the authoritative one.
    Which answers may be given WITHOUT consulting the authoritative set follows from the
    invariant `fast.is_some() <=> every element is a literal` (spec derived here, not copied):
      is_subset(self, other): constant false is sound only when self has a non-literal and other is all-literal;
      is_disjoint: no constant answer is sound (mixed sets can still share literals);
      contains(v): constant false is sound only when the set is all-literal and v is not a literal."""
    rule = "C02.TABLE.set"
    SET = "cedar_policy_core::ast::value::Set::"
    n = 0
    for op, other_kind in (("is_subset", "set"), ("is_disjoint", "set"), ("contains", "value")):
        f = get_fn(chk, facts, rule, SET + op)
        if f is None:
            continue
        for s_fast in (True, False):
            for o_fast in (True, False):
                class O(AtomOracle):
                    def discriminant(self, path, adt):
                        if adt.endswith("Option") and path[-1:] == ("fast",):
                            fast = s_fast if path[0] == "arg1" else o_fast
                            return 1 if fast else 0
                        if adt.endswith("ValueKind"):
                            return 0 if o_fast else 1      # Lit is variant 0
                        return None
                try:
                    ret, trace = tt.Interp(f, O()).run(arg_syms(f))
                except tt.Undecided as e:
                    chk.ob(rule, "%s:%s,%s" % (op, s_fast, o_fast), False, "undecided: %s" % e, where=f.where(), fn=f.name)
                    continue
                n += 1
                if ret[0] == "int":
                    const = bool(ret[1])
                    if op == "is_subset":
                        sound = (not s_fast) and o_fast and const is False
                    elif op == "is_disjoint":
                        sound = False
                    else:
                        sound = s_fast and (not o_fast) and const is False
                    chk.ob(rule, "%s:self_all_literal=%s,%s=%s" % (op, s_fast, "other_all_literal" if other_kind == "set" else "value_is_literal", o_fast), sound,
                           "%s answers the constant %s without looking at the elements; %s" % (op, const, "sound by the all-literal invariant" if sound else
                                                                                               "NOT implied by the invariant (a mixed set can still share / contain literal elements)"),
                           where=f.where(), fn=f.name, key="%s:%s:%s:%s" % (rule, op, s_fast, o_fast), sample={"op": op, "self_fast": s_fast, "other_fast": o_fast, "answer": const})
                else:
                    cs = [c for c in res_calls(ret)]
                    fld = {p[1] for p in syms(ret) if len(p) > 1}
                    if s_fast and o_fast:
                        ok = fld == {"fast"} or ("fast" in fld and other_kind == "value")
                    else:
                        ok = "authoritative" in fld and (not s_fast or "fast" not in fld or True)
                        # a set with a non-literal must be answered from the authoritative representation
                        if (not s_fast) and "authoritative" not in fld:
                            ok = False
                    a1 = [p for p in syms(ret) if p[0] == "arg1"]
                    chk.ob(rule, "%s:self_all_literal=%s,%s=%s" % (op, s_fast, "other_all_literal" if other_kind == "set" else "value_is_literal", o_fast), ok and bool(a1),
                           "%s is computed by %s over field(s) %s" % (op, [c.split("::")[-1] for c in cs][:2], sorted(fld)),
                           where=f.where(), fn=f.name, key="%s:%s:%s:%s" % (rule, op, s_fast, o_fast), sample={"op": op, "self_fast": s_fast, "other_fast": o_fast, "computed_over": sorted(fld)})
    chk.floor(rule, "rows", n, 12)


def run(chk, facts, tier):
    facts.load_crate("cedar_policy_core.lib")
    chk.explanation = (
        "Static decision of four structural clauses of expression evaluation on the current MIR: (ARITH.table) binary_arith/unary_app map Add/Sub/Mul/Neg to "
        "i64::checked_add/sub/mul/neg on (long(arg1), long(arg2)) in that order, Some -> Ok(result), None -> Err(IntegerOverflowError), and Not flips the boolean; "
        "(ARITH.discipline) value-semantics modules contain no raw / wrapping / saturating 64-bit arithmetic beyond the reviewed table and no checked step disappears; "
        "(GUARD.shortcircuit) in the evaluator (and the TPE evaluator) every evaluation of the right operand of && / || and of an if-branch is control-dependent on the "
        "left/test operand being a residual or having the required boolean value, the first operand is evaluated first, and the evaluated right operand passes get_as_bool; "
        "(TABLE.fold) ExprBuilder::and/or fold two boolean literals to b1&&b2 / b1||b2 and otherwise build And/Or(e1,e2) in order; (GUARD.dispatch) callers of "
        "binary_relation/binary_arith restrict the operator; (TABLE.binop / TABLE.unop) each of the 12 binary and 3 unary operators is evaluated by the primitive its "
        "definition names (contains / is_subset with the operands swapped / negated is_disjoint / eval_in / get_tag / binary_relation / binary_arith; get_as_bool + flip / checked_neg / is_empty) "
        "with each operand value in its own position and no other primitive in that arm. Declines ==, set algebra, like, in, attribute access and error classes (value-level).")
    chk.assumptions = ["MIR at mir-opt-level=0 reflects source control flow", "i64::checked_* behave as documented",
                       "Value::get_as_long / get_as_bool project the payload of the right type or fail with a type error"]
    arith_table(chk, facts)
    arith.check(chk, facts, "C02.ARITH.discipline", ["src/evaluator.rs", "src/ast/value.rs", "src/ast/integer.rs", "src/ast/literal.rs",
                                                     "src/tpe/evaluator.rs", "src/ast/partial_value.rs"], "evaluator")
    short_circuit(chk, facts)
    fold_table(chk, facts)
    set_tables(chk, facts)
    c20.dispatch(chk, facts)
    from rules import c02_ops
    c02_ops.check(chk, facts)
    # a policy's scope is evaluated as the expression the language gives it (shared with C01): `action in []` in the scope
    # means what it means in a condition
    from rules import c01_condition
    c01_condition.check(chk, facts)
