"""C13.RESIDUAL.op — a residual keeps its operator.

Inside the evaluator's dispatch on the binary (unary) operator, every expression builder called in the region of operator X
that fixes an operator by itself (Expr::has_tag, get_tag, is_in, contains, is_eq, less, add, not, neg, ...; read from the
derived builder map) fixes X. (Builders that take the operator as an argument are covered by the field-provenance
rule of C13.RESIDUAL.) A residual rebuilt with a sibling operator answers a different question after substitution.
"""
import re

from lib import hom, shape, panics
from lib.facts import callee
from lib.rulelib import get_fn
from rules.c02_ops import own_region

CORE = "cedar_policy_core::"
EV = CORE + "evaluator::Evaluator::"
AST_BUILDER = CORE + "ast::expr::ExprBuilder<T>"


def check(chk, facts, rule="C13.RESIDUAL.op"):
    f = get_fn(chk, facts, rule, EV + "partial_interpret_internal")
    if f is None:
        return
    bm = hom.builder_map(facts, AST_BUILDER, ("ast::expr::ExprKind",))
    fixed = {}
    for m, b in bm.items():
        mm = re.search(r"op=(BinaryOp|UnaryOp)::([A-Za-z]+)", b.get("sig", "") or "")
        if mm:
            fixed[m] = (mm.group(1), mm.group(2))
    n = 0
    for enum in ("BinaryOp",):
        r = facts.adts.get(CORE + "ast::ops::" + enum)
        sws = sorted(shape.variant_switches(f, "ast::ops::" + enum), key=lambda s: -len(s[2]))
        if not sws or r is None:
            chk.lost(rule, "the evaluator's match on %s" % enum)
            continue
        b, scrut, arms, other = sws[0]
        for vi, tgt in sorted(arms.items()):
            vn = r["variants"][vi]["name"]
            region = own_region(f, "ast::ops::" + enum, b, arms, vi)
            for bb in sorted(region):
                t = f.blocks[bb]["t"]
                if t[0] != "call":
                    continue
                c = callee(t)
                for p in (CORE + "ast::expr::Expr::<T>::", CORE + "ast::expr::Expr::"):
                    if c.startswith(p) and "::" not in c[len(p):]:
                        m = c[len(p):]
                        if m in ("binary_app", "unary_app") and t[2] and t[2][0][0] in ("c", "m"):
                            # operator passed as a literal: `Expr::binary_app(BinaryOp::In, ..)`
                            ds = panics._def_sites(f).get(t[2][0][1][0], [])
                            lit = [d[2][2][1][2] for d in ds if d[0] == "st" and d[2][2][0] == "agg" and d[2][2][1][0] == "adt" and str(d[2][2][1][1]).endswith("ast::ops::" + enum)]
                            if len(ds) == 1 and lit:
                                n += 1
                                chk.ob(rule, "%s:%s(%s)@L%s" % (vn, m, lit[0], t[1].get("l")), lit[0] == vn,
                                       "in the %s arm the residual is rebuilt with Expr::%s(%s::%s, ..)" % (vn, m, enum, lit[0]),
                                       where=f.where(t[1].get("l")), fn=f.name, key="%s:%s:%s:%s" % (rule, vn, m, lit[0]), sample={"arm": vn, "builder": m, "fixes": lit[0]})
                        if m in fixed and fixed[m][0] == enum:
                            n += 1
                            chk.ob(rule, "%s:%s@L%s" % (vn, m, t[1].get("l")), fixed[m][1] == vn,
                                   "in the %s arm the residual is rebuilt with Expr::%s, which fixes the operator %s" % (vn, m, fixed[m][1]),
                                   where=f.where(t[1].get("l")), fn=f.name, key="%s:%s:%s" % (rule, vn, m), sample={"arm": vn, "builder": m, "fixes": fixed[m][1]})
    chk.floor(rule, "operator-fixing residual builders in operator arms", n, 3)
