"""C07 — extension types: overflow discipline and registry agreement.

Decides: (ARITH) arithmetic on extension payloads is checked, or is one of the
reviewed raw sites (table with reasons); (REGISTRY) every registered extension
function NAME is implemented by the operation that NAME denotes (lessThan -> <,
isIpv4 -> is_ipv4, toDays -> to_days, ...) with operands in order, and comparison
methods are registered method-style; (OPERATOR) `<` / `<=` on extension values in
binary_relation use the payload ordering `lt` / `le` for the matching operator, and
operator overloading is enabled exactly for datetime and duration.
Declines accepted string forms, ranges, netmask arithmetic, calendar conversion.
"""
import re

from lib import tt, shape
from lib.facts import callee
from lib.rulelib import AtomOracle, get_fn, short, walk
from rules import arith

EXT = "cedar_policy_core::extensions::"
CMP = {"lessThan": "lt", "lessThanOrEqual": "le", "greaterThan": "gt", "greaterThanOrEqual": "ge"}
CONSTRUCTORS = {"decimal", "ip", "datetime", "duration"}


def snake(name):
    return re.sub(r"(?<!^)(?=[A-Z])", "_", name).lower()


def static_string(facts, static_path):
    """The identifier a `static NAME: LazyLock<Name>` is initialised with."""
    for suffix in ("::{closure#0}",):
        f = facts.fn(static_path + suffix)
        if f is None:
            continue
        for b, s in f.stmts():
            if s[0] == "a" and s[2][0] == "use" and s[2][1][0] == "k" and "s" in s[2][1][1]:
                return s[2][1][1]["s"]
            if s[0] == "a" and s[2][0] == "use" and s[2][1][0] == "k" and "static" in s[2][1][1]:
                # e.g. &'static str constant EXTENSION_NAME
                return "static:" + s[2][1][1]["static"]
        for b, t in f.calls():
            for o in t[2]:
                if o[0] == "k" and "s" in o[1]:
                    return o[1]["s"]
    return None


def registrations(chk, facts, rule, module):
    f = get_fn(chk, facts, rule, EXT + module + "::extension")
    if f is None:
        return []
    try:
        ret, trace = tt.Interp(f, AtomOracle()).run({})
    except tt.Undecided as e:
        chk.ob(rule, module + ":extension", False, "undecided: %s" % e, where=f.where(), fn=f.name)
        return []
    out = []
    for c, args, line, res in trace:
        if not c.startswith("cedar_policy_core::ast::extension::ExtensionFunction::"):
            continue
        kind = c.split("::")[-1]
        if kind in ("new", "name", "style") or len(args) < 3:
            continue
        st = [x[1][0][7:] for x in walk(args[0]) if x[0] == "sym" and x[1] and x[1][0].startswith("static:")]
        style = args[1][2] if args[1][0] == "adt" else None
        impl = [x[1] for x in walk(args[2]) if x[0] in ("fnitem", "closure")]
        out.append({"kind": kind, "static": st[0] if st else None, "style": style, "impl": impl[0] if impl else None, "line": line, "fn": f})
    return out


def impl_ops(facts, impl, depth=2):
    """Last path segments of everything the implementation calls or passes as a function (with operand labels for direct calls)."""
    names = {}
    f = facts.fn(impl)
    if f is None:
        return names
    L = shape.Labels(f, None, None, param_labels={i: {"p%d" % i} for i in range(1, f.nargs + 1)})
    # closures have the environment as _1: their real params start at 2
    bodies = [(f, L)]
    for g in facts.closures_of(impl if f.kind != "Closure" else f.root or impl):
        pass
    for b, t in f.calls():
        c = callee(t)
        names.setdefault(c.split("::")[-1], []).append((c, [L.operand_labels(o) for o in t[2]], t[1].get("l")))
        for o in t[2]:
            if o[0] == "k" and ("fn" in o[1]):
                fp = o[1].get("rf") or o[1]["fn"]
                names.setdefault(fp.split("::")[-1], []).append((fp, [], t[1].get("l")))
    # operations applied inside closures of the implementation (e.g. a fold over a variadic argument list)
    root = impl if f.kind != "Closure" else None
    if root:
        for g in facts.closures_of(root):
            for b, t in g.calls():
                c = callee(t)
                names.setdefault(c.split("::")[-1], []).append((c, [], t[1].get("l")))
    return names


def registry(chk, facts):
    rule = "C07.REGISTRY"
    n = 0
    for module in ("decimal", "ipaddr", "datetime"):
        regs = registrations(chk, facts, rule, module)
        for r in regs:
            name = static_string(facts, r["static"]) if r["static"] else None
            if name and name.startswith("static:"):
                name = {"decimal": "decimal", "ipaddr": "ip"}.get(module, name)
            f = r["fn"]
            inst = "%s:%s" % (module, name or r["static"])
            if not name or not r["impl"]:
                chk.ob(rule, inst, False, "registration at line %s: name %s / implementation %s not resolvable" % (r["line"], name, r["impl"]), where=f.where(r["line"]), fn=f.name)
                continue
            ops = impl_ops(facts, r["impl"])
            impl_f = facts.fn(r["impl"])
            nparams_off = 1 if (impl_f is not None and impl_f.kind == "Closure") else 0
            n += 1
            if name in CONSTRUCTORS:
                ok = r["style"] == "FunctionStyle"
                chk.ob(rule, inst, ok, "constructor %s is registered function-style (%s) and implemented by %s" % (name, r["style"], short(r["impl"])),
                       where=f.where(r["line"]), fn=f.name, sample={"name": name, "style": r["style"], "impl": short(r["impl"])})
                continue
            want = CMP.get(name, snake(name))
            hits = ops.get(want, [])
            order_ok = True
            det = ""
            for c, labs, line in hits:
                if len(labs) >= 2 and r["kind"] in ("binary", "variadic"):
                    a, b = labs[0], labs[1]
                    p1, p2 = "p%d" % (1 + nparams_off), "p%d" % (2 + nparams_off)
                    if r["kind"] == "binary" and not (p1 in a and p2 not in a and p2 in b and p1 not in b):
                        order_ok = False
                        det = "; operands of %s are bound as (%s, %s)" % (want, sorted(a), sorted(b))
            ok = bool(hits) and order_ok and r["style"] == "MethodStyle"
            chk.ob(rule, inst, ok,
                   "`%s` (registered %s-style, %s) is implemented by %s, which %s `%s`%s" % (
                       name, (r["style"] or "?").replace("Style", "").lower(), r["kind"], short(r["impl"]), "applies" if hits else "never applies", want, det),
                   where=f.where(r["line"]), fn=f.name, key="%s:%s:%s" % (rule, module, name),
                   sample={"name": name, "style": r["style"], "impl": short(r["impl"]), "operation": want, "found": bool(hits)})
    chk.floor(rule, "registered extension functions", n, 22)


def operator(chk, facts):
    rule = "C07.OPERATOR"
    f = get_fn(chk, facts, rule, "cedar_policy_core::evaluator::binary_relation")
    if f is not None:
        BOP = facts.adts.get("cedar_policy_core::ast::ops::BinaryOp")
        idx = {v["name"]: i for i, v in enumerate(BOP["variants"])} if BOP else {}
        n = 0
        for opn, want in (("Less", "lt"), ("LessEq", "le")):
            # which closures are selected for this operator: constant-propagate `matches!(op, Less)`
            class O(AtomOracle):
                def discriminant(self, path, adt, opn=opn):
                    if adt.endswith("BinaryOp") and path == ("arg1",):
                        return idx.get(opn)
                    return None
            it = tt.Interp(f, O())
            sel = []
            try:
                it.run({i: ("sym", ("arg%d" % i,)) for i in range(1, f.nargs + 1)})
            except tt.Undecided:
                pass
            # closures assigned on the walked path
            for b in it.path:
                for s in f.blocks[b]["st"]:
                    if s[0] == "a" and s[2][0] == "agg" and s[2][1][0] == "closure":
                        sel.append(s[2][1][1])
            ops = set()
            for c in sel:
                g = facts.fn(c)
                if g is None:
                    continue
                for _, t in g.calls():
                    last = callee(t).split("::")[-1]
                    if last in ("lt", "le", "gt", "ge"):
                        ops.add(last)
                for _, s in g.stmts():
                    if s[0] == "a" and s[2][0] == "bin" and s[2][1] in ("Lt", "Le", "Gt", "Ge"):
                        ops.add(s[2][1].lower())
            n += 1
            chk.ob(rule, "binary_relation:" + opn, ops == {want} and len(sel) >= 2,
                   "operator %s selects %d comparison closure(s) applying %s; required exactly {%s} for both longs and extension values" % (opn, len(sel), sorted(ops), want),
                   where=f.where(), fn=f.name, sample={"op": opn, "closures": len(sel), "comparisons": sorted(ops)})
        chk.floor(rule, "operator rows", n, 2)
    # operator overloading enabled exactly for datetime / duration
    got = {}
    for n_, fnn in ((x, x) for x in facts.fns if x.endswith("::supports_operator_overloading") and "extensions::" in x):
        g = facts.fns[fnn]
        vals = set()
        for b, s in g.stmts():
            if s[0] == "a" and s[1] == [0] and s[2][0] == "use" and s[2][1][0] == "k" and "v" in s[2][1][1]:
                vals.add(s[2][1][1]["v"])
        got[fnn] = vals
    want_true = {k for k in got if "datetime::" in k}
    ok = all((got[k] == {1}) == (k in want_true) for k in got) and len(want_true) >= 2
    chk.ob(rule, "supports_operator_overloading", ok,
           "supports_operator_overloading is `true` exactly for %s (all: %s)" % (sorted(short(k) for k in want_true), {short(k): sorted(v) for k, v in got.items()}),
           sample={short(k): sorted(v) for k, v in got.items()})


def run(chk, facts, tier):
    facts.load_crate("cedar_policy_core.lib")
    chk.explanation = (
        "Static decision of extension-type structure on the current MIR: (ARITH) the multiset of raw / non-checked integer arithmetic in the extension modules is within the "
        "reviewed table (each entry with its reason) and no checked_* step disappears; (REGISTRY) the registration list of each extension() is read off by constant propagation "
        "and every registered NAME is implemented by the operation the name denotes (comparison names -> lt/le/gt/ge; camelCase method names -> the snake_case method), with "
        "operands in declaration order and method style; (OPERATOR) `<`/`<=` in binary_relation select closures applying exactly lt/le, and operator overloading is on exactly "
        "for datetime and duration; (REJECT / FORMS / LIMITS) every place where a constructor rejects its input (error built, with the conditional guards and constants that dominate it), "
        "every regular expression the constructors compile and every named numeric limit they use equals the reviewed inventory tables/c07_rejections.json in both directions - a vanished, "
        "weakened or added check, a changed pattern or limit is reported; (RANGE) interval abstract interpretation of DateTime::to_time: over every path, negative epochs included, the returned time of day lies in [0, one day) and its raw arithmetic cannot overflow; (EXACT) the relational part of the same engine (exact affine forms over the inputs, congruences of remainders, checked_* results followed through `?` / `map`) decides for every input that toTime() is the epoch's non-negative remainder modulo one day, toDate() the start of the epoch's day (None only on overflow), offset() exactly epoch + ms and durationSince() exactly the difference of the epochs. Declines netmask arithmetic, the parsing of datetime / duration / decimal strings into their numeric value and that the reviewed forms are the documented ones beyond the recorded reasons (value-level).")
    chk.assumptions = ["the reviewed reasons in tables/arith.json and tables/c07_rejections.json", "PartialOrd on the payload types is the mathematical order of the represented value",
                       "MIR at mir-opt-level=0 reflects source control flow"]
    arith.check(chk, facts, "C07.ARITH", ["src/extensions/decimal.rs", "src/extensions/datetime.rs", "src/extensions/ipaddr.rs", "src/extensions.rs",
                                          "src/ast/extension.rs", "src/extensions/partial_evaluation.rs"], "extensions")
    registry(chk, facts)
    operator(chk, facts)
    from rules import c07_reject
    c07_reject.check(chk, facts)
    from rules import c07_range
    c07_range.check(chk, facts)
    from rules import c07_exact
    c07_exact.check(chk, facts)
    c07_exact.check_units(chk, facts)
