"""C07.RANGE — interval abstract interpretation (lib/interval.py) of the calendar helpers of the datetime extension.

* `DateTime::to_time` is the implementation of `toTime()`: "the time of day", i.e. the non-negative remainder of the
  instant modulo one day. Whatever the exact value, it lies in [0, one day) for every datetime, negative epochs included;
  the rule derives the interval of the returned `Duration.ms` over all paths and requires it to be within
  [0, 86_400_000 - 1] (the day length is not taken from the code: it is 24*60*60*1000 by definition of the documented unit).
  A result outside that range is not a time of day, so `toTime()` is not exact (necessary condition).
* every arithmetic Assert (overflow, division / remainder by zero) of that function is proved unreachable by the same intervals
  (the raw `rem + DAY` is listed in tables/arith.json with the prose reason "rem is in (-DAY,0) on this branch": this re-proves it).
* informational: how many arithmetic Asserts of the loop-free functions of the three extension modules are discharged by
  intervals alone (reported in the evidence, no obligation: the others are reviewed entries of tables/arith.json).
Not decided: that the remainder is the right one within the range (value-level).
"""
from lib import interval
from lib.rulelib import get_fn

DAY_MS = 24 * 60 * 60 * 1000
EXT_FILES = ("src/extensions/datetime.rs", "src/extensions/decimal.rs", "src/extensions/ipaddr.rs")


def check(chk, facts):
    rule = "C07.RANGE"
    f = get_fn(chk, facts, rule, "cedar_policy_core::extensions::datetime::DateTime::to_time")
    if f is not None:
        try:
            a = interval.Analysis(f).run()
        except interval.Unsupported as e:
            chk.ob(rule, "to_time:range", False, "to_time is no longer analysable by the interval engine (%s); the time-of-day range is undecided" % e,
                   where=f.where(), fn=f.name)
            a = None
        if a is not None:
            j = a.joined()
            ms = j.get("ms") or j.get("")
            ok = ms is not None and a.returns and 0 <= ms[0] and ms[1] <= DAY_MS - 1
            worst = None
            if not ok:
                for r in a.returns:
                    v = r.get("ms") or r.get("")
                    if v is None or v[0] < 0 or v[1] > DAY_MS - 1:
                        worst = v
            chk.ob(rule, "to_time:range", ok,
                   "toTime(): over %d feasible path(s) the returned Duration.ms lies in %s; a time of day must lie in [0, %d]%s"
                   % (len(a.returns), list(ms) if ms else "?", DAY_MS - 1, "" if ok else " (a path returns %s)" % (list(worst) if worst else "?")),
                   where=f.where(), fn=f.name, sample={"paths": len(a.returns), "ms": list(ms) if ms else None, "per_path": [list(r.get("ms") or r.get("") or []) for r in a.returns]})
            unproved = sorted("bb%d:%s" % k for k, v in a.asserts.items() if not v)
            chk.ob(rule, "to_time:asserts", not unproved,
                   "to_time: %d arithmetic assert(s), all proved unreachable by intervals" % len(a.asserts) if not unproved
                   else "to_time: arithmetic assert(s) %s may fire (overflow / zero divisor not excluded by the intervals)" % ", ".join(unproved),
                   where=f.where(), fn=f.name, sample={"asserts": {("bb%d:%s" % k): v for k, v in a.asserts.items()}})
    # informational sweep
    tot = proved = fns = 0
    for name in facts.unit_fns("cedar_policy_core.lib"):
        file = facts.fns.meta(name)[4] or ""
        if not file.endswith(EXT_FILES):
            continue
        g = facts.fn(name)
        if g is None or g.gen:
            continue
        if not any(b["t"][0] == "as" and (str(b["t"][1]).startswith("overflow") or b["t"][1] in ("remzero", "divzero")) for b in g.blocks if not b["cl"]):
            continue
        try:
            a = interval.Analysis(g).run()
        except (interval.Unsupported, Exception):
            continue
        fns += 1
        tot += len(a.asserts)
        proved += sum(1 for v in a.asserts.values() if v)
    chk.ob(rule, "sweep", True, "informational: %d arithmetic asserts in %d loop-free extension functions, %d discharged by intervals alone" % (tot, fns, proved),
           sample={"asserts": tot, "functions": fns, "discharged_by_intervals": proved})
    print("C07.RANGE sweep: %d arithmetic asserts in %d loop-free extension functions, %d discharged by intervals alone" % (tot, fns, proved))
