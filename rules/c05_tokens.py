"""C05.PRINT.optoken — the printer's operator tokens, read back by the parser, give the same operator.

Writer's table: Display for BinaryOp / UnaryOp (read from the MIR: one literal per variant).
Reader's tables: the grammar's operator productions (token -> cst op), the lowering of each cst op
to a builder method (construct_expr_rel, add_nary / mul_nary closures, UnreservedId::to_meth string
dispatch — all read from the MIR) and the derived builder map (method -> node built).
Closed loop: for every operator V, parse(print(V)) builds BinaryApp/UnaryApp with op V and the
operands in the same order (left fold for + - *).
"""
from lib import shape, cfg, protocol, hom, grammar
from lib.facts import callee
from lib.rulelib import get_fn, short
from lib.slice import leaf_producers

CORE = "cedar_policy_core::"


def display_tokens(facts, chk, rule, adt, suffix):
    """variant name -> literal printed by its Display impl"""
    name = "<%s as std::fmt::Display>::fmt" % adt
    f = get_fn(chk, facts, rule, name)
    r = facts.adts.get(adt)
    if f is None or r is None:
        return None
    out = {}
    for b, scrut, arms, other in shape.variant_switches(f, suffix):
        for vi, tgt in arms.items():
            lits = []
            for x in cfg.reachable(f, tgt, cut_blocks={b}):
                t = f.blocks[x]["t"]
                if t[0] == "call":
                    for o in t[2]:
                        if o[0] == "k" and "s" in o[1]:
                            lits.append(o[1]["s"])
            region = cfg.dominated_region(f, tgt)
            lits = []
            for x in sorted(region):
                t = f.blocks[x]["t"]
                if t[0] == "call":
                    for o in t[2]:
                        if o[0] == "k" and "s" in o[1]:
                            lits.append(o[1]["s"])
            out[r["variants"][vi]["name"]] = lits
    return out


def switch_to_methods(facts, f, adt_suffix, adt, methods, bodies=None):
    """variant -> [(builder method, [param roots of arg1], [param roots of arg2])] for a match on a cst operator enum"""
    r = facts.adts.get(adt)
    out = {}
    for g in [f] + (bodies or []):
        for b, scrut, arms, other in shape.variant_switches(g, adt_suffix):
            for vi, tgt in arms.items():
                region = cfg.dominated_region(g, tgt)
                for x in sorted(region):
                    t = g.blocks[x]["t"]
                    if t[0] == "call" and callee(t).split("::")[-1] in methods:
                        a1 = sorted(y for y in leaf_producers(g, t[2][1]) if y.startswith("param")) if len(t[2]) > 1 else []
                        a2 = sorted(y for y in leaf_producers(g, t[2][2]) if y.startswith("param")) if len(t[2]) > 2 else []
                        out.setdefault(r["variants"][vi]["name"], []).append((callee(t).split("::")[-1], a1, a2))
    return out


def string_dispatch(facts, f, methods):
    """'name' -> builder methods called (in closures created) on the true edge of `s == "name"`."""
    out = {}
    cl = {g.name: g for g in facts.closures_of(f.name)}
    for b, t in f.calls():
        c = callee(t)
        if not (c.endswith("::eq") and "PartialEq" in c) and not c.endswith("str::eq"):
            continue
        lit = [o[1]["s"] for o in t[2] if o[0] == "k" and "s" in o[1]]
        if not lit:
            # the literal may be referenced through a local
            for o in t[2]:
                if o[0] in ("c", "m"):
                    for p in leaf_producers(f, o):
                        pass
            continue
        for sb, m in protocol.bool_edges(f, b):
            region = cfg.reachable(f, m[True], cut_blocks={m[False]}) & cfg.dominated_region(f, m[True])
            meths = []
            for x in sorted(region):
                tt_ = f.blocks[x]["t"]
                if tt_[0] == "call" and callee(tt_).split("::")[-1] in methods:
                    meths.append(callee(tt_).split("::")[-1])
                for s in f.blocks[x]["st"]:
                    if s[0] == "a" and s[2][0] == "agg" and s[2][1][0] == "closure" and s[2][1][1] in cl:
                        for _, t2 in cl[s[2][1][1]].calls():
                            if callee(t2).split("::")[-1] in methods:
                                meths.append(callee(t2).split("::")[-1])
            out.setdefault(lit[0], []).extend(meths)
    return out


def check(chk, facts):
    rule = "C05.PRINT.optoken"
    g = grammar.load()
    bm = hom.builder_map(facts, CORE + "ast::expr::ExprBuilder<T>", ("ast::expr::ExprKind",))
    methods = set(bm)
    btok = display_tokens(facts, chk, rule, CORE + "ast::ops::BinaryOp", "ast::ops::BinaryOp")
    utok = display_tokens(facts, chk, rule, CORE + "ast::ops::UnaryOp", "ast::ops::UnaryOp")
    if btok is None or utok is None:
        return
    # reader: token -> builder method
    rel = None
    for n in facts.fns.index:
        if n.startswith(CORE + "parser::cst_to_ast::construct_expr_rel") and "closure" not in n:
            rel = facts.fns[n]
    if rel is None:
        chk.lost(rule, "construct_expr_rel")
        return
    chk.functions.add(rel.name)
    rel_m = switch_to_methods(facts, rel, "parser::cst::RelOp", CORE + "parser::cst::RelOp", methods)
    addn = facts.fn(CORE + "expr_builder::ExprBuilder::add_nary")
    muln = facts.fn(CORE + "expr_builder::ExprBuilder::mul_nary")
    if addn is None or muln is None:
        chk.lost(rule, "ExprBuilder::add_nary / mul_nary")
        return
    add_m = switch_to_methods(facts, addn, "parser::cst::AddOp", CORE + "parser::cst::AddOp", methods, bodies=facts.closures_of(addn.name))
    mul_calls = [(callee(t).split("::")[-1], sorted(y for y in leaf_producers(c_, t[2][1]) if y.startswith("param")), sorted(y for y in leaf_producers(c_, t[2][2]) if y.startswith("param")))
                 for c_ in facts.closures_of(muln.name) for _, t in c_.calls() if callee(t).split("::")[-1] in methods and len(t[2]) > 2]
    meth = None
    for n in facts.fns.index:
        if "cst_to_ast" in n and n.endswith("UnreservedId>::to_meth") or (n.endswith("::to_meth") and "cst_to_ast" in n and "closure" not in n):
            meth = facts.fns[n]
    if meth is None:
        chk.lost(rule, "UnreservedId::to_meth")
        return
    chk.functions.add(meth.name)
    meth_m = string_dispatch(facts, meth, methods)
    n = 0
    for vn, lits in sorted(btok.items()):
        probs = []
        if len(lits) != 1:
            probs.append("prints %s" % lits)
            tok = None
        else:
            tok = lits[0]
        path = None
        m = None
        if tok is not None:
            if tok in g["ops"]["RelOp"]:
                rv = g["ops"]["RelOp"][tok]
                ms = rel_m.get(rv, [])
                path = "RelOp::%s" % rv
                if len(ms) == 1 and ms[0][1] == ["param:1"] and ms[0][2] == ["param:3"]:
                    m = ms[0][0]
                else:
                    probs.append("token `%s` is lowered by %s" % (tok, ms))
            elif tok in g["ops"]["AddOp"]:
                rv = g["ops"]["AddOp"][tok]
                ms = add_m.get(rv, [])
                path = "AddOp::%s (left fold)" % rv
                # closure params: 1 env, 2 accumulator, 3 (op, next)
                if len(ms) == 1 and ms[0][1] == ["param:2"] and ms[0][2] == ["param:3"]:
                    m = ms[0][0]
                else:
                    probs.append("token `%s` is folded by %s (required: method(acc, next))" % (tok, ms))
            elif tok in g["ops"]["MultOp"]:
                rv = g["ops"]["MultOp"][tok]
                path = "MultOp::%s (left fold)" % rv
                if rv == "Times" and len(mul_calls) == 1 and mul_calls[0][1] == ["param:2"] and mul_calls[0][2] == ["param:3"]:
                    m = mul_calls[0][0]
                else:
                    probs.append("token `%s` is folded by %s" % (tok, mul_calls))
            elif tok in meth_m:
                path = "method `%s`" % tok
                ms = sorted(set(meth_m[tok]))
                if len(ms) == 1:
                    m = ms[0]
                else:
                    probs.append("method name `%s` dispatches to %s" % (tok, ms))
            else:
                probs.append("token `%s` is neither an operator token of the grammar nor a method name the parser dispatches on" % tok)
        if m is not None:
            sig = bm.get(m, {}).get("sig")
            want = "BinaryApp(op=BinaryOp::%s,arg1=$2,arg2=$3)" % vn
            if sig != want:
                probs.append("reading `%s` back builds %s" % (tok, sig))
        n += 1
        chk.ob(rule, "BinaryOp::" + vn, not probs, "BinaryOp::%s prints `%s`; read back through %s -> builder.%s%s" % (vn, tok, path, m, (": " + "; ".join(probs)) if probs else " -> the same operator, operands in order"),
               where=None, key="%s:BinaryOp::%s:%s" % (rule, vn, ";".join(probs)), sample={"op": vn, "token": tok, "reader": path, "builder": m})
    for vn, lits in sorted(utok.items()):
        tok = lits[0] if len(lits) == 1 else None
        probs = []
        if tok is None:
            probs.append("prints %s" % lits)
        elif tok in meth_m:
            ms = sorted(set(meth_m[tok]))
            sig = bm.get(ms[0], {}).get("sig") if len(ms) == 1 else None
            if sig != "UnaryApp(op=UnaryOp::%s,arg=$2)" % vn:
                probs.append("reading `%s` back builds %s" % (tok, sig))
        elif tok in g["literals"]:
            pass      # `!` and `-`: prefix operators, lowered with the run-length logic of cst::Unary (not examined here)
        else:
            probs.append("token `%s` is unknown to the grammar" % tok)
        n += 1
        chk.ob(rule, "UnaryOp::" + vn, not probs, "UnaryOp::%s prints `%s`%s" % (vn, tok, (": " + "; ".join(probs)) if probs else " — a token / method name the parser reads as the same operator"),
               key="%s:UnaryOp::%s:%s" % (rule, vn, ";".join(probs)))
    chk.floor(rule, "operators", n, 15)
    est_printer_tokens(chk, facts)


def est_printer_tokens(chk, facts):
    """The expression printer (BoundedDisplay for est::ExprNoExt) writes, for each infix node kind, one operator token between its
    operands; read back through the grammar and the lowering, that token must build the same node kind in the EST's own builder
    (operands in order). && and || are the separators of the grammar's And / Or repetitions, folded with builder.and / builder.or."""
    from lib import fmtstr
    rule = "C05.PRINT.esttoken"
    PRINTER = "<cedar_policy_core::est::expr::ExprNoExt as cedar_policy_core::ast::value::BoundedDisplay>::fmt"
    f = get_fn(chk, facts, rule, PRINTER)
    ADT = CORE + "est::expr::ExprNoExt"
    r = facts.adts.get(ADT)
    if f is None or r is None:
        return
    g = grammar.load()
    bm = hom.builder_map(facts, CORE + "est::expr::Builder", ("est::expr::ExprNoExt", "est::expr::ExtFuncCall"))
    methods = set(bm)
    rel = None
    for n in facts.fns.index:
        if n.startswith(CORE + "parser::cst_to_ast::construct_expr_rel") and "closure" not in n:
            rel = facts.fns[n]
    addn = facts.fn(CORE + "expr_builder::ExprBuilder::add_nary")
    muln = facts.fn(CORE + "expr_builder::ExprBuilder::mul_nary")
    if rel is None or addn is None or muln is None:
        chk.lost(rule, "construct_expr_rel / add_nary / mul_nary")
        return
    rel_m = switch_to_methods(facts, rel, "parser::cst::RelOp", CORE + "parser::cst::RelOp", methods)
    add_m = switch_to_methods(facts, addn, "parser::cst::AddOp", CORE + "parser::cst::AddOp", methods, bodies=facts.closures_of(addn.name))
    mul_calls = [callee(t).split("::")[-1] for c_ in facts.closures_of(muln.name) for _, t in c_.calls() if callee(t).split("::")[-1] in methods and len(t[2]) > 2]
    folds = {}
    for nm, sep in (("or_nary", "or"), ("and_naryl", "and")):
        fn_ = facts.fn(CORE + "expr_builder::ExprBuilder::" + nm)
        calls = []
        if fn_ is not None:
            for c_ in [fn_] + facts.closures_of(fn_.name):
                calls += [callee(t).split("::")[-1] for _, t in c_.calls() if callee(t).split("::")[-1] in ("and", "or")]
        folds[nm] = sorted(set(calls))
    sws = sorted(shape.variant_switches(f, "est::expr::ExprNoExt"), key=lambda s_: -len(s_[2]))
    if not sws:
        chk.lost(rule, "match on ExprNoExt in the printer")
        return
    b, scrut, arms, other = sws[0]
    INFIX = ("Eq", "NotEq", "In", "Less", "LessEq", "Greater", "GreaterEq", "And", "Or", "Add", "Sub", "Mul")
    n = 0
    for vi, tgt in sorted(arms.items()):
        vn = r["variants"][vi]["name"]
        if vn not in INFIX:
            continue
        region = own_region_simple(f, tgt)
        lits = []
        for s_ in fmtstr.sites(f, region):
            if s_["pieces"]:
                for p_ in s_["pieces"]:
                    if p_[0] == "lit":
                        lits += p_[1].split()
        probs = []
        m = None
        path = None
        if len(lits) != 1:
            probs.append("writes the tokens %s" % lits)
        else:
            tok = lits[0]
            if tok in g["ops"]["RelOp"]:
                ms = rel_m.get(g["ops"]["RelOp"][tok], [])
                path = "RelOp::" + g["ops"]["RelOp"][tok]
                m = ms[0][0] if len(ms) == 1 else None
            elif tok in g["ops"]["AddOp"]:
                ms = add_m.get(g["ops"]["AddOp"][tok], [])
                path = "AddOp::" + g["ops"]["AddOp"][tok]
                m = ms[0][0] if len(ms) == 1 else None
            elif tok in g["ops"]["MultOp"] and g["ops"]["MultOp"][tok] == "Times":
                path = "MultOp::Times"
                m = mul_calls[0] if len(mul_calls) == 1 else None
            elif tok in g["sep"]:
                prod = g["sep"][tok]
                path = "separator of " + prod
                nary = {"Or": "or_nary", "And": "and_naryl"}.get(prod)
                fm = folds.get(nary, [])
                m = fm[0] if len(fm) == 1 else None
            else:
                probs.append("token `%s` is not an infix operator of the grammar" % tok)
            if m is None and not probs:
                probs.append("token `%s` (%s) has no unique lowering" % (tok, path))
        if m is not None:
            b_ = bm.get(m, {})
            sig = b_.get("sig")
            if b_.get("variant") != vn or b_.get("fields") not in ({"left": [2], "right": [3]},):
                probs.append("reading `%s` back builds %s" % (lits[0], sig))
        n += 1
        chk.ob(rule, vn, not probs, "EST %s prints `%s`; read back through %s -> builder.%s%s" % (vn, " ".join(lits), path, m, (": " + "; ".join(probs)) if probs else " -> the same node, operands in order"),
               where=f.where(), fn=f.name, key="%s:%s:%s" % (rule, vn, ";".join(probs)), sample={"variant": vn, "token": lits, "reader": path, "builder": m})
    chk.floor(rule, "infix node kinds", n, 12)
    # ---- method-style node kinds: `.name(` must be a method name the parser dispatches to the builder method that builds this node
    import re
    meth = None
    for nme in facts.fns.index:
        if nme.endswith("::to_meth") and "cst_to_ast" in nme and "closure" not in nme:
            meth = facts.fns[nme]
    meth_m = string_dispatch(facts, meth, methods) if meth is not None else {}
    METHOD = ("Contains", "ContainsAll", "ContainsAny", "IsEmpty", "GetTag", "HasTag")
    KEYWORD = {"If": ["IF", "THEN", "ELSE"], "Like": ["LIKE"]}
    nm_ = 0
    for vi, tgt in sorted(arms.items()):
        vn = r["variants"][vi]["name"]
        if vn not in METHOD and vn not in KEYWORD and vn != "Is":
            continue
        region = cfg.dominated_region(f, tgt)
        text = []
        for s_ in sorted(fmtstr.sites(f, region), key=lambda x: x["line"] or 0):
            if s_["pieces"]:
                text += [p_[1] for p_ in s_["pieces"] if p_[0] == "lit"]
        probs = []
        if vn in METHOD:
            names = re.findall(r"\.(\w+)\(", "".join(text))
            if len(names) != 1:
                probs.append("writes %s" % text)
            else:
                ms = sorted(set(meth_m.get(names[0], [])))
                b_ = bm.get(ms[0], {}) if len(ms) == 1 else {}
                if b_.get("variant") != vn:
                    probs.append("`.%s(..)` is read back by the parser as builder.%s which builds %s" % (names[0], ms, b_.get("sig")))
            what = ".%s(..)" % (names[0] if len(names) == 1 else "?")
        elif vn == "Is":
            toks = " ".join(text).split()
            want = [g["aliases"].get("IS"), g["aliases"].get("IN")]
            if toks != want:
                probs.append("writes the keywords %s, the grammar has %s" % (toks, want))
            what = " ".join(toks)
        else:
            toks = " ".join(text).replace('"', " ").split()
            want = [g["aliases"].get(k) for k in KEYWORD[vn]]
            if toks != want:
                probs.append("writes the keywords %s, the grammar has %s" % (toks, want))
            what = " ".join(toks)
        nm_ += 1
        chk.ob(rule, vn, not probs, "EST %s prints `%s`%s" % (vn, what, (": " + "; ".join(probs)) if probs else " — read back as the same node"), where=f.where(), fn=f.name,
               key="%s:%s:%s" % (rule, vn, ";".join(probs)))
    chk.floor(rule, "method / keyword node kinds", nm_, 9)


def own_region_simple(f, tgt):
    return cfg.dominated_region(f, tgt)
