"""C03.VALIDATE — the validator's driver runs every pass on every policy and loses no error.

validate / validate_with_level visit all templates of the set (all_templates: static policies are templates without slots;
`templates()` would skip them) and all links; validate_policy chains the entity-type, enum, action-id and action-application
passes with the typechecker's errors (no pass dropped outside partial mode); errors reach the result as errors and warnings as
warnings.
"""
from lib import shape, cfg, xlabels
from lib.facts import callee
from lib.rulelib import get_fn, short
from lib.slice import leaf_producers

V = "cedar_policy_core::validator::Validator::"
PASSES = ("validate_entity_types", "validate_enum_entity", "validate_action_ids", "validate_template_action_application")


def check(chk, facts):
    rule = "C03.VALIDATE"
    for nm, per in (("validate", "validate_policy"), ("validate_with_level", "validate_policy_with_level")):
        f = get_fn(chk, facts, rule, V + nm)
        if f is None:
            continue
        calls = [(b, t) for b, t in f.calls()]
        srcs = sorted({callee(t).split("::")[-1] for b, t in calls if callee(t).startswith("cedar_policy_core::ast::policy_set::PolicySet::")})
        cl_calls = set()
        for g in facts.closures_of(f.name):
            cl_calls |= {callee(t).split("::")[-1] for _, t in g.calls()}
        filters = sorted({callee(t).split("::")[-1] for b, t in calls if callee(t).split("::")[-1] in ("filter", "take", "skip", "take_while", "skip_while", "step_by")})
        ok = "all_templates" in srcs and "policies" in srcs and "templates" not in srcs and "static_policies" not in srcs and per in cl_calls and "validate_slots" in cl_calls and not filters
        chk.ob(rule, nm + ":coverage", ok, "%s visits %s of the policy set, runs %s on each template and validate_slots on each link (closures call %s; filters %s)" % (nm, srcs, per, sorted(cl_calls & {per, "validate_slots"}), filters),
               where=f.where(), fn=f.name, key="%s:%s:coverage" % (rule, nm))
        # errors stay errors, warnings stay warnings
        res = [(b, t) for b, t in calls if callee(t).endswith("ValidationResult::new")]
        okr = False
        det = "no ValidationResult::new"
        if res:
            unz = [t for b, t in calls if callee(t).endswith("::unzip")]
            if unz:
                dest = unz[0][3][0]

                def seed(p, dest=dest):
                    if p[0] == dest and len(p) > 1 and isinstance(p[1], list) and p[1][0] == "f":
                        return ["ERR" if p[1][1] == 0 else "WARN"]
                    return []
                L = shape.Labels(f, None, seed, call_labels=lambda c, t: ["LINKERR"] if c.endswith("::filter_map") else (["CONF"] if c.endswith("confusable_string_checks") else None))
                a0 = {x for x in L.operand_labels(res[0][1][2][0]) if x in ("ERR", "WARN", "LINKERR", "CONF")}
                a1 = {x for x in L.operand_labels(res[0][1][2][1]) if x in ("ERR", "WARN", "LINKERR", "CONF")}
                okr = a0 == {"ERR", "LINKERR"} and a1 == {"WARN", "CONF"}
                det = "errors <- %s, warnings <- %s" % (sorted(a0), sorted(a1))
        chk.ob(rule, nm + ":result", okr, "%s builds its result from %s (required: errors <- policy errors + link errors; warnings <- policy warnings + confusable-string checks)" % (nm, det),
               where=f.where(), fn=f.name, key="%s:%s:result" % (rule, nm))
    g = get_fn(chk, facts, rule, V + "validate_policy")
    if g is not None:
        cs = {callee(t).split("::")[-1] for _, t in g.calls()}
        missing = [p for p in PASSES if p not in cs]
        tc = "typecheck_policy" in cs
        # the typechecker runs on every path (also in partial mode)
        tcb = {b for b, t in g.calls() if callee(t).endswith("Validator::typecheck_policy")}
        always = bool(tcb) and cfg.must_pass(g, 0, set(cfg.return_blocks(g)), tcb)
        chained = sum(1 for _, t in g.calls() if callee(t).split("::")[-1] == "chain")
        chk.ob(rule, "validate_policy:passes", not missing and tc and always and chained >= 4, "validate_policy runs %s%s, the typechecker on every path (%s), %d chain() joins" % (
            [p for p in PASSES if p in cs], (" — missing %s" % missing) if missing else "", always, chained), where=g.where(), fn=g.name, key="%s:validate_policy:%s" % (rule, ",".join(missing)))
    h = get_fn(chk, facts, rule, V + "validate_slots")
    if h is not None:
        cs = {callee(t).split("::")[-1] for _, t in h.calls()}
        ok = {"validate_entity_types_in_slots", "validate_linked_action_application"} <= cs
        chk.ob(rule, "validate_slots:passes", ok, "validate_slots checks the entity types in the slot bindings and the linked action application: %s" % sorted(cs & {"validate_entity_types_in_slots", "validate_linked_action_application"}), where=h.where(), fn=h.name)
    # the level variant runs the ordinary validation of the same policy first and returns its errors as well
    lv = facts.fn("cedar_policy_core::validator::level_validate::<impl cedar_policy_core::validator::Validator>::validate_policy_with_level")
    if lv is not None:
        cs = [callee(t).split("::")[-1] for _, t in lv.calls()]
        chk.ob(rule, "with_level:includes-validate_policy", "validate_policy" in cs and "chain" in cs, "validate_policy_with_level also runs validate_policy and chains the level errors onto its errors: %s" % ("validate_policy" in cs and "chain" in cs),
               where=lv.where(), fn=lv.name)
