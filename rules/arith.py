"""ARITH — arithmetic discipline in value-semantics modules (rule family 3.8).

Per module (source file) the multiset of
  raw   : MIR BinaryOp / Neg arithmetic on 64/128-bit (and listed) integer types,
  loose : calls of wrapping_* / saturating_* / overflowing_* / unchecked_* / abs / pow / ... ,
  checked: calls of checked_* (a floor: they may not disappear)
is compared with a frozen table (tables/arith.json). Keys carry no line numbers
and no function names: (file, class, op, type, const-operand shape).
"""
import json
import os

from lib import panics
from lib.facts import callee

ROOT = os.path.dirname(os.path.dirname(os.path.abspath(__file__)))
ARI = ("Add", "Sub", "Mul", "Div", "Rem", "Shl", "Shr", "AddWithOverflow", "SubWithOverflow", "MulWithOverflow",
       "AddUnchecked", "SubUnchecked", "MulUnchecked", "ShlUnchecked", "ShrUnchecked")
LOOSE = ("::wrapping_", "::saturating_", "::overflowing_", "::unchecked_", "::abs", "::pow", "::unsigned_abs",
         "::rem_euclid", "::div_euclid", "::abs_diff", "::isqrt", "::next_power_of_two")
INT_OWNER = ("core::num::<impl i64>", "core::num::<impl u64>", "core::num::<impl i128>", "core::num::<impl u128>",
             "core::num::<impl i32>", "core::num::<impl u32>", "core::num::<impl usize>", "core::num::<impl isize>",
             "core::num::<impl u8>", "core::num::<impl u16>", "core::num::<impl i16>", "core::num::<impl i8>")
WIDE = ("i64", "u64", "i128", "u128", "i32", "u32", "u8", "u16", "isize")


def _cshape(o):
    return ("k%s" % o[1]["v"]) if o[0] == "k" and "v" in o[1] else "v"


def _safe_divisor(o):
    if o[0] != "k" or "v" not in o[1]:
        return False
    try:
        return int(o[1]["v"]) not in (0, -1)
    except (TypeError, ValueError):
        return False


def collect(facts, files, unit="cedar_policy_core.lib"):
    """-> {key: [ (fn, line) ... ]} for hand-written functions of the given files."""
    facts.load_crate(unit)
    out = {}
    nfn = 0
    for n in facts.unit_fns(unit):
        gen, kind, root, ti, file, line = facts.fns.meta(n)
        if gen or not file.endswith(tuple(files)):
            continue
        if panics.is_derive(facts.fns.fnmac(n)):
            continue
        f = facts.fns[n]
        nfn += 1
        short_file = [x for x in files if file.endswith(x)][0]
        for b, s in f.stmts():
            if s[0] != "a":
                continue
            rv = s[2]
            if rv[0] == "bin" and rv[1] in ("Div", "Rem") and _safe_divisor(rv[3]):
                # idiom: division / remainder by a constant other than 0 and -1 neither traps nor overflows, and is exact
                continue
            if rv[0] == "bin" and rv[1] in ARI and rv[4] in WIDE:
                k = "%s|raw|%s|%s|%s,%s" % (short_file, rv[1].replace("WithOverflow", ""), rv[4], _cshape(rv[2]), _cshape(rv[3]))
                out.setdefault(k, []).append((n, s[3]))
            elif rv[0] == "un" and rv[1] == "Neg" and rv[3] in WIDE + ("usize",):
                k = "%s|raw|Neg|%s|%s" % (short_file, rv[3], _cshape(rv[2]))
                out.setdefault(k, []).append((n, s[3]))
        for b, t in f.calls():
            c = callee(t)
            if not c.startswith(INT_OWNER):
                continue
            meth = c.split("::")[-1]
            ty = c.split("<impl ")[1].split(">")[0]
            if meth in ("checked_rem", "checked_rem_euclid", "checked_div", "checked_div_euclid") and len(t[2]) == 2 and _safe_divisor(t[2][1]):
                continue  # cannot fail for a constant divisor other than 0 and -1: no discipline attaches (and it may become rem_euclid)
            if "::checked_" in c:
                k = "%s|checked|%s|%s" % (short_file, meth, ty)
                out.setdefault(k, []).append((n, t[1].get("l")))
            elif meth in ("rem_euclid", "div_euclid") and len(t[2]) == 2 and _safe_divisor(t[2][1]):
                continue  # same idiom: total and exact for a constant divisor other than 0 and -1
            elif any(x in c for x in LOOSE):
                k = "%s|loose|%s|%s" % (short_file, meth, ty)
                out.setdefault(k, []).append((n, t[1].get("l")))
    return out, nfn


def check(chk, facts, rule, files, table_name):
    p = os.path.join(ROOT, "tables", "arith.json")
    try:
        table = json.load(open(p))[table_name]
    except (OSError, KeyError):
        chk.lost(rule, "tables/arith.json:" + table_name)
        return
    cur, nfn = collect(facts, files)
    allowed = table["sites"]
    n = 0
    for k, occ in sorted(cur.items()):
        cls = k.split("|")[1]
        have = len(occ)
        lim = allowed.get(k, {}).get("count", 0)
        n += 1
        if cls in ("raw", "loose"):
            ok = have <= lim
            fn, line = occ[-1]
            f = facts.fns[fn]
            chk.ob(rule, k, ok,
                   "%d occurrence(s) of %s arithmetic `%s`; the reviewed table allows %d%s" % (
                       have, "unchecked (panicking or wrapping)" if cls == "raw" else "non-checked", k, lim,
                       "" if ok else " — a new unchecked arithmetic step on a Cedar value (overflow must surface as an error, not a panic or a wrong value)"),
                   where=f.where(line), fn=fn, key="%s:%s" % (rule, k),
                   sample={"key": k, "count": have, "allowed": lim, "reason": allowed.get(k, {}).get("why")})
    for k, e in sorted(allowed.items()):
        if k.split("|")[1] == "checked":
            have = len(cur.get(k, []))
            n += 1
            chk.ob(rule, k, have >= e["count"],
                   "%d occurrence(s) of checked arithmetic `%s`; floor %d (a checked step may not silently disappear)" % (have, k, e["count"]),
                   key="%s:%s" % (rule, k), sample={"key": k, "count": have, "floor": e["count"]})
    chk.floor(rule, "functions scanned in " + table_name, nfn, table.get("min_functions", 1))
    return cur


def regenerate(facts, spec):
    """Used by bin/mkarith to (re)build the table from the current tree."""
    out = {}
    for name, files in spec.items():
        cur, nfn = collect(facts, files)
        out[name] = {"files": files, "min_functions": int(nfn * 0.8),
                     "sites": {k: {"count": len(v), "seen_in": sorted({x[0].split("::")[-1] + ":" + str(x[1]) for x in v})[:4]} for k, v in sorted(cur.items())}}
    return out
