"""C13.PROJECTABLE — which residual records may be projected / has-tested before their unknowns are known.

`Expr::is_projectable` licenses the evaluator to fold `r.attr` / `r has attr` on a residual
record r to a concrete answer while discarding the other attributes of r. That is sound only
if no discarded sub-expression can still raise an error after substitution. Rule:
  (1) is_projectable quantifies over *every* sub-expression (subexpressions().all(..));
  (2) the node kinds it accepts are read off the MIR switch and each accepted kind must be one
      whose evaluator arm (partial_interpret_internal) has no error source of its own —
      derived from the arm's region: no Err(..) construction, no fallible call other than the
      recursive interpretation of children and its collection;
  (3) `Unknown` is the one reviewed exception (its only error is a type-annotation mismatch of a
      value supplied by the caller's own mapper, which the substitution API checks separately).
Accepting fewer kinds is sound (less folding) and never reported.
"""
from lib import hom, shape, cfg
from lib.facts import callee
from lib.rulelib import get_fn, short

CORE = "cedar_policy_core::"
EXPRKIND = CORE + "ast::expr::ExprKind"
EV = CORE + "evaluator::Evaluator::"
REVIEWED_EXCEPTIONS = {"Unknown": "error only on a type-annotation mismatch of the caller-supplied substitution"}
# calls returning Result inside an arm that cannot add an error of the node's own
PROPAGATION_ONLY = (
    "evaluator::Evaluator::partial_interpret",          # children
    "::collect", "::branch", "::from_residual", "::from_output", "iter::Iterator::map", "::into_iter", "::iter", "::unzip", "::zip",
    "ast::expr::Expr::record",                          # consumed by expect(): duplicate keys are impossible for a BTreeMap's own keys; not an Err path
    "::expect",
)


def accepted_kinds(f, adt):
    """Variant indices for which the closure returns true."""
    for b, blk in enumerate(f.blocks):
        t = blk["t"]
        if blk["cl"] or t[0] != "sw":
            continue
        sws = [x for x in shape.variant_switches(f, "ast::expr::ExprKind") if x[0] == b]
        if not sws:
            continue
        _, scrut, arms, other = sws[0]

        def ret_of(tgt):
            seen = set()
            work = [tgt]
            vals = set()
            while work:
                x = work.pop()
                if x in seen:
                    continue
                seen.add(x)
                for s in f.blocks[x]["st"]:
                    if s[0] == "a" and s[1] == [0] and s[2][0] == "use" and s[2][1][0] == "k":
                        vals.add(str(s[2][1][1].get("v")))
                        break
                else:
                    work += f.succs(x)
            return vals
        acc = {v for v, tgt in arms.items() if ret_of(tgt) & {"1", "true", "True"}}
        rest_true = bool(ret_of(other) & {"1", "true", "True"}) if other is not None else False
        return acc, rest_true, set(arms)
    return None, None, None


def own_error_sources(facts, f, region):
    """Fallible calls / Err constructions of the arm itself (closure bodies created in the region included)."""
    out = []
    bodies = [(f, region)]
    for b in sorted(region):
        for s in f.blocks[b]["st"]:
            if s[0] == "a" and s[2][0] == "agg" and s[2][1][0] == "closure":
                g = facts.fn(s[2][1][1])
                if g is not None:
                    bodies.append((g, None))
    for g, reg in bodies:
        for b, blk in enumerate(g.blocks):
            if blk["cl"] or (reg is not None and b not in reg):
                continue
            for s in blk["st"]:
                if s[0] == "a" and s[2][0] == "agg" and s[2][1][0] == "adt" and s[2][1][2] == "Err":
                    out.append("Err(..) built at L%s" % s[3])
            t = blk["t"]
            if t[0] == "call":
                c = callee(t)
                dty = g.locals[t[3][0]] if t[3] else ""
                if ("Result<" in dty or "result::Result<" in dty) and not c.endswith(PROPAGATION_ONLY) and not any(p in c for p in ("::collect", "::branch", "::from_residual")):
                    out.append("%s at L%s" % (short(c), t[1].get("l")))
    return out


def check(chk, facts):
    rule = "C13.PROJECTABLE"
    name = None
    for n in facts.fns.index:
        if n.endswith("::is_projectable") and "ast::expr::Expr" in n:
            name = n
    if name is None:
        chk.lost(rule, "ast::expr::Expr::is_projectable")
        return
    f = facts.fns[name]
    chk.functions.add(name)
    calls = [callee(t) for _, t in f.calls()]
    quant = any(c.endswith("::subexpressions") for c in calls) and any(c.endswith("Iterator::all") for c in calls)
    chk.ob(rule, "quantifier", quant, "is_projectable tests every sub-expression (subexpressions().all(..)): %s" % quant, where=f.where(), fn=name)
    cl = facts.closures_of(name)
    acc = None
    for g in cl:
        acc, rest_true, listed = accepted_kinds(g, EXPRKIND)
        if acc is not None:
            break
    r = facts.adts.get(EXPRKIND)
    if acc is None or r is None:
        chk.lost(rule, "switch on ExprKind in is_projectable")
        return
    if rest_true:
        acc = acc | {i for i in range(len(r["variants"])) if i not in listed}
    ev = get_fn(chk, facts, rule, EV + "partial_interpret_internal")
    if ev is None:
        return
    arms = hom.arm_events(facts, ev, "ast::expr::ExprKind", lambda c, t: None)
    if arms is None:
        chk.lost(rule, "match on ExprKind in partial_interpret_internal")
        return
    n = 0
    for vi in sorted(acc):
        vn = r["variants"][vi]["name"]
        arm = arms["arms"].get(vi)
        if arm is None:
            chk.ob(rule, "kind:%s" % vn, False, "no evaluator arm found for accepted kind %s" % vn, where=f.where(), fn=name)
            continue
        src = own_error_sources(facts, ev, arm["region"])
        if vn in REVIEWED_EXCEPTIONS:
            ok = True
            det = "reviewed exception: %s" % REVIEWED_EXCEPTIONS[vn]
        else:
            ok = not src
            det = ("its evaluator arm has no error source of its own" if ok else
                   "its evaluator arm can fail on its own (%s): a discarded %s may still error after substitution" % (", ".join(src[:3]), vn))
        n += 1
        chk.ob(rule, "kind:%s" % vn, ok, "is_projectable accepts %s — %s" % (vn, det), where=f.where(), fn=name, key="%s:kind:%s" % (rule, vn),
               sample={"kind": vn, "own_error_sources": src[:4]})
    chk.floor(rule, "accepted kinds examined", n, 4)
