"""ROLES — principal, action, resource and context stay in their own positions wherever a request is (re)built.

For each listed function, every call of a listed constructor (positional roles principal, action, resource, context) and
every struct literal with fields of those names receives, in each role position, data of that role only. Role provenance:
parameters *named* after a role (part of the function's signature), fields named after a role, and accessor methods whose
name contains the role word. Decides positions, not the values.
"""
from lib import shape
from lib.facts import callee
from lib.rulelib import short

ROLE_WORDS = ("principal", "action", "resource", "context")


def _role_of(name):
    for w in ROLE_WORDS:
        if w in name:
            return w
    return None


def check(chk, facts, rule, fn_names, ctor_suffixes, adt_suffixes, accessor_prefixes, floor):
    n = 0
    for name in fn_names:
        f = facts.fns.get(name)
        if f is None:
            if not chk.secondary:
                chk.lost(rule, name)
            continue
        pl = {}
        for nm, p in f.r.get("dbg", []):
            if len(p) == 1 and 1 <= p[0] <= f.nargs and nm in ROLE_WORDS:
                pl[p[0]] = ["R:" + nm]

        def seed(p):
            for e in p[1:]:
                if isinstance(e, list) and e[0] == "f" and e[2] in ROLE_WORDS:
                    return ["R:" + e[2]]
            return []

        def cl(c, t):
            last = c.split("::")[-1]
            if c.startswith(tuple(accessor_prefixes)) and not c.endswith(tuple(ctor_suffixes)):
                r = _role_of(last)
                if r:
                    return ["R:" + r]
            return None
        L = shape.Labels(f, None, seed, param_labels=pl, call_labels=cl)
        chk.functions.add(f.name)
        sinks = []
        for b, t in f.calls():
            if callee(t).endswith(tuple(ctor_suffixes)):
                sinks.append((callee(t).split("::")[-2] + "::" + callee(t).split("::")[-1], t[1].get("l"), list(zip(ROLE_WORDS, t[2][:4]))))
        for b, s in f.stmts():
            if s[0] == "a" and s[2][0] == "agg" and s[2][1][0] == "adt" and str(s[2][1][1]).endswith(tuple(adt_suffixes)):
                adt = facts.adts.get(str(s[2][1][1]))
                if not adt:
                    continue
                names = [fl[0] for fl in adt["variants"][0]["fields"]]
                ops = [(names[i], o) for i, o in enumerate(s[2][2]) if i < len(names) and names[i] in ROLE_WORDS]
                if ops:
                    sinks.append((str(s[2][1][1]).split("::")[-1] + "{..}", s[3], ops))
        for what, line, ops in sinks:
            for w, o in ops:
                labs = {x[2:] for x in L.operand_labels(o) if x.startswith("R:")}
                n += 1
                chk.ob(rule, "%s->%s:%s" % (short(name).split("::")[-2] + "::" + short(name).split("::")[-1], what, w), labs == {w},
                       "%s builds %s: the %s position is made of %s" % (short(name).split("::")[-1], what, w, sorted(labs)), where=f.where(line), fn=f.name,
                       key="%s:%s:%s:%s" % (rule, short(name), what, w), sample={"fn": short(name), "sink": what, "role": w, "from": sorted(labs)} if w == "resource" else None)
    chk.floor(rule, "role positions at request constructors", n, floor)
