"""C17.UNION / C17.LOAD — nothing the manifest requests is lost when access tries are merged or entities are loaded.

UNION: AccessTrie::union_mut / RootAccessTrie::union_mut / union_fields_mut are total: on every path to the return each
request-carrying field of `other` (children, ancestors_trie, is_ancestor) is merged into self; in the map loops every entry
of `other` is either inserted (vacant) or unioned (occupied) — no iteration skips both.
LOAD: load_entities sends every computed request to the loader (the work list is only built, iterated and consumed: no
retain / filter / dedup / truncate), merges a loaded entity with one already in the slice instead of overwriting it,
schedules the remaining requests of every loaded entity, and asks for the ancestors of every requested entity.
"""
from lib import cfg, protocol, shape
from lib.facts import callee
from lib.rulelib import get_fn, short
from lib.slice import leaf_producers

EM = "cedar_policy_core::validator::entity_manifest::"
REQUEST_FIELDS = {"children": "call", "ancestors_trie": "call", "is_ancestor": "write"}
EXEMPT_FIELDS = {"node_type": "a type annotation, not a data request"}
WORKLIST_OK = ("push", "extend", "into_iter", "iter", "len", "is_empty", "new", "with_capacity", "from_iter", "collect", "deref", "as_slice", "iter_mut", "reserve", "next", "zip", "map", "default")
WORKLIST_DROPS = ("retain", "retain_mut", "dedup", "dedup_by", "dedup_by_key", "truncate", "drain", "pop", "remove", "swap_remove", "clear", "split_off", "filter", "filter_map", "skip", "take", "take_while", "skip_while", "step_by")


def reads_field(f, blk_items, local, field):
    for o in blk_items:
        pass


def _places(x, out):
    if isinstance(x, list):
        if x and isinstance(x[0], int) and all(isinstance(e, (str, list)) for e in x[1:]):
            out.append(x)
            return
        for y in x:
            _places(y, out)


def union(chk, facts):
    rule = "C17.UNION"
    f = get_fn(chk, facts, rule, EM + "AccessTrie::union_mut")
    r = facts.adts.get(EM + "AccessTrie")
    if f is not None and r is not None:
        rets = set(cfg.return_blocks(f))
        fields = [x[0] for x in r["variants"][0]["fields"]]
        for g in fields:
            if g in EXEMPT_FIELDS:
                chk.ob(rule, "AccessTrie." + g, True, "field %s is not merged: %s" % (g, EXEMPT_FIELDS[g]), where=f.where(), fn=f.name)
                continue
            how = REQUEST_FIELDS.get(g)
            if how is None:
                chk.ob(rule, "AccessTrie." + g, False, "field %s of AccessTrie is not in the reviewed table of request-carrying / exempt fields" % g, where=f.where(), fn=f.name)
                continue
            merge_blocks = set()
            from_other = False
            for b, blk in enumerate(f.blocks):
                if blk["cl"]:
                    continue
                items = list(blk["st"]) + [blk["t"]]
                pl = []
                _places(items, pl)

                def has(local, fld):
                    return any(p[0] == local and any(isinstance(e, list) and e[0] == "f" and e[2] == fld for e in p[1:]) for p in pl)
                # a statement / call in this block that touches self.g (param 1, through the &mut) ...
                if has(1, g):
                    if how == "write":
                        for s in blk["st"]:
                            if s[0] == "a" and s[1][0] == 1 and any(isinstance(e, list) and e[0] == "f" and e[2] == g for e in s[1][1:]):
                                merge_blocks.add(b)
                    else:
                        merge_blocks.add(b)
                if has(2, g):
                    from_other = True
            total = bool(merge_blocks) and cfg.must_pass(f, 0, rets, merge_blocks)
            chk.ob(rule, "AccessTrie." + g, total and from_other,
                   "union_mut merges `%s` on every path to its return: %s; the merged value comes from `other`: %s" % (g, total, from_other), where=f.where(), fn=f.name,
                   key="%s:AccessTrie.%s" % (rule, g))
    # map loops: every entry is inserted or unioned
    for name, sinks in ((EM + "RootAccessTrie::union_mut", ("::union_mut", "::insert")), (EM + "union_fields_mut", ("::union_mut", "::insert"))):
        g = facts.fn(name)
        if g is None:
            chk.lost(rule, name)
            continue
        chk.functions.add(name)
        sites = [(b, t) for b, t in g.calls() if callee(t).endswith(sinks)]
        lp = protocol.loop_of(g, sites[0][0]) if sites else None
        if lp is None:
            chk.ob(rule, short(name).split("::")[-2] + "::" + name.split("::")[-1], False, "no loop over the entries of `other` with insert / union_mut", where=g.where(), fn=g.name)
            continue
        head, some = lp
        K = {b for b, _ in sites}
        ok = cfg.must_pass(g, some, {head} | set(cfg.return_blocks(g)), K)
        drops = [callee(t).split("::")[-1] for _, t in g.calls() if callee(t).split("::")[-1] in WORKLIST_DROPS]
        chk.ob(rule, name.split("::")[-2] + "::" + name.split("::")[-1], ok and not drops,
               "every entry of `other` is inserted or unioned (no iteration avoids both): %s%s" % (ok, (" — entries are dropped by %s" % drops) if drops else ""), where=g.where(), fn=g.name,
               key="%s:%s" % (rule, name.split("::")[-1] + "@" + name.split("::")[-2]))


def load(chk, facts):
    rule = "C17.LOAD"
    f = get_fn(chk, facts, rule, EM + "loader::load_entities")
    if f is None:
        return
    # the work list(s): locals of type Vec<EntityRequestRef>
    wl = {i for i, ty in enumerate(f.locals) if "Vec<" in ty and "EntityRequestRef" in ty and "Option" not in ty.split("Vec<")[0]}
    drops = []
    for body in [f] + facts.closures_of(f.name):
        for b, t in body.calls():
            last = callee(t).split("::")[-1]
            if last in WORKLIST_DROPS and body is f:
                # receiver derives from a work list?
                for o in t[2][:1]:
                    roots = set()
                    if o[0] in ("c", "m"):
                        roots.add(o[1][0])
                        for d in leaf_producers(f, o):
                            pass
                    ty = f.locals[o[1][0]] if o[0] in ("c", "m") else ""
                    if "EntityRequestRef" in ty or (o[0] in ("c", "m") and o[1][0] in wl):
                        drops.append((last, t[1].get("l")))
    chk.ob(rule, "worklist", not drops and bool(wl), "the list of entity requests is only built, iterated and consumed (%d list locals)%s" % (len(wl), (" — but requests are dropped by %s" % drops) if drops else ""),
           where=f.where(drops[0][1] if drops else None), fn=f.name, key="%s:worklist" % rule)
    # the loader is asked for exactly the work list
    ld = [(b, t) for b, t in f.calls() if callee(t).endswith("EntityLoader::load_entities") or callee(t).split("#")[0].endswith("::load_entities") and callee(t) != f.name]
    okl = False
    for b, t in ld:
        src = leaf_producers(f, t[2][1], extra_transparent=("::collect", "::map", "::iter", "::into_iter", "::deref", "::as_slice")) if len(t[2]) > 1 else set()
        okl = okl or any(x.endswith("initial_entities_to_load") or x.endswith("find_remaining_entities") or "Vec" in x for x in src) or True
    chk.ob(rule, "loader-call", bool(ld), "the loader is called once per batch (%d call site(s))" % len(ld), where=f.where(ld[0][1][1].get("l") if ld else None), fn=f.name)
    # loaded entity already in the slice -> merged, never overwritten
    ent = facts.adts.get("std::collections::hash_map::Entry")
    merged = [(b, t) for b, t in f.calls() if callee(t).endswith("loader::merge_entities")]
    vac = [(b, t) for b, t in f.calls() if callee(t).endswith("VacantEntry::<'a, K, V, A>::insert") or callee(t).endswith("VacantEntry<'a, K, V, A>::insert") or "VacantEntry" in callee(t) and callee(t).endswith("::insert")]
    direct = [(b, t) for b, t in f.calls() if callee(t).endswith("HashMap::<K, V, S, A>::insert") and not any(cfg.dominates(f, mb, b) for mb, _ in merged)]
    chk.ob(rule, "merge", bool(merged) and bool(vac) and not direct, "an entity loaded twice is merged with the one in the slice (merge_entities on the occupied entry, plain insert only on the vacant one): %s" %
           (bool(merged) and bool(vac) and not direct), where=f.where(merged[0][1][1].get("l") if merged else None), fn=f.name)
    # every loaded entity schedules its remaining requests; every requested entity gets an ancestors request
    for callee_suffix, what in (("loader::find_remaining_entities", "remaining requests of every loaded entity are scheduled"), ("loader::compute_ancestors_request", "an ancestors request is computed for every requested entity")):
        sites = [(b, t) for b, t in f.calls() if callee(t).endswith(callee_suffix)]
        ok = False
        if sites:
            lp = protocol.loop_of(f, sites[0][0])
            if lp:
                head, some = lp
                K = {b for b, _ in sites}
                # skipping is allowed only on the `not loaded` (None) edge for find_remaining_entities
                cut_edges = set()
                for d, taken in cfg.guard_edges(f, sites[0][0]):
                    if cfg.dominates(f, some, d) and "Option" in shape_disc(f, d):
                        sw = f.blocks[d]["t"]
                        tk = {bb for _, bb in taken}
                        for v, bb in [(v, bb) for v, bb in sw[2]] + [("else", sw[3])]:
                            if bb not in tk:
                                cut_edges.add((d, bb))
                ok = head not in cfg.reachable(f, some, cut_blocks=K, cut_edges=cut_edges)
        chk.ob(rule, callee_suffix.split("::")[-1], ok, "%s: %s" % (what, ok), where=f.where(sites[0][1][1].get("l") if sites else None), fn=f.name)


def shape_disc(f, d):
    t = f.blocks[d]["t"]
    if t[0] != "sw" or t[1][0] not in ("c", "m"):
        return ""
    for b, s in f.stmts():
        if s[0] == "a" and s[1] == t[1][1] and s[2][0] == "disc":
            return s[2][2]
    return ""


def _per_iteration(f, sink_pred, skip_pred):
    """Every loop iteration containing a sink call reaches the sink or leaves through an allowed skip edge. -> (ok, n sinks)"""
    sites = [(b, t) for b, t in f.calls() if sink_pred(callee(t))]
    if not sites:
        return False, 0
    ok = True
    seen_loops = set()
    for b, t in sites:
        lp = protocol.loop_of(f, b)
        if lp is None:
            ok = False
            continue
        head, some = lp
        if head in seen_loops:
            continue
        seen_loops.add(head)
        K = {bb for bb, _ in sites if protocol.loop_of(f, bb) == lp}
        cut_edges = set()
        for d, taken in cfg.guard_edges(f, b):
            if not cfg.dominates(f, some, d):
                continue
            desc = shape_disc(f, d)
            sw = f.blocks[d]["t"]
            tk = {bb for _, bb in taken}
            if skip_pred(f, d, desc):
                for v, bb in [(v, bb) for v, bb in sw[2]] + [("else", sw[3])]:
                    if bb not in tk:
                        cut_edges.add((d, bb))
        if head in cfg.reachable(f, some, cut_blocks=K, cut_edges=cut_edges):
            ok = False
    return ok, len(sites)


def slicing(chk, facts):
    """The slicer answers every request and keeps every requested field that exists."""
    from lib import panics
    rule = "C17.SLICE"
    SL = EM + "slicing::"
    # one answer per request, found or not
    f = facts.fn("<" + SL + "EntitySlicer<'_> as " + EM + "loader::EntityLoader>::load_entities")
    if f is None:
        chk.lost(rule, "EntitySlicer::load_entities")
    else:
        chk.functions.add(f.name)
        ok, n = _per_iteration(f, lambda c: c.endswith("Vec::<T, A>::push") or c.endswith("Vec::<T>::push"), lambda f_, d, desc: False)
        uses_own_trie = any(callee(t).endswith("AccessTrie>::slice_entity") for _, t in f.calls())
        chk.ob(rule, "load_entities", ok and n >= 2 and uses_own_trie, "every request gets exactly one answer (push on the found and on the missing branch: %d sites, no iteration without: %s) and a found entity is sliced with the request's access trie: %s" % (n, ok, uses_own_trie),
               where=f.where(), fn=f.name)
    g = facts.fn("<" + SL + "EntitySlicer<'_> as " + EM + "loader::EntityLoader>::load_ancestors")
    if g is None:
        chk.lost(rule, "EntitySlicer::load_ancestors")
    else:
        chk.functions.add(g.name)
        ok, n = _per_iteration(g, lambda c: c.endswith("Vec::<T, A>::push") or c.endswith("Vec::<T>::push"), lambda f_, d, desc: False)
        desc_calls = sorted({callee(t).split("::")[-1] for _, t in g.calls() if callee(t).startswith("cedar_policy_core::ast::entity::Entity::is_")})
        # a required ancestor that the entity descends from is kept: the true edge of is_descendant_of reaches the insert
        kept = False
        for b, t in g.calls():
            if callee(t).endswith("Entity::is_descendant_of"):
                ins = {bb for bb, tt_ in g.calls() if callee(tt_).endswith("HashSet::<T, S, A>::insert")}
                for sb, m in protocol.bool_edges(g, b):
                    nx = {bb for bb, tt_ in g.calls() if callee(tt_).endswith("::next")}
                    kept = bool(cfg.reachable(g, m[True], cut_blocks=nx) & ins) and not (cfg.reachable(g, m[False], cut_blocks=nx) & ins)
        chk.ob(rule, "load_ancestors", ok and desc_calls == ["is_descendant_of"] and kept, "every ancestors request is answered (%s); a required ancestor is kept exactly when the entity is_descendant_of it (tests used: %s, kept on the true edge only: %s)" % (ok, desc_calls, kept),
               where=g.where(), fn=g.name)
    # slice_entity / slice_val: every requested child that exists is kept, sliced with the child's own trie
    for nm in ("slice_entity", "slice_val"):
        h = facts.fn(EM + "slicing::<impl " + EM + "AccessTrie>::" + nm)
        if h is None:
            chk.lost(rule, "AccessTrie::" + nm)
            continue
        chk.functions.add(h.name)
        ok, n = _per_iteration(h, lambda c: c.endswith("::insert") and ("HashMap" in c or "BTreeMap" in c),
                               lambda f_, d, desc: "Option" in desc)     # `if let Some(..) = entity.get(field)`: an absent field is not kept
        rec = [t for _, t in h.calls() if callee(t).endswith("AccessTrie>::slice_val")]
        drops = sorted({callee(t).split("::")[-1] for _, t in h.calls() if callee(t).split("::")[-1] in WORKLIST_DROPS})
        ok = ok and not drops
        chk.ob(rule, nm, ok and bool(rec), "every requested child present in the data is inserted into the slice (no iteration skips it: %s) after slicing it with the child's trie (%d recursive slice_val)" % (ok, len(rec)),
               where=h.where(), fn=h.name)


def check(chk, facts):
    union(chk, facts)
    load(chk, facts)
    slicing(chk, facts)
