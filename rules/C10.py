"""C10 — entity / context JSON round trip: structural clauses.

Decides: (RESERVED) every `CedarValueJson::Record` built from Cedar data is
dominated by the honoured Ok of `check_for_reserved_keys` on the keys of the same
record, the reserved set is the three escape keys, and nobody else builds JSON
records from Cedar data; (HOM) JSON-value <-> restricted-expression conversions
are mutually inverse on the variant level and keep every child; (FIELDS) entity
JSON carries uid, attrs, parents and tags in both directions.
Declines agreement of schema-directed implicit forms with explicit escapes and
deep equality of parsed data (value-level).
"""
from lib import cfg, protocol, shape, hom, tt
from lib.facts import callee
from lib.rulelib import AtomOracle, arg_syms, get_fn, short, walk

VJ = "cedar_policy_core::entities::json::value::CedarValueJson"
VFILE = "cedar-policy-core/src/entities/json/value.rs"


def record_aggs(f):
    out = []
    for b, s in f.stmts():
        if s[0] == "a" and s[2][0] == "agg" and s[2][1][0] == "adt" and s[2][1][1] == VJ and s[2][1][2] == "Record":
            out.append((b, s))
    return out


def reserved(chk, facts):
    rule = "C10.MUSTPASS.reserved"
    n = 0
    for fname, adt_suffix in ((VJ + "::from_expr", "ast::expr::ExprKind"), (VJ + "::from_valuekind", "ast::value::ValueKind")):
        f = get_fn(chk, facts, rule, fname)
        if f is None:
            continue
        aggs = record_aggs(f)
        checks = protocol.calls_matching(f, "value::check_for_reserved_keys")
        L = shape.Labels(f, None, shape.variant_field_seed(adt_suffix))
        if not aggs:
            chk.ob(rule, short(fname), False, "no CedarValueJson::Record construction found (anchor lost)", where=f.where(), fn=f.name)
            continue
        for b, s in aggs:
            src = set()
            for o in s[2][2]:
                src |= L.operand_labels(o)
            src = {x for x in src if x.startswith("Record.")}
            ok = False
            det = "no reserved-key check dominates it"
            for cb, ct in checks:
                if not cfg.dominates(f, cb, b):
                    continue
                arg = L.operand_labels(ct[2][0]) if ct[2] else set()
                h_ok, h_det = protocol.honor_result(f, cb)
                keys_call = [c for c in [panics_producer(f, ct[2][0])] if c]
                same = bool(src & arg)
                ok = h_ok and same
                det = "dominated by check_for_reserved_keys on %s (%s); the record is built from %s" % (sorted(arg), h_det, sorted(src))
            n += 1
            chk.ob(rule, "%s@L%s" % (short(fname).split("::")[-1], s[3]), ok,
                   "JSON record construction: %s" % det, where=f.where(s[3]), fn=f.name, key="%s:%s" % (rule, fname),
                   sample={"fn": short(fname), "record_from": sorted(src), "check": det[:120]})
    chk.floor(rule, "guarded record constructions", n, 2)
    # the checker itself
    g = get_fn(chk, facts, rule, "cedar_policy_core::entities::json::value::check_for_reserved_keys")
    if g is not None:
        strs = set()
        for b in [g] + facts.closures_of(g.name):
            for _, s in b.stmts():
                if s[0] == "a":
                    for o in (s[2][2] if s[2][0] == "agg" else [s[2][1]] if s[2][0] == "use" else []):
                        if isinstance(o, list) and o[0] == "k" and "s" in o[1]:
                            strs.add(o[1]["s"])
            for _, t in b.calls():
                for o in t[2]:
                    if o[0] == "k" and "s" in o[1]:
                        strs.add(o[1]["s"])
        want = {"__entity", "__extn", "__expr"}
        chk.ob(rule, "reserved-set", want <= strs, "check_for_reserved_keys mentions %s; the three escape keys %s must all be reserved" % (sorted(strs), sorted(want)),
               where=g.where(), fn=g.name, sample={"literals": sorted(strs)})
        # Some(collision) -> Err, None -> Ok
        for var, vi, want_res in (("Some", 1, "Err"), ("None", 0, "Ok")):
            class O(AtomOracle):
                def res_discriminant(self, v, adt, vi=vi):
                    if adt.endswith("Option"):
                        return vi
                    return None
            try:
                ret, tr = tt.Interp(g, O()).run(arg_syms(g))
                got = ret[2] if ret[0] == "adt" else "?"
            except tt.Undecided as e:
                got = "undecided"
            chk.ob(rule, "collision=" + var, got == want_res, "a key collision (%s) yields %s; required %s" % (var, got, want_res), where=g.where(), fn=g.name,
                   sample={"find": var, "result": got})


def panics_producer(f, o):
    from lib import panics
    return panics.producer(f, o)


ALLOWED_RECORD_BUILDERS = ("CedarValueJson::from_expr", "CedarValueJson::from_valuekind", "CedarValueJson::sub_entity_literals",
                           # deserialisation: raw JSON -> CedarValueJson (escapes were resolved by the deserialiser, keys come from JSON text)
                           "From<cedar_policy_core::entities::json::value::RawCedarValueJson>>::from")


def own_record(chk, facts):
    """Hand-written constructions of CedarValueJson::Record in the workspace."""
    rule = "C10.OWN.record"
    from lib import panics
    seen = []
    for u in ("cedar_policy_core.lib", "cedar_policy.lib"):
        facts.load_crate(u)
        for name in facts.unit_fns(u):
            gen, kind, root, ti, file, line = facts.fns.meta(name)
            if gen or panics.is_derive(facts.fns.fnmac(name)):
                continue
            if "/json/" not in file and "est" not in file and "api" not in file and "ffi" not in file and "entities" not in file and "value" not in file and "context" not in file:
                continue
            f = facts.fns[name]
            if record_aggs(f):
                seen.append((name, f))
    for name, f in seen:
        base = f.root or name
        ok = base.endswith(ALLOWED_RECORD_BUILDERS)
        chk.ob(rule, short(name), ok, "%s builds a CedarValueJson::Record; owners are %s (guarded by the reserved-key check, or JSON-to-JSON)" % (short(name), ALLOWED_RECORD_BUILDERS),
               where=f.where(), fn=name, key="%s:%s" % (rule, base))
    chk.floor(rule, "record builders", len(seen), 4)


def value_hom(chk, facts):
    """from_expr / from_valuekind / from_lit and into_expr are inverse on variants, children kept."""
    rule = "C10.HOM.value"
    n = 0

    def ctor_json(c, t):
        for m in ("from_lit", "from_expr", "from_value", "from_valuekind"):
            if c == VJ + "::" + m:
                return "J:" + m
        return None
    # Cedar -> JSON
    prod = {}
    for fname, adt, suffix in ((VJ + "::from_expr", "cedar_policy_core::ast::expr::ExprKind", "ast::expr::ExprKind"),
                               (VJ + "::from_valuekind", "cedar_policy_core::ast::value::ValueKind", "ast::value::ValueKind"),
                               (VJ + "::from_lit", "cedar_policy_core::ast::literal::Literal", "ast::literal::Literal")):
        f = get_fn(chk, facts, rule, fname)
        if f is None:
            continue
        ev = hom.arm_events(facts, f, suffix, ctor_json, include_aggs=("json::value::CedarValueJson", "json::value::FnAndArgs"))
        if ev is None:
            chk.lost(rule, "match in " + short(fname))
            continue
        for vi, arm in sorted(ev["arms"].items()):
            vn, fl = hom.variant_fields(facts, adt, vi)
            built = sorted({e["ctor"] for e in arm["events"] if e["ctor"].startswith("CedarValueJson::")} | {e["ctor"] for e in arm["events"] if e["ctor"] == "J:from_lit"})
            used = set()
            for e in arm["events"]:
                for a in e["args"]:
                    used |= a
            missing = [g for g, ty in fl if "%s.%s" % (vn, g) not in used and vn not in ("Unknown",)]
            prod[(fname.split("::")[-1], vn)] = built
            if not built:
                # error arms (unrepresentable kinds) build nothing
                continue
            n += 1
            chk.ob(rule, "%s:%s" % (fname.split("::")[-1], vn), not missing,
                   "%s arm %s builds %s from %s%s" % (fname.split("::")[-1], vn, built, sorted(used), "" if not missing else "; field(s) %s dropped" % missing),
                   where=f.where(), fn=f.name, key="%s:%s:%s" % (rule, fname.split("::")[-1], vn), sample={"fn": fname.split("::")[-1], "variant": vn, "builds": built})
    # JSON -> Cedar
    g = get_fn(chk, facts, rule, VJ + "::into_expr")
    back = {}
    if g is not None:
        def ctor_re(c, t):
            p = "cedar_policy_core::ast::restricted_expr::RestrictedExpr::"
            if c.startswith(p):
                return "R:" + c[len(p):]
            if c.endswith("FnAndArgs::into_expr"):
                return "R:call_extension_fn"
            return None
        ev = hom.arm_events(facts, g, "json::value::CedarValueJson", ctor_re)
        if ev is not None:
            for vi, arm in sorted(ev["arms"].items()):
                vn, fl = hom.variant_fields(facts, VJ, vi)
                calls = sorted({e["ctor"][2:] for e in arm["events"] if e["ctor"][2:] not in ("new_unchecked", "source_loc", "clone")})
                back[vn] = calls
                used = set()
                for e in arm["events"]:
                    for a in e["args"]:
                        used |= a
                if not calls:
                    continue
                missing = [x for x, ty in fl if "%s.%s" % (vn, x) not in used]
                n += 1
                chk.ob(rule, "into_expr:%s" % vn, not missing, "into_expr arm %s calls %s with %s%s" % (vn, calls, sorted(used), "" if not missing else "; field(s) %s dropped" % missing),
                       where=g.where(), fn=g.name, key="%s:into_expr:%s" % (rule, vn), sample={"variant": vn, "calls": calls})
    # closure: what each JSON variant turns into must come back as the same JSON variant
    KIND = {"val": "Lit", "set": "Set", "record": "Record", "call_extension_fn": "ExtensionFunctionApp"}
    for jv, calls in sorted(back.items()):
        for c in calls:
            k = KIND.get(c)
            if k is None:
                continue
            if k == "Lit":
                lit = {"Bool": "Bool", "Long": "Long", "String": "String", "EntityEscape": "EntityUID"}.get(jv)
                got = prod.get(("from_lit", lit), [])
            else:
                got = prod.get(("from_expr", k), [])
            want = "CedarValueJson::" + jv
            n += 1
            chk.ob(rule, "closure:%s" % jv, want in got, "JSON %s -> %s -> ExprKind::%s -> back to %s; required to contain %s" % (jv, c, k, got, want),
                   where=g.where() if g else None, key="%s:closure:%s" % (rule, jv), sample={"json": jv, "via": c, "back": got})
    chk.floor(rule, "arms and closures", n, 25)


def entity_fields(chk, facts):
    rule = "C10.FIELDS.entity"
    EJ = "cedar_policy_core::entities::json::entities::EntityJson"
    f = get_fn(chk, facts, rule, EJ + "::from_entity")
    if f is not None:
        L = shape.Labels(f, None, None, call_labels=lambda c, t: [c.split("::")[-1]] if c.startswith("cedar_policy_core::ast::entity::Entity::") else None)
        found = False
        for b, s in f.stmts():
            if s[0] == "a" and s[2][0] == "agg" and s[2][1][0] == "adt" and s[2][1][1] == EJ:
                found = True
                names = s[2][1][3]
                got = {nm: sorted(x for x in L.operand_labels(o) if x in ("uid", "attrs", "ancestors", "parents", "indirect_ancestors", "tags")) for nm, o in zip(names, s[2][2])}
                want = {"uid": ["uid"], "attrs": ["attrs"], "tags": ["tags"]}
                par = set(got.get("parents") or [])
                # the JSON `parents` list is the only carrier of the ancestor relation: it must hold every ancestor (direct and indirect)
                par_ok = "ancestors" in par or {"parents", "indirect_ancestors"} <= par
                ok = all(got.get(k) == v for k, v in want.items()) and par_ok
                chk.ob(rule, "from_entity", ok, "EntityJson fields are filled from Entity accessors %s%s" % (got, "" if par_ok else " — `parents` does not carry all ancestors (indirect ancestors are lost in the round trip)"),
                       where=f.where(s[3]), fn=f.name, key="%s:from_entity" % rule, sample=got)
        if not found:
            chk.ob(rule, "from_entity", False, "no EntityJson literal in from_entity", where=f.where(), fn=f.name)
    # parse side: every field of EntityJson is consumed by the parser
    r = facts.adts.get(EJ)
    fields = [fl[0] for fl in r["variants"][0]["fields"]] if r else []
    read = set()
    where = None
    for name in facts.fns:
        if "EntityJsonParser" in name and name.endswith(("::parse_ejson", "::parse_ejson::{closure#0}")) or ("EntityJsonParser" in name and "::parse_ejson::" in name):
            g = facts.fns[name]
            where = where or g.where()
            for b, s in g.stmts():
                if s[0] == "a":
                    for p in shape._rv_places(s[2]):
                        for var, fld, a in shape.place_fields(p):
                            if a == EJ:
                                read.add(fld)
            for b, t in g.calls():
                for o in t[2]:
                    if o[0] in ("c", "m"):
                        for var, fld, a in shape.place_fields(o[1]):
                            if a == EJ:
                                read.add(fld)
    chk.ob(rule, "parse_ejson", bool(fields) and set(fields) <= read, "parse_ejson consumes EntityJson fields %s of %s" % (sorted(read), fields), where=where,
           sample={"read": sorted(read), "fields": fields})


def implicit_forms(chk, facts):
    """Implicit extension forms (`{"fn":..,"arg":..}` without `__extn`, or a bare constructor argument) are spellings the
    schema licenses: a RestrictedExpr may be built from them only inside the `Some(SchemaType::Extension)` arm of the
    expected-type dispatch. Anywhere else (the type-independent `unknown` pre-check in particular) only the explicit escape counts,
    otherwise ordinary records / strings of conforming data would be re-read as extension calls."""
    rule = "C10.GUARD.implicit"
    name = "cedar_policy_core::entities::json::value::ValueParser::val_into_restricted_expr"
    f = get_fn(chk, facts, rule, name)
    if f is None:
        return
    EXT = "cedar_policy_core::entities::json::value::ExtnValueJson"
    r = facts.adts.get(EXT)
    st = facts.adts.get("cedar_policy_core::entities::json::schema_types::SchemaType")
    if r is None or st is None:
        chk.lost(rule, EXT)
        return
    # region of the Extension arm of the dispatch on expected_ty
    ext_region = set()
    for b, scrut, arms, other in shape.variant_switches(f, "schema_types::SchemaType"):
        for vi, tgt in arms.items():
            if st["variants"][vi]["name"] == "Extension":
                ext_region |= cfg.dominated_region(f, tgt)
    chk.ob(rule, "dispatch", bool(ext_region), "val_into_restricted_expr dispatches on the expected SchemaType with an Extension arm: %s" % bool(ext_region), where=f.where(), fn=f.name)
    # closures created inside the Extension arm inherit its licence
    licensed = set()
    for b, s_ in f.stmts():
        if s_[0] == "a" and s_[2][0] == "agg" and s_[2][1][0] == "closure" and b in ext_region:
            licensed.add(s_[2][1][1])
    n = 0
    for g in [f] + facts.closures_of(name):
        for b, scrut, arms, other in shape.variant_switches(g, "json::value::ExtnValueJson"):
            for vi, tgt in sorted(arms.items()):
                vn = r["variants"][vi]["name"]
                if not vn.startswith("Implicit"):
                    continue
                reach = cfg.reachable(g, tgt, cut_blocks={b})
                builds = sorted({short(callee(t)).split("::")[-1] for bb, t in g.calls() if bb in reach and callee(t).startswith("cedar_policy_core::ast::restricted_expr::RestrictedExpr::")
                                 and callee(t).split("::")[-1] in ("unknown", "call_extension_fn", "val", "set", "record")})
                ok_here = (g is f and b in ext_region) or g.name in licensed or any(g.name.startswith(x + "::") for x in licensed)
                n += 1
                chk.ob(rule, "%s@%s" % (vn, short(g.name).split("::")[-1] if g is not f else "dispatch"), ok_here or not builds,
                       "the %s form %s" % (vn, "is accepted under the Extension arm of the expected type" if ok_here else
                                           ("is rejected outside the Extension arm" if not builds else "builds RestrictedExpr::%s outside the Extension arm of the expected type: data of another type is re-read as an extension call" % builds)),
                       where=g.where(), fn=g.name, key="%s:%s:%s" % (rule, vn, "licensed" if ok_here else ",".join(builds)))
    chk.floor(rule, "implicit-form arms", n, 6)


def parse_types(chk, facts):
    """Schema-directed parsing uses the expected type of the thing being parsed: an attribute value is parsed against
    attr_type(its own key), a tag value against tag_type(), and the parsed components are handed to Entity::new under their own names."""
    from lib import xlabels
    rule = "C10.EXPECTED"
    name = "cedar_policy_core::entities::json::entities::EntityJsonParser::<'_, '_, S>::parse_ejson"
    f = get_fn(chk, facts, rule, name)
    if f is None:
        return
    EJ = "cedar_policy_core::entities::json::entities::EntityJson"

    def seed(p):
        return ["F:" + e[2] for e in p[1:] if isinstance(e, list) and e[0] == "f" and e[3] == EJ and e[2]]

    def cl(c, t):
        last = c.split("::")[-1]
        if last == "attr_type":
            return ["T:attrs"]
        if last == "tag_type":
            return ["T:tags"]
        return None
    n = 0
    pairs = []
    for g, L in xlabels.bodies_with_labels(facts, f, seed, call_labels=cl):
        for b, t in g.calls():
            if callee(t).endswith("ValueParser::<'e>::val_into_restricted_expr") or callee(t).endswith("ValueParser::val_into_restricted_expr"):
                val = {x[2:] for x in L.operand_labels(t[2][1]) if x.startswith("F:")}
                ty = {x[2:] for x in L.operand_labels(t[2][2]) if x.startswith("T:")}
                pairs.append((sorted(val), sorted(ty), t[1].get("l"), g))
    for val, ty, line, g in pairs:
        ok = len(val) == 1 and (not ty or ty == val)
        n += 1
        chk.ob(rule, "value:%s@L%s" % ("/".join(val), line), ok, "a value of the JSON `%s` map is parsed against the expected type from %s" % ("/".join(val), ["%s_type" % x.rstrip("s") for x in ty] or "no schema (None)"),
               where=g.where(line), fn=g.name, key="%s:value:%s:%s" % (rule, "/".join(val), "/".join(ty)))
    typed = {tuple(v) for v, ty, _, _ in pairs if ty}
    chk.ob(rule, "both-typed", typed == {("attrs",), ("tags",)}, "both attribute values and tag values have a schema-directed parse: %s" % sorted(typed), where=f.where(), fn=f.name)
    # Entity::new(uid, attrs, indirect_ancestors, parents, tags, ..)
    ctor = facts.fn("cedar_policy_core::ast::entity::Entity::new")
    if ctor is None:
        chk.lost(rule, "ast::entity::Entity::new")
    else:
        pn = {}
        for nm, p in ctor.r["dbg"]:
            if len(p) == 1 and 1 <= p[0] <= ctor.nargs:
                pn.setdefault(p[0], nm)
        L = shape.Labels(f, None, seed)
        for b, t in f.calls():
            if callee(t) == "cedar_policy_core::ast::entity::Entity::new":
                for i, o in enumerate(t[2]):
                    nm = pn.get(i + 1)
                    if nm in ("attrs", "parents", "tags", "uid"):
                        labs = {x[2:] for x in L.operand_labels(o) if x.startswith("F:") and x[2:] in ("attrs", "parents", "tags", "uid")}
                        n += 1
                        chk.ob(rule, "Entity::new:%s" % nm, labs == {nm} or (nm != "uid" and labs == {nm, "uid"}),
                               "Entity::new's `%s` is built from the JSON %s" % (nm, sorted(labs)), where=f.where(t[1].get("l")), fn=f.name, key="%s:Entity::new:%s" % (rule, nm))
    chk.floor(rule, "schema-directed parse sites and constructor arguments", n, 9)


def schema_flow(chk, facts):
    """Public entry points that take a schema hand that schema to the JSON parser they build (the schema-directed
    implicit forms are resolved by the parser; a later conformance check cannot re-read the JSON)."""
    from lib import slice as slc
    rule = "C10.FLOW.schema"
    facts.load_crate("cedar_policy.lib")
    n = 0
    for name in sorted(facts.fns.keys()):
        if not name.startswith("cedar_policy::") or "{closure" in name:
            continue
        f = facts.fns[name]
        news = [(b, t) for b, t in f.calls() if callee(t).endswith("::new") and ("entities::EntityJsonParser::<" in callee(t) or "entities::ContextJsonParser::<" in callee(t)
                                                                                   or "entities::json::entities::EntityJsonParser::<" in callee(t) or "entities::json::context::ContextJsonParser::<" in callee(t))]
        if not news:
            continue
        sparams = [i for i in range(1, f.nargs + 1) if "api::Schema" in f.locals[i]]
        if not sparams:
            continue
        chk.functions.add(f.name)
        for b, t in news:
            prod = slc.leaf_producers(f, t[2][0], extra_transparent=("Option::<T>::map", "::transpose"))
            # the schema parameter must reach the argument (taint through any helper call); a literal None / constant does not carry it
            Ls = shape.Labels(f, None, None, param_labels={i: ["SCHEMA"] for i in sparams})
            ok = "SCHEMA" in Ls.operand_labels(t[2][0]) and "const" not in prod
            n += 1
            chk.ob(rule, "%s@L%s" % (short(f.name), t[1].get("l")), ok,
                   "%s takes a schema and builds a JSON parser: the parser's schema argument is made of %s (must be the schema parameter)" % (short(f.name), sorted(prod)),
                   where=f.where(t[1].get("l")), fn=f.name, key="%s:%s" % (rule, short(f.name)),
                   sample={"fn": short(f.name), "schema_arg": sorted(prod)})
    chk.floor(rule, "schema-taking JSON entry points", n, 12)


def serialise_all(chk, facts):
    """Serialisation carries every entity and every component of an entity: the pipelines from the store's entities and
    from an entity's attrs / ancestors / tags to their JSON forms only map and collect — no dropping adaptor, and no
    collection that would merge two entries with equal JSON."""
    from lib import pipeline
    rule = "C10.PIPE"
    n = 0
    for name, what, allow_set in (("cedar_policy_core::entities::Entities::to_ejsons", "every entity of the store", False),
                                  ("cedar_policy_core::entities::json::entities::EntityJson::from_entity", "every attribute, ancestor and tag of the entity", True)):
        f = get_fn(chk, facts, rule, name)
        if f is None:
            continue
        drops, coll = pipeline.audit(f, facts.closures_of(f.name))
        bad_coll = [c for c in coll if not allow_set and any(x in c for x in pipeline.SETTY)]
        n += 1
        chk.ob(rule, name.split("::")[-1], not drops and not bad_coll and bool(coll),
               "%s is mapped and collected without a dropping step (dropping adaptors: %s; set-typed collections: %s; %d collection(s))" % (what, [d for d, _ in drops] or "none", [c[:50] for c in bad_coll] or "none", len(coll)),
               where=f.where(drops[0][1] if drops else None), fn=f.name, key="%s:%s:%s" % (rule, name.split("::")[-1], ",".join(sorted({d for d, _ in drops}))),
               sample={"fn": name.split("::")[-1], "collections": len(coll)})
    for name in ("cedar_policy_core::entities::Entities::to_json_value", "cedar_policy_core::entities::Entities::write_to_json"):
        f = get_fn(chk, facts, rule, name)
        if f is None:
            continue
        via = [callee(t).split("::")[-1] for _, t in f.calls() if callee(t).startswith("cedar_policy_core::entities::Entities::")]
        n += 1
        chk.ob(rule, name.split("::")[-1], via == ["to_ejsons"], "%s serialises what to_ejsons produces (store-level calls: %s)" % (name.split("::")[-1], via), where=f.where(), fn=f.name)
    chk.floor(rule, "serialisation pipelines", n, 4)


def run(chk, facts, tier):
    facts.load_crate("cedar_policy_core.lib")
    chk.explanation = (
        "Static decision of structural clauses of the entity/context JSON round trip on the current MIR: (MUSTPASS.reserved) each CedarValueJson::Record built in from_expr / "
        "from_valuekind is dominated by check_for_reserved_keys applied to the keys of the same record, whose failure edge cannot reach success; the checker reserves the three "
        "escape keys and maps a collision to Err; (OWN.record) no other hand-written code builds JSON records from Cedar data; (HOM.value) every arm of from_expr / from_valuekind / "
        "from_lit / into_expr keeps all fields of its variant, and JSON -> expression -> JSON returns to the same JSON variant; (FIELDS.entity) EntityJson is filled from uid, attrs, "
        "ancestors and tags, and the parser consumes all four fields. Declines schema-directed implicit forms vs explicit escapes and deep equality of parsed data.")
    chk.assumptions = ["MIR at mir-opt-level=0 reflects source control flow", "serde derive code (exempt as a class) (de)serialises every field"]
    reserved(chk, facts)
    own_record(chk, facts)
    value_hom(chk, facts)
    entity_fields(chk, facts)
    implicit_forms(chk, facts)
    parse_types(chk, facts)
    schema_flow(chk, facts)
    serialise_all(chk, facts)
    from rules import shared_forms
    shared_forms.check(chk, facts, "C10.SIBLING.forms", ["cedar_policy::api::", "cedar_policy_core::entities::"], 15)
