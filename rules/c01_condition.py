"""C01.CONDITION / C01.SCOPE — what "a policy is satisfied" means.

condition() of a policy is  principal-scope && (action-scope && (resource-scope && when/unless-body | true));
each scope constraint denotes the expression the language gives it:
    Any -> true,  == e -> var == e,  in e -> var in e,  is T -> var is T,  is T in e -> (var is T) && (var in e),
with `var` the constraint's own variable (principal / action / resource). Read from the MIR: nesting and order
of the Expr::and calls by label provenance of their arguments; per-variant constructor events for as_expr.
"""
from lib import shape, hom, cfg
from lib.facts import callee
from lib.rulelib import get_fn, short

P = "cedar_policy_core::ast::policy::"
EXPR = ("cedar_policy_core::ast::expr::Expr::<T>::", "cedar_policy_core::ast::expr::Expr::")


def ector(c, t=None):
    for p in EXPR:
        if c.startswith(p) and "::" not in c[len(p):]:
            return c[len(p):]
    return None


def condition(chk, facts):
    rule = "C01.CONDITION"
    f = get_fn(chk, facts, rule, P + "TemplateBody::condition")
    if f is None:
        return
    parts = {"principal_constraint_expr": "P", "action_constraint_expr": "A", "resource_constraint_expr": "R", "non_scope_constraints": "N"}

    def cl(c, t):
        last = c.split("::")[-1]
        if last in parts and "TemplateBody" in c:
            return [parts[last]]
        if ector(c) == "and":
            return None
        return None
    L = shape.Labels(f, None, None, call_labels=cl)
    ands = []
    others = []
    for b, t in f.calls():
        m = ector(callee(t))
        if m == "and":
            a0 = {x for x in L.operand_labels(t[2][0]) if x in "PARN"}
            a1 = {x for x in L.operand_labels(t[2][1]) if x in "PARN"}
            ands.append((frozenset(a0), frozenset(a1), t[1].get("l")))
        elif m in ("or", "not", "ite", "is_eq", "noteq"):
            others.append(m)
    for cl_ in facts.closures_of(f.name):
        for b, t in cl_.calls():
            m = ector(callee(t))
            if m and m not in ("val",):
                others.append("closure:" + m)
    want = {(frozenset("P"), frozenset("ARN")), (frozenset("A"), frozenset("RN")), (frozenset("R"), frozenset("N"))}
    got = {(a, b) for a, b, _ in ands}
    ok = got == want and len(ands) == 3 and not others
    chk.ob(rule, "shape", ok, "condition() = and(%s)%s; required principal && (action && (resource && body)) and nothing else"
           % (sorted(("".join(sorted(a)), "".join(sorted(b))) for a, b in got), (" plus %s" % others) if others else ""), where=f.where(), fn=f.name,
           key="%s:shape" % rule, sample={"ands": [["".join(sorted(a)), "".join(sorted(b))] for a, b, _ in ands]})
    # a policy without when/unless: the body is the literal true
    cs = []
    for g in [f] + facts.closures_of(f.name):
        for b, t in g.calls():
            if ector(callee(t)) == "val" and t[2] and t[2][0][0] == "k":
                cs.append(t[2][0][1].get("v"))
    chk.ob(rule, "no-body", cs == [1], "without a when/unless body the conjunct is the literal %s (required true)" % cs, where=f.where(), fn=f.name)
    # the three scope parts come from their own constraints
    for meth, field, conv in (("principal_constraint_expr", "principal_constraint", "PrincipalConstraint::as_expr"), ("action_constraint_expr", "action_constraint", "ActionConstraint::as_expr"),
                              ("resource_constraint_expr", "resource_constraint", "ResourceConstraint::as_expr")):
        g = facts.fn(P + "TemplateBody::" + meth)
        if g is None:
            chk.lost(rule, P + "TemplateBody::" + meth)
            continue
        cs_ = [callee(t) for _, t in g.calls()]
        reads = {e[2] for _, s in g.stmts() if s[0] == "a" for p_ in shape._rv_places(s[2]) for e in p_[1:] if isinstance(e, list) and e[0] == "f" and e[2] and e[2].endswith("_constraint")}
        reads |= {c.split("::")[-1] for c in cs_ if c.split("::")[-1].endswith("_constraint")}
        ok = any(c.endswith(conv) for c in cs_) and reads == {field}
        chk.ob(rule, meth, ok, "%s is %s of the policy's own %s: conversion %s, reads %s" % (meth, conv, field, [short(c) for c in cs_ if c.endswith("as_expr")], sorted(reads)), where=g.where(), fn=g.name)


# variant -> list of (constructor, [required label set per argument or None])
SCOPE = {
    "Any": [("val", None)],
    "Eq": [("is_eq", None)],
    "In": [("is_in", None)],
    "Is": [("is_entity_type", None)],
    "IsIn": [("is_entity_type", None), ("is_in", None), ("and", None)],
}


def scope(chk, facts):
    rule = "C01.SCOPE"
    ADT = P + "PrincipalOrResourceConstraint"
    f = get_fn(chk, facts, rule, ADT + "::as_expr")
    r = facts.adts.get(ADT)
    if f is None or r is None:
        return
    ev = hom.arm_events(facts, f, "ast::policy::PrincipalOrResourceConstraint", lambda c, t: ector(c))
    if ev is None:
        chk.lost(rule, "match on PrincipalOrResourceConstraint in as_expr")
        return
    n = 0
    for vi, arm in sorted(ev["arms"].items()):
        vn = r["variants"][vi]["name"]
        evs = [e for e in arm["events"] if e["ctor"] not in ("var", "val") or vn == "Any"]
        got = sorted(e["ctor"] for e in evs)
        want = sorted(c for c, _ in SCOPE.get(vn, []))
        probs = []
        if got != want:
            probs.append("builds %s, required %s" % (got, want))
        else:
            for e in evs:
                if e["ctor"] in ("is_eq", "is_in"):
                    # (var, the constraint's entity reference): field 0 for Eq/In, field 1 for IsIn
                    fld = "%s.%s" % (vn, "1" if vn == "IsIn" else "0")
                    l1 = {x for x in e["args"][1] if x.startswith(vn + ".")}
                    l0 = {x for x in e["args"][0] if x.startswith(vn + ".")}
                    if l1 != {fld} or l0:
                        probs.append("%s(lhs from %s, rhs from %s): required (var, %s)" % (e["ctor"], sorted(l0), sorted(l1), fld))
                if e["ctor"] == "is_entity_type":
                    l1 = {x for x in e["args"][1] if x.startswith(vn + ".")}
                    if l1 != {"%s.0" % vn}:
                        probs.append("is_entity_type takes its type from %s" % sorted(l1))
                if e["ctor"] == "val" and vn == "Any":
                    if e["consts"][0] not in ("1", "true", 1, True, "const 1", "k:1") and "1" not in str(e["consts"][0]):
                        probs.append("Any denotes %s" % e["consts"][0])
        n += 1
        chk.ob(rule, vn, not probs, "scope constraint %s denotes %s%s" % (vn, got, (": " + "; ".join(probs)) if probs else ""), where=f.where(evs[0]["line"] if evs else None), fn=f.name,
               key="%s:%s:%s" % (rule, vn, ";".join(probs)), sample={"variant": vn, "builds": got})
    chk.floor(rule, "constraint kinds", n, 5)
    # the variable is the constraint's own
    for wrapper, var in (("PrincipalConstraint", "Principal"), ("ResourceConstraint", "Resource")):
        g = facts.fn(P + wrapper + "::as_expr")
        if g is None:
            chk.lost(rule, P + wrapper + "::as_expr")
            continue
        ok = False
        for b, t in g.calls():
            if callee(t).endswith("PrincipalOrResourceConstraint::as_expr"):
                for b2, s in g.stmts():
                    if s[0] == "a" and s[2][0] == "agg" and s[2][1][0] == "adt" and s[2][1][1].endswith("PrincipalOrResource") and s[2][1][2] == var:
                        ok = True
                o = t[2][1]
                if o[0] == "k":
                    ok = ok or str(o[1]).find(var) >= 0
        chk.ob(rule, wrapper, ok, "%s::as_expr instantiates the constraint with PrincipalOrResource::%s: %s" % (wrapper, var, ok), where=g.where(), fn=g.name)
    conv = None
    for nme in facts.fns.index:
        if "From<cedar_policy_core::ast::policy::PrincipalOrResource>" in nme and "Var" in nme and nme.endswith("::from"):
            conv = facts.fns[nme]
    if conv is None:
        chk.lost(rule, "From<PrincipalOrResource> for Var")
    else:
        POR = facts.adts.get(P + "PrincipalOrResource")
        VAR = facts.adts.get("cedar_policy_core::ast::expr::Var")
        m = {}
        for b, scrut, arms, other in shape.variant_switches(conv, "ast::policy::PrincipalOrResource"):
            for vi, tgt in arms.items():
                for x in cfg.reachable(conv, tgt, cut_blocks={b}):
                    for s in conv.blocks[x]["st"]:
                        if s[0] == "a" and s[1] == [0] and s[2][0] == "agg" and s[2][1][0] == "adt":
                            m[POR["variants"][vi]["name"]] = s[2][1][2]
        chk.ob(rule, "variable", m == {"Principal": "Principal", "Resource": "Resource"}, "PrincipalOrResource -> Var maps %s" % m, where=conv.where(), fn=conv.name)
    # action
    AC = P + "ActionConstraint"
    g = get_fn(chk, facts, rule, AC + "::as_expr")
    ra = facts.adts.get(AC)
    if g is not None and ra is not None:
        ev = hom.arm_events(facts, g, "ast::policy::ActionConstraint", lambda c, t: ector(c))
        want = {"Any": ["val"], "In": ["is_in", "var"], "Eq": ["is_eq", "val", "var"]}
        for vi, arm in sorted((ev or {"arms": {}})["arms"].items()):
            vn = ra["variants"][vi]["name"]
            if vn not in want:
                continue
            got = sorted(e["ctor"] for e in arm["events"] if e["ctor"] not in ("set",))
            probs = []
            if got != want[vn]:
                probs.append("builds %s, required %s" % (got, want[vn]))
            for e in arm["events"]:
                if e["ctor"] in ("is_in", "is_eq"):
                    l1 = {x for x in e["args"][1] if x.startswith(vn + ".")}
                    l0 = {x for x in e["args"][0] if x.startswith(vn + ".")}
                    if l1 != {vn + ".0"} or l0:
                        probs.append("%s(lhs %s, rhs %s)" % (e["ctor"], sorted(l0), sorted(l1)))
                if e["ctor"] == "var":
                    if "Action" not in str(e["consts"][0]) and str(e["consts"][0]) not in ("1", "k:1"):
                        pass
            chk.ob(rule, "action:" + vn, not probs, "action constraint %s denotes %s%s" % (vn, got, (": " + "; ".join(probs)) if probs else ""), where=g.where(), fn=g.name,
                   key="%s:action:%s:%s" % (rule, vn, ";".join(probs)))


def check(chk, facts):
    condition(chk, facts)
    scope(chk, facts)
