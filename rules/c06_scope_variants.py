"""C06.HOM.scope — conversions of scope constraints between the formats keep the kind of constraint.

For every conversion function between the AST, EST and PST scope-constraint enums: in the arm of source variant V every
target value built (an aggregate of the target enum, or a call of one of the target's constructor functions, whose
variant is read from the constructor's own body) is of the kind V denotes: unconstrained <-> unconstrained, `==` <-> `==`,
`in` <-> `in`, `is` <-> `is` / `is .. in`. `action in E` turned into `action == E` on one path is a different policy.
"""
from lib import hom
from lib.facts import callee
from lib.rulelib import short

KIND = {"All": "any", "Any": "any", "Eq": "eq", "In": "in", "Is": "is", "IsIn": "is", "IsTypeIn": "is", "IsType": "is", "ErrorConstraint": "error", "Error": "error"}
ENUM_SUFFIXES = ("ast::policy::PrincipalOrResourceConstraint", "ast::policy::ActionConstraint", "est::scope_constraints::PrincipalConstraint", "est::scope_constraints::ResourceConstraint",
                 "est::scope_constraints::ActionConstraint", "pst::constraints::PrincipalConstraint", "pst::constraints::ResourceConstraint", "pst::constraints::ActionConstraint")


def _ctor_variants(facts):
    """constructor fn -> set of target variants it builds (from its own body)"""
    out = {}
    for name in facts.fns.keys():
        for suf in ENUM_SUFFIXES:
            pre = "cedar_policy_core::" + suf + "::"
            if name.startswith(pre) and "::" not in name[len(pre):] and "{closure" not in name:
                f = facts.fns[name]
                vs = set()
                for _, s in f.stmts():
                    if s[0] == "a" and s[2][0] == "agg" and s[2][1][0] == "adt" and str(s[2][1][1]).endswith(suf):
                        vs.add(s[2][1][2])
                if vs:
                    out[name] = (suf, vs)
    return out


def check(chk, facts, rule="C06.HOM.scope"):
    ctors = _ctor_variants(facts)
    fns = []
    for n in facts.fns.keys():
        if n.endswith(("::from", "::try_from")) and "Constraint" in n and "{closure" not in n and ("est::scope_constraints" in n or "pst::" in n) and "cedar_policy_core" in n:
            srcs = [s for s in ENUM_SUFFIXES if ("From<cedar_policy_core::" + s + ">") in n]
            if srcs:
                fns.append((n, srcs[0]))
    n_ob = 0
    for name, src in sorted(fns):
        f = facts.fns[name]
        r = facts.adts.get("cedar_policy_core::" + src)
        if r is None:
            continue

        def ctor(c, t):
            if c in ctors:
                return "S:" + "|".join(sorted(ctors[c][1]))
            return None
        targets = tuple("cedar_policy_core::" + s for s in ENUM_SUFFIXES if s != src)
        ev = hom.arm_events(facts, f, src, ctor, include_aggs=targets)
        if ev is None:
            continue        # a delegating conversion without a match of its own
        chk.functions.add(f.name)
        for vi, arm in sorted(ev["arms"].items()):
            vn = r["variants"][vi]["name"]
            want = KIND.get(vn)
            built = []
            for e in arm["events"]:
                c = e["ctor"]
                if c.startswith("S:"):
                    built += c[2:].split("|")
                elif "::" in c and c.split("::")[0].endswith("Constraint"):
                    built.append(c.split("::")[1])
            kinds = sorted({KIND.get(b, "?" + b) for b in built})
            ok = want is not None and all(k == want for k in kinds)
            n_ob += 1
            chk.ob(rule, "%s:%s" % (short(name).split("scope_constraints::")[-1].split("est_conversions::")[-1][:90], vn), ok,
                   "in the %s arm the conversion builds %s (kinds %s; the source kind is `%s`)" % (vn, sorted(set(built)) or "nothing of the target enum (delegates or fails)", kinds, want),
                   where=f.where(arm["events"][0]["line"] if arm["events"] else None), fn=f.name, key="%s:%s:%s:%s" % (rule, short(name), vn, ",".join(kinds)),
                   sample={"fn": short(name)[-80:], "arm": vn, "builds": sorted(set(built))} if n_ob % 4 == 0 else None)
    chk.floor(rule, "scope-constraint conversion arms", n_ob, 68)
