"""C02.TABLE.binop / C02.TABLE.unop — every operator is evaluated by the operation its name denotes,
on its own operands in their own positions.

The table below is the language definition of each operator in terms of the evaluator's own
primitives (Set::contains / is_subset / is_disjoint, eval_in, Entity::get_tag, binary_relation,
binary_arith); the check reads, from the MIR of the operator's sub-arm, which primitive is called
and where each operand (A1 = value of the left operand, A2 = right) ends up.
"""
from lib import cfg, shape, protocol
from lib.facts import callee
from lib.rulelib import get_fn, short
from lib.slice import leaf_producers

EV = "cedar_policy_core::evaluator::"
BOP = "cedar_policy_core::ast::ops::BinaryOp"
UOP = "cedar_policy_core::ast::ops::UnaryOp"

PRIMS = {
    "binary_relation": EV + "binary_relation",
    "binary_arith": EV + "binary_arith",
    "eval_in": EV + "Evaluator::eval_in",
    "contains": "cedar_policy_core::ast::value::Set::contains",
    "is_subset": "cedar_policy_core::ast::value::Set::is_subset",
    "is_disjoint": "cedar_policy_core::ast::value::Set::is_disjoint",
    "get_tag": "cedar_policy_core::ast::entity::Entity::get_tag",
}
# op -> (primitive, {arg position: (label, exact?)}, negated?, all success paths go through it?)
BINOPS = {
    "Eq": ("binary_relation", {0: ("OP", False), 1: ("A1", True), 2: ("A2", True)}, False, True),
    "Less": ("binary_relation", {0: ("OP", False), 1: ("A1", True), 2: ("A2", True)}, False, True),
    "LessEq": ("binary_relation", {0: ("OP", False), 1: ("A1", True), 2: ("A2", True)}, False, True),
    "Add": ("binary_arith", {0: ("OP", False), 1: ("A1", True), 2: ("A2", True)}, False, True),
    "Sub": ("binary_arith", {0: ("OP", False), 1: ("A1", True), 2: ("A2", True)}, False, True),
    "Mul": ("binary_arith", {0: ("OP", False), 1: ("A1", True), 2: ("A2", True)}, False, True),
    "In": ("eval_in", {1: ("A1", False), 3: ("A2", True)}, False, False),
    "Contains": ("contains", {0: ("A1", True), 1: ("A2", True)}, False, True),          # a.contains(b): b is an element of a
    "ContainsAll": ("is_subset", {0: ("A2", True), 1: ("A1", True)}, False, True),      # a.containsAll(b): b is a subset of a
    "ContainsAny": ("is_disjoint", {0: ("A1", True), 1: ("A2", True)}, True, True),     # a.containsAny(b): not disjoint (symmetric)
    "GetTag": ("get_tag", {0: ("A1", True), 1: ("A2", True)}, False, False),
    "HasTag": ("get_tag", {0: ("A1", True), 1: ("A2", True)}, False, False),
}
SYMMETRIC = {"is_disjoint"}


def own_region(f, adt_suffix, sw_block, arms, vi):
    """Blocks of variant vi's arm, minus what nested matches on the same scrutinee give to other variants."""
    region = set(cfg.dominated_region(f, arms[vi]))
    # or-patterns with bindings: alternatives share a body none of them dominates; add what this arm reaches before all arms have joined
    reach = {vj: cfg.reachable(f, t_, cut_blocks={sw_block}) for vj, t_ in arms.items()}
    if len(set(arms.values())) > 1:
        groups = {}
        for vj, t_ in arms.items():
            groups.setdefault(t_, reach[vj])
        common = set.intersection(*groups.values())
        region |= (reach[vi] - common)
    for b, scrut, arms2, other in shape.variant_switches(f, adt_suffix):
        if b == sw_block or b not in region:
            continue
        if vi in arms2:
            # a decision tree may fall from this variant's test back into the general case (tuple patterns): what the own
            # target still reaches is not foreign
            mine = cfg.reachable(f, arms2[vi], cut_blocks={b})
            for vj, tgt in arms2.items():
                if vj != vi and tgt != arms2[vi]:
                    region -= (cfg.dominated_region(f, tgt) - mine)
            if other is not None and other != arms2[vi]:
                region -= (cfg.dominated_region(f, other) - mine)
        elif other is not None:
            # vi is handled by the wildcard of this nested match: the explicit arms belong to other variants
            mine = cfg.reachable(f, other, cut_blocks={b})
            for vj, tgt in arms2.items():
                if tgt != other:
                    region -= (cfg.dominated_region(f, tgt) - mine)
    return region


def binops(chk, facts, rule="C02.TABLE.binop", fname=EV + "Evaluator::partial_interpret_internal", kind_suffix="ast::expr::ExprKind", only=None, floor=12, check_total=True):
    """Operand provenance is structural (no local names): A1 / A2 / OP are whatever derives from the BinaryApp node's arg1 / arg2 / op fields."""
    f = get_fn(chk, facts, rule, fname)
    r = facts.adts.get(BOP)
    if f is None or r is None:
        return
    vseed = shape.variant_field_seed(kind_suffix)
    REN = {"BinaryApp.arg1": "A1", "BinaryApp.arg2": "A2", "BinaryApp.op": "OP"}

    def seed(p):
        return [REN[x] for x in (vseed(p) or []) if x in REN]
    sws = sorted(shape.variant_switches(f, "ast::ops::BinaryOp"), key=lambda s: -len(s[2]))
    if not sws:
        chk.lost(rule, "match on BinaryOp")
        return
    b, scrut, arms, other = sws[0]
    L = shape.Labels(f, None, seed,
                     call_labels=lambda c, t: ["RES:" + k for k, v in PRIMS.items() if c == v] or None)
    prim_names = {v: k for k, v in PRIMS.items()}
    succ = protocol.ok_blocks(f)
    n = 0
    for vi, tgt in sorted(arms.items()):
        vn = r["variants"][vi]["name"]
        spec = BINOPS.get(vn)
        if only is not None and vn not in only:
            continue
        if spec is None:
            chk.ob(rule, vn, False, "operator %s has no entry in the reviewed table" % vn, where=f.where(), fn=f.name)
            continue
        prim, pos, negated, total = spec
        region = own_region(f, "ast::ops::BinaryOp", b, arms, vi)
        seen = {}
        for bb in sorted(region):
            t = f.blocks[bb]["t"]
            if t[0] == "call" and callee(t) in prim_names:
                seen.setdefault(prim_names[callee(t)], []).append((bb, t))
        probs = []
        foreign = sorted(set(seen) - {prim})
        if foreign:
            probs.append("also calls %s" % foreign)
        if prim not in seen:
            probs.append("does not call %s" % prim)
        for bb, t in seen.get(prim, []):
            labs = [{x for x in L.operand_labels(o) if x in ("A1", "A2", "OP")} for o in t[2]]
            orders = [pos]
            if prim in SYMMETRIC:
                orders.append({0: pos[1], 1: pos[0]})
            good = False
            for order in orders:
                ok = True
                for i, (want, exact) in order.items():
                    if i >= len(labs) or (labs[i] != {want} if exact else want not in labs[i]):
                        ok = False
                good |= ok
            if not good:
                probs.append("%s at L%s takes its operands as %s, required %s" % (prim, t[1].get("l"), [sorted(x) for x in labs], {i: w for i, (w, _) in pos.items()}))
        if total and check_total and prim in seen:
            K = {bb for bb, _ in seen[prim]}
            if not cfg.must_pass(f, tgt, succ & region, K):
                probs.append("a success exit of the arm avoids %s" % prim)
        if prim in seen:
            nots = [s for bb in region for s in f.blocks[bb]["st"] if s[0] == "a" and s[2][0] == "un" and s[2][1] == "Not" and ("RES:" + prim) in L.operand_labels(s[2][2])]
            if negated and not nots:
                probs.append("the result of %s is not negated" % prim)
            if not negated and nots:
                probs.append("the result of %s is negated" % prim)
        n += 1
        chk.ob(rule, vn, not probs, "%s is evaluated by %s%s%s" % (vn, "!" if negated else "", prim, (": " + "; ".join(probs)) if probs else " on its own operands in order"),
               where=f.where(seen[prim][0][1][1].get("l") if prim in seen else None), fn=f.name, key="%s:%s:%s" % (rule, vn, ";".join(p_.split(" at L")[0] for p_ in probs)),
               sample={"op": vn, "primitive": prim, "positions": {str(i): w for i, (w, _) in pos.items()}, "negated": negated})
    chk.floor(rule, "binary operators", n, floor)
    if rule != "C02.TABLE.binop":
        return
    # operand type tests are not path-dependent: an operand that the arm coerces to a type (get_as_entity / get_as_string /
    # get_as_long / get_as_set ...) on some path is coerced on every path to a successful result of that arm
    rule_c = "C02.TABLE.coerce"
    nc = 0
    for vi, tgt in sorted(arms.items()):
        vn = r["variants"][vi]["name"]
        region = own_region(f, "ast::ops::BinaryOp", b, arms, vi)
        oks = set()
        for bb in region:
            blk = f.blocks[bb]
            for s_ in blk["st"]:
                if s_[0] == "a" and s_[2][0] == "agg" and s_[2][1][0] == "adt" and s_[2][1][2] == "Ok" and str(s_[2][1][1]).endswith("result::Result"):
                    oks.add(bb)
            t_ = blk["t"]
            if t_[0] == "call" and t_[3] == [0] and not callee(t_).endswith("from_residual"):
                oks.add(bb)
        for operand in ("A1", "A2"):
            sites = set()
            kinds = set()
            for bb in region:
                t_ = f.blocks[bb]["t"]
                if t_[0] == "call" and callee(t_).split("::")[-1].startswith("get_as_") and t_[2] and {x for x in L.operand_labels(t_[2][0]) if x in ("A1", "A2")} == {operand}:
                    sites.add(bb)
                    kinds.add(callee(t_).split("::")[-1])
            if not sites:
                continue
            esc = sorted(cfg.reachable(f, tgt, cut_blocks=sites) & (oks - sites))
            nc += 1
            chk.ob(rule_c, "%s:%s" % (vn, operand), not esc,
                   "%s: operand %s is type-tested (%s) on every path to a successful result of the arm: %s" % (vn, operand, "/".join(sorted(kinds)), "yes" if not esc else "no — a result at %s is produced without it" % [f.where(f.blocks[x]["t"][1].get("l") if f.blocks[x]["t"][0] == "call" else None) for x in esc][:2]),
                   where=f.where(), fn=f.name, key="%s:%s:%s" % (rule_c, vn, operand), sample={"op": vn, "operand": operand, "coercions": sorted(kinds)})
    chk.floor(rule_c, "coerced operands", nc, 10)
    return


def unops(chk, facts):
    rule = "C02.TABLE.unop"
    f = get_fn(chk, facts, rule, EV + "unary_app")
    r = facts.adts.get(UOP)
    if f is None or r is None:
        return
    sws = sorted(shape.variant_switches(f, "ast::ops::UnaryOp"), key=lambda s: -len(s[2]))
    if not sws:
        # `op` is passed by value: the switch is on the parameter's discriminant
        chk.lost(rule, "match on UnaryOp in unary_app")
        return
    b, scrut, arms, other = sws[0]
    WANT = {"Not": ("get_as_bool", None), "Neg": ("get_as_long", "checked_neg"), "IsEmpty": ("get_as_set", "is_empty")}
    n = 0
    for vi, tgt in sorted(arms.items()):
        vn = r["variants"][vi]["name"]
        if vn not in WANT:
            chk.ob(rule, vn, False, "operator %s has no entry in the reviewed table" % vn, where=f.where(), fn=f.name)
            continue
        coerce, prim = WANT[vn]
        region = own_region(f, "ast::ops::UnaryOp", b, arms, vi)
        cs = [(bb, f.blocks[bb]["t"]) for bb in sorted(region) if f.blocks[bb]["t"][0] == "call"]
        names = [callee(t).split("::")[-1] for _, t in cs]
        probs = []
        if coerce not in names:
            probs.append("operand is not coerced with %s" % coerce)
        if prim == "is_empty" and "is_empty" not in names and "len" in names:
            # `len() == 0` is the same test
            eq0 = [s_ for bb in region for s_ in f.blocks[bb]["st"] if s_[0] == "a" and s_[2][0] == "bin" and s_[2][1].startswith("Eq")
                   and any(o[0] == "k" and o[1].get("v") == 0 for o in (s_[2][2], s_[2][3]))]
            if not eq0:
                probs.append("does not test emptiness (len() without `== 0`)")
            names = [x if x != "len" else "is_empty" for x in names]
        if prim and prim not in names:
            probs.append("does not apply %s" % prim)
        others = [x for x in ("get_as_bool", "get_as_long", "get_as_set", "checked_neg", "is_empty", "checked_abs", "wrapping_neg", "len") if x in names and x not in (coerce, prim)]
        if others:
            probs.append("also applies %s" % others)
        if vn == "Not":
            # true -> false, false -> true
            for bb, t in cs:
                if callee(t).endswith("get_as_bool"):
                    for sb, m in protocol.bool_edges(f, bb):
                        for pol in (True, False):
                            consts = set()
                            for x in cfg.reachable(f, m[pol], cut_blocks={m[not pol]}) & region:
                                tt_ = f.blocks[x]["t"]
                                if tt_[0] == "call" and tt_[2] and tt_[2][0][0] == "k" and tt_[2][0][1].get("t") == "bool":
                                    consts.add(int(tt_[2][0][1].get("v")))
                            if consts != {0 if pol else 1}:
                                probs.append("`!%s` yields %s" % (str(pol).lower(), sorted(consts)))
        n += 1
        chk.ob(rule, vn, not probs, "%s: %s" % (vn, "; ".join(probs) if probs else "coerces with %s%s" % (coerce, (" and applies " + prim) if prim else " and flips the boolean")),
               where=f.where(), fn=f.name, key="%s:%s:%s" % (rule, vn, ";".join(probs)))
    chk.floor(rule, "unary operators", n, 3)
    # the evaluator's UnaryApp arm hands the same operator and the operand's value to unary_app
    g = get_fn(chk, facts, rule, EV + "Evaluator::partial_interpret_internal")
    if g is not None:
        sites = [(bb, t) for bb, t in g.calls() if callee(t) == EV + "unary_app"]
        L = shape.Labels(g, None, shape.variant_field_seed("ast::expr::ExprKind"))
        ok = bool(sites)
        det = []
        for bb, t in sites:
            l0 = {x for x in L.operand_labels(t[2][0]) if x.startswith("UnaryApp.")}
            l1 = {x for x in L.operand_labels(t[2][1]) if x.startswith("UnaryApp.")}
            ok &= l0 == {"UnaryApp.op"} and l1 == {"UnaryApp.arg"}
            det.append((sorted(l0), sorted(l1)))
        chk.ob(rule, "dispatch", ok, "the UnaryApp arm calls unary_app(op, value of arg): %s" % det, where=g.where(sites[0][1][1].get("l") if sites else None), fn=g.name)


def check(chk, facts):
    binops(chk, facts)
    unops(chk, facts)
    membership(chk, facts)
    access(chk, facts)
    desugar(chk, facts)
    relops(chk, facts)


def tpe_in(chk, facts, rule="C14.TABLE.in"):
    """TPE `in` on two concrete operands: reflexive whatever is known about the hierarchy. The `uid1 == uid2` test (single entity)
    and the `uids.contains(uid1)` test (entity set) answer true and are not conditional on the ancestors of uid1 being known."""
    from lib import panics
    f = get_fn(chk, facts, rule, "cedar_policy_core::tpe::evaluator::Evaluator::interpret")
    r = facts.adts.get(BOP)
    if f is None or r is None:
        return
    sws = sorted(shape.variant_switches(f, "ast::ops::BinaryOp"), key=lambda s_: -len(s_[2]))
    if not sws:
        chk.lost(rule, "match on BinaryOp in tpe interpret")
        return
    b, scrut, arms, other = sws[0]
    vi = [i for i, v in enumerate(r["variants"]) if v["name"] == "In"][0]
    if vi not in arms:
        chk.lost(rule, "In arm of tpe interpret")
        return
    region = own_region(f, "ast::ops::BinaryOp", b, arms, vi)

    def anc_guarded(bb):
        out = []
        for d, taken in cfg.guard_edges(f, bb):
            if d in region:
                desc = panics.cond_desc(f, d)
                if "get_ancestors" in desc:
                    out.append(desc)
        return out
    tests = {"single": [], "set": []}
    for bb in sorted(region):
        t = f.blocks[bb]["t"]
        if t[0] != "call":
            continue
        c = callee(t)
        tys = [f.locals[o[1][0]] if o[0] in ("c", "m") else "" for o in t[2][:2]]
        if c.endswith("::eq") and "PartialEq" in c and all("EntityUID" in ty for ty in tys):
            tests["single"].append((bb, t))
        if c.split("::")[-1] == "contains" and len(tys) == 2 and "EntityUID" in tys[1] and "EntityUID" in tys[0]:
            # membership of uid1 itself in the right-hand set (not the ancestor lookup)
            prod = panics.producer(f, t[2][0])
            if "get_as_entity_set" in prod or "entity_set" in prod:
                tests["set"].append((bb, t))
    for kind, ts in tests.items():
        probs = []
        if not ts:
            probs.append("no reflexivity test (%s right-hand side)" % kind)
        for bb, t in ts:
            g = anc_guarded(bb)
            if g:
                probs.append("the reflexivity test at L%s is only made under %s" % (t[1].get("l"), g))
        chk.ob(rule, "reflexive:" + kind, not probs, "`e in e` (%s right-hand side) is true whether or not the ancestors of e are known: %s" % (kind, "; ".join(probs) if probs else "tested unconditionally"),
               where=f.where(ts[0][1][1].get("l") if ts else None), fn=f.name, key="%s:reflexive:%s" % (rule, kind))


def check_tpe(chk, facts, rule="C14.TABLE.binop"):
    """The TPE evaluator's own dispatch on two concrete operands: same primitives, same operand positions
    (`in` and the tag operators are evaluated against partial entities and have no shared primitive: not examined here)."""
    binops(chk, facts, rule=rule, fname="cedar_policy_core::tpe::evaluator::Evaluator::interpret", kind_suffix="tpe::residual::ResidualKind",
           only=("Eq", "Less", "LessEq", "Add", "Sub", "Mul", "Contains", "ContainsAll", "ContainsAny"), floor=9, check_total=False)
    tpe_in(chk, facts)


# ---------------------------------------------------------------------------------------------
def _bool_into_blocks(f, value):
    """Blocks calling Into::into(const <value>:bool) — how the evaluator builds literal true / false results."""
    out = set()
    for b, t in f.calls():
        if callee(t).endswith("Into<U>>::into") or callee(t).endswith("::into") or callee(t).endswith("::from"):
            if t[2] and t[2][0][0] == "k" and t[2][0][1].get("t") == "bool" and int(t[2][0][1].get("v", -1)) == value:
                out.add(b)
    return out


def membership(chk, facts):
    """`in`: reflexive, transitive through the stored ancestors, false for an entity without a record, over every element of a set."""
    rule = "C02.TABLE.in"
    f = get_fn(chk, facts, rule, EV + "Evaluator::eval_in")
    if f is None:
        return
    trues, falses = _bool_into_blocks(f, 1), _bool_into_blocks(f, 0)
    nexts = [(b, t) for b, t in f.calls() if callee(t).endswith("::next")]
    lp = None
    for b, t in nexts:
        sws, _ = protocol.result_switches(f, t[3][0])
        for sb, kind, arms, oth in sws:
            if kind == "disc" and 1 in arms and 0 in arms:
                lp = (b, arms[1], arms[0])
    if lp is None:
        chk.lost(rule, "loop over the right-hand uids in eval_in")
        return
    head, some, done = lp
    # (1) reflexive: uid1 == uid2 on its true edge answers true without consulting the hierarchy
    eqs = [(b, t) for b, t in f.calls() if callee(t).endswith("::eq") and "PartialEq" in callee(t) and cfg.dominates(f, some, b)]
    desc_sites = []
    for g in [f] + facts.closures_of(f.name):
        for b, t in g.calls():
            c = callee(t)
            if c.startswith("cedar_policy_core::ast::entity::Entity::is_") or c.startswith("cedar_policy_core::ast::entity::Entity::ancestors"):
                desc_sites.append((g, b, t))
    refl = False
    for b, t in eqs:
        p0 = leaf_producers(f, t[2][0])
        p1 = leaf_producers(f, t[2][1])
        sides = p0 | p1
        if "param:2" in sides and any(x.startswith("place:") for x in sides):
            for sb, m in protocol.bool_edges(f, b):
                r_true = cfg.reachable(f, m[True], cut_blocks={head})
                if r_true & trues:
                    refl = True
    chk.ob(rule, "reflexive", refl, "`uid1 == uid2` answers true (an entity is `in` itself, with or without a record): %s" % refl, where=f.where(eqs[0][1][1].get("l") if eqs else None), fn=f.name)
    # (2) transitive: the hierarchy test is is_descendant_of (all ancestors), not a direct-parent test
    names = sorted({callee(t).split("::")[-1] for _, _, t in desc_sites})
    chk.ob(rule, "transitive", names == ["is_descendant_of"], "hierarchy membership is decided by Entity::%s (required: is_descendant_of — direct and indirect ancestors)" % names,
           where=f.where(desc_sites[0][2][1].get("l") if desc_sites else None), fn=f.name, key="%s:transitive:%s" % (rule, ",".join(names)))
    # (3) no record -> not a descendant: unwrap_or(false)
    uw = [(b, t) for b, t in f.calls() if callee(t).endswith("Option::<T>::unwrap_or") or callee(t).endswith("::is_some_and") or callee(t).endswith("::map_or")]
    ok3 = bool(uw)
    for b, t in uw:
        c = callee(t)
        if c.endswith("unwrap_or"):
            ok3 &= t[2][1][0] == "k" and int(t[2][1][1].get("v", -1)) == 0
        elif c.endswith("map_or"):
            ok3 &= t[2][1][0] == "k" and int(t[2][1][1].get("v", -1)) == 0
    chk.ob(rule, "absent-entity", ok3, "an entity without a record is a descendant of nothing (default false): %s" % ok3, where=f.where(uw[0][1][1].get("l") if uw else None), fn=f.name)
    # (4) every element is considered: `false` is answered only after the loop is exhausted; inside the loop the only exits are `true` and the next iteration
    early_false = cfg.reachable(f, some, cut_blocks={head}) & falses
    late_false = cfg.reachable(f, done) & falses
    chk.ob(rule, "all-elements", not early_false and bool(late_false), "false is answered only after every uid of the right-hand side was tried: %s" % (not early_false and bool(late_false)),
           where=f.where(), fn=f.name)
    # (5) the right-hand side is one uid or a whole entity set
    cs = [callee(t) for _, t in f.calls()]
    chk.ob(rule, "rhs", any(c.endswith("get_as_entity_set") for c in cs), "a set right-hand side is read with get_as_entity_set (every element must be an entity): %s" % any(c.endswith("get_as_entity_set") for c in cs),
           where=f.where(), fn=f.name)


def access(chk, facts):
    """has / like / is in the evaluator: the primitive and the absent-entity rule."""
    rule = "C02.TABLE.access"
    f = get_fn(chk, facts, rule, EV + "Evaluator::partial_interpret_internal")
    r = facts.adts.get("cedar_policy_core::ast::expr::ExprKind")
    D = facts.adts.get("cedar_policy_core::entities::Dereference")
    if f is None or r is None or D is None:
        if D is None:
            chk.lost(rule, "entities::Dereference")
        return
    from lib import hom
    ev = hom.arm_events(facts, f, "ast::expr::ExprKind", lambda c, t: None)
    if ev is None:
        chk.lost(rule, "match on ExprKind")
        return
    arms = {r["variants"][vi]["name"]: a for vi, a in ev["arms"].items()}
    trues, falses = _bool_into_blocks(f, 1), _bool_into_blocks(f, 0)
    errs = {b for b, s in f.stmts() if s[0] == "a" and s[2][0] == "agg" and s[2][1][0] == "adt" and s[2][1][2] == "Err"}
    # ---- has: absent entity -> false (never an error); present -> get(attr).is_some()
    a = arms.get("HasAttr")
    if a is None:
        chk.lost(rule, "HasAttr arm")
    else:
        region = a["region"]
        found = False
        for b, scrut, sarms, other in shape.variant_switches(f, "entities::Dereference"):
            if b not in region:
                continue
            found = True
            for vi, tgt in sarms.items():
                vn = D["variants"][vi]["name"]
                reach = cfg.reachable(f, tgt, cut_blocks={b}) & cfg.dominated_region(f, tgt)
                if vn == "NoSuchEntity":
                    ok = bool(reach & falses) and not (reach & errs) and not (reach & trues)
                    chk.ob(rule, "has:absent-entity", ok, "`e has a` on an entity without a record is false, not an error: %s" % ok, where=f.where(), fn=f.name)
                if vn == "Data":
                    cs = [callee(f.blocks[x]["t"]) for x in reach if f.blocks[x]["t"][0] == "call"]
                    ok = any(c.endswith("Entity::get") for c in cs) and any(c.endswith("::is_some") for c in cs)
                    chk.ob(rule, "has:entity", ok, "`e has a` on a stored entity is Entity::get(a).is_some(): %s" % ok, where=f.where(), fn=f.name)
        if not found:
            chk.lost(rule, "match on Dereference in the HasAttr arm")
    # ---- like: pattern.wildcard_match(string value of the operand)
    a = arms.get("Like")
    if a is not None:
        L = a["labels"]
        sites = [(b, f.blocks[b]["t"]) for b in a["region"] if f.blocks[b]["t"][0] == "call" and callee(f.blocks[b]["t"]).endswith("Pattern::wildcard_match")]
        ok = bool(sites)
        for b, t in sites:
            l0 = {x for x in L.operand_labels(t[2][0]) if x.startswith("Like.")}
            l1 = {x for x in L.operand_labels(t[2][1]) if x.startswith("Like.")}
            ok &= l0 == {"Like.pattern"} and l1 == {"Like.expr"}
        coerced = any(callee(f.blocks[b]["t"]).endswith("get_as_string") for b in a["region"] if f.blocks[b]["t"][0] == "call")
        chk.ob(rule, "like", ok and coerced, "`e like p` is p.wildcard_match(string value of e): %s" % (ok and coerced), where=f.where(sites[0][1][1].get("l") if sites else None), fn=f.name)
    # ---- is: entity_type() of the value compared with the named type
    a = arms.get("Is")
    if a is not None:
        L = a["labels"]
        region = a["region"]
        eqs = [(b, f.blocks[b]["t"]) for b in region if f.blocks[b]["t"][0] == "call" and callee(f.blocks[b]["t"]).endswith("::eq") and "PartialEq" in callee(f.blocks[b]["t"])]
        ok = False
        for b, t in eqs:
            labs = [{x for x in L.operand_labels(o) if x.startswith("Is.")} for o in t[2][:2]]
            prods = [leaf_producers(f, o) for o in t[2][:2]]
            if {"Is.entity_type"} in labs and any(any(p.endswith("EntityUID::entity_type") for p in ps) for ps in prods):
                ok = True
        neg = [s for b in region for s in f.blocks[b]["st"] if s[0] == "a" and s[2][0] == "un" and s[2][1] == "Not"]
        chk.ob(rule, "is", ok and not neg, "`e is T` compares entity_type() of the value with T, not negated: %s" % (ok and not neg), where=f.where(eqs[0][1][1].get("l") if eqs else None), fn=f.name)


DESUGAR = {
    # builder method -> the tree it must build (derived by constant propagation through the builder's own methods)
    "greater": "UnaryApp(op=UnaryOp::Not,arg=BinaryApp(op=BinaryOp::LessEq,arg1=$2,arg2=$3))",      # a > b   ==  !(a <= b)
    "greatereq": "UnaryApp(op=UnaryOp::Not,arg=BinaryApp(op=BinaryOp::Less,arg1=$2,arg2=$3))",      # a >= b  ==  !(a < b)
    "noteq": "UnaryApp(op=UnaryOp::Not,arg=BinaryApp(op=BinaryOp::Eq,arg1=$2,arg2=$3))",            # a != b  ==  !(a == b)
    "is_in_entity_type": "And(left=Is(expr=$2,entity_type=$3),right=BinaryApp(op=BinaryOp::In,arg1=$2,arg2=$4))",   # e is T in x == e is T && e in x
    "less": "BinaryApp(op=BinaryOp::Less,arg1=$2,arg2=$3)",
    "lesseq": "BinaryApp(op=BinaryOp::LessEq,arg1=$2,arg2=$3)",
    "is_eq": "BinaryApp(op=BinaryOp::Eq,arg1=$2,arg2=$3)",
    "is_in": "BinaryApp(op=BinaryOp::In,arg1=$2,arg2=$3)",
    "contains": "BinaryApp(op=BinaryOp::Contains,arg1=$2,arg2=$3)",
    "contains_all": "BinaryApp(op=BinaryOp::ContainsAll,arg1=$2,arg2=$3)",
    "contains_any": "BinaryApp(op=BinaryOp::ContainsAny,arg1=$2,arg2=$3)",
    "get_tag": "BinaryApp(op=BinaryOp::GetTag,arg1=$2,arg2=$3)",
    "has_tag": "BinaryApp(op=BinaryOp::HasTag,arg1=$2,arg2=$3)",
    "add": "BinaryApp(op=BinaryOp::Add,arg1=$2,arg2=$3)",
    "sub": "BinaryApp(op=BinaryOp::Sub,arg1=$2,arg2=$3)",
    "mul": "BinaryApp(op=BinaryOp::Mul,arg1=$2,arg2=$3)",
    "not": "UnaryApp(op=UnaryOp::Not,arg=$2)",
    "neg": "UnaryApp(op=UnaryOp::Neg,arg=$2)",
    "is_empty": "UnaryApp(op=UnaryOp::IsEmpty,arg=$2)",
}


def desugar(chk, facts):
    """The surface operators without a node of their own are built from the core operators the language definition gives,
    operands left to right; every named builder method builds the operator it is named after."""
    rule = "C02.TABLE.desugar"
    from lib import hom
    bm = hom.builder_map(facts, "cedar_policy_core::ast::expr::ExprBuilder<T>", ("ast::expr::ExprKind",))
    n = 0
    for m, want in sorted(DESUGAR.items()):
        b = bm.get(m)
        if b is None:
            chk.lost(rule, "ExprBuilder::" + m)
            continue
        got = b.get("sig", b.get("undecided"))
        n += 1
        chk.ob(rule, m, got == want, "ExprBuilder::%s builds %s%s" % (m, got, "" if got == want else " — the definition requires %s" % want),
               where="%s:%s" % (b.get("file"), b.get("line")) if b.get("file") else None, fn=b.get("fn"), key="%s:%s" % (rule, m), sample={"method": m, "builds": got})
    chk.floor(rule, "builder methods", n, 19)


RELOPS = {"Less": "less", "LessEq": "lesseq", "GreaterEq": "greatereq", "Greater": "greater", "NotEq": "noteq", "Eq": "is_eq", "In": "is_in"}


def relops(chk, facts):
    """The parser hands each relational operator token to the builder method of the same name, operands left to right."""
    rule = "C02.TABLE.relop"
    name = "cedar_policy_core::parser::cst_to_ast::construct_expr_rel"
    f = facts.fn(name)
    if f is None:
        hits = [n for n in facts.fns.index if n.startswith(name) and "closure" not in n]
        f = facts.fns[hits[0]] if len(hits) == 1 else None
    r = facts.adts.get("cedar_policy_core::parser::cst::RelOp")
    if f is None or r is None:
        chk.lost(rule, name)
        return
    chk.functions.add(f.name)
    sws = sorted(shape.variant_switches(f, "parser::cst::RelOp"), key=lambda s_: -len(s_[2]))
    if not sws:
        chk.lost(rule, "match on RelOp")
        return
    b, scrut, arms, other = sws[0]
    L = shape.Labels(f, None, None, param_labels={1: {"LHS"}, 3: {"RHS"}})
    n = 0
    for vi, tgt in sorted(arms.items()):
        vn = r["variants"][vi]["name"]
        if vn not in RELOPS:
            continue
        region = own_region(f, "parser::cst::RelOp", b, arms, vi)
        calls = [(bb, f.blocks[bb]["t"]) for bb in sorted(region) if f.blocks[bb]["t"][0] == "call" and callee(f.blocks[bb]["t"]).split("::")[-1] in set(RELOPS.values()) | {"not", "and", "or"}]
        meths = [callee(t).split("::")[-1] for _, t in calls]
        ok = meths == [RELOPS[vn]]
        order = False
        if ok:
            t = calls[0][1]
            l1 = {x for x in L.operand_labels(t[2][1]) if x in ("LHS", "RHS")}
            l2 = {x for x in L.operand_labels(t[2][2]) if x in ("LHS", "RHS")}
            order = l1 == {"LHS"} and l2 == {"RHS"}
        n += 1
        chk.ob(rule, vn, ok and order, "token %s is built with builder.%s%s" % (vn, meths, "(lhs, rhs)" if order else " — operands not in source order" if ok else " — required %s" % RELOPS[vn]),
               where=f.where(calls[0][1][1].get("l") if calls else None), fn=f.name, key="%s:%s" % (rule, vn))
    chk.floor(rule, "relational operator tokens", n, 7)
