"""C17 — entity-manifest slicing: traversal structure only.

Decides: (TRAVERSE) entity_manifest_from_expr visits every child of every
variant and what it computes for the child flows into its result; (REQUEST) the
data-touching forms register their requests: attribute access adds the accessed
attribute, `in` requires the ancestors named by its right operand, and the
equality-like operators require the full type of both operands.
Declines sufficiency of the computed slice for authorization.
"""
from lib import traverse, shape, hom
from lib.facts import callee
from lib.rulelib import get_fn

EM = "cedar_policy_core::validator::entity_manifest::"
EXPRKIND = "cedar_policy_core::ast::expr::ExprKind"
MARK = ("ast::expr::Expr<",)


def run(chk, facts, tier):
    facts.load_crate("cedar_policy_core.lib")
    chk.explanation = (
        "Static decision of the traversal structure of the entity-manifest analysis on the current MIR: (TRAVERSE) with variant-qualified label provenance every child of every "
        "ExprKind variant reaches a recursive call of entity_manifest_from_expr and the child's result flows into the returned analysis result; (REQUEST) GetAttr/HasAttr pass "
        "their attribute to get_or_has_attr, `in` passes the right operand's paths to with_ancestors_required on the left operand, and ==/in/contains* apply full_type_required to "
        "both operands; (UNION) merging access tries is total: every request-carrying field of the other trie is merged on every path and every map entry is inserted or unioned; "
        "(LOAD) load_entities sends every computed request to the loader (the work list is never filtered), merges an entity loaded twice, schedules the remaining requests of every "
        "loaded entity and computes an ancestors request for every requested entity. Declines that the resulting slice suffices for authorization (relates the analysis to evaluator semantics).")
    chk.assumptions = ["label provenance is flow-insensitive per function (variant-qualified seeds)", "MIR at mir-opt-level=0 reflects source control flow"]
    rule = "C17.TRAVERSE"
    f = get_fn(chk, facts, rule, EM + "entity_manifest_from_expr")
    if f is None:
        return
    sink = lambda c, t: c == EM + "entity_manifest_from_expr"
    traverse.check(chk, rule, facts, f, EXPRKIND, "ast::expr::ExprKind", MARK, sink, floor=17)
    L = shape.Labels(f, None, shape.variant_field_seed("ast::expr::ExprKind"))
    kids = traverse.child_fields(facts, EXPRKIND, MARK) or []
    ret = L.lab.get(0, set())
    missing = ["%s.%s" % k for k in kids if "%s.%s" % k not in ret]
    chk.ob(rule, "returned", not missing, "the analysis of every child flows into the returned result%s" % ("" if not missing else "; not returned: %s" % missing),
           where=f.where(), fn=f.name, sample={"children": len(kids), "returned": len(kids) - len(missing)})
    rule = "C17.REQUEST"
    reached = traverse.sinks_reached(facts, f, "ast::expr::ExprKind", lambda c, t: c.endswith(("::get_or_has_attr", "::with_ancestors_required", "::full_type_required")))
    for lab, what in (("GetAttr.attr", "get_or_has_attr"), ("HasAttr.attr", "get_or_has_attr"), ("GetAttr.expr", "get_or_has_attr"), ("HasAttr.expr", "get_or_has_attr")):
        hit = [c for c, l in reached.get(lab, []) if c.endswith(what)]
        chk.ob(rule, lab, bool(hit), "%s reaches %s: %s" % (lab, what, bool(hit)), where=f.where(), fn=f.name, sample={"label": lab, "sink": what})
    # `in`: ancestors of the left operand as named by the right operand
    ok = False
    for b, t in f.calls():
        if callee(t).endswith("::with_ancestors_required") and len(t[2]) >= 2:
            a0, a1 = L.operand_labels(t[2][0]), L.operand_labels(t[2][1])
            ok = "BinaryApp.arg1" in a0 and "BinaryApp.arg2" in a1
    chk.ob(rule, "in:ancestors", ok, "`in` requires, on the left operand's paths, the ancestors named by the right operand's paths: %s" % ok, where=f.where(), fn=f.name)
    ft = [(L.operand_labels(t[2][0]), t[1].get("l")) for b, t in f.calls() if callee(t).endswith("::full_type_required")]
    both = any("BinaryApp.arg1" in a for a, _ in ft) and any("BinaryApp.arg2" in a and "BinaryApp.arg1" not in a for a, _ in ft)
    chk.ob(rule, "equality:full-type", both, "equality-like operators require the full type of both operands (%d full_type_required sites): %s" % (len(ft), both), where=f.where(), fn=f.name)
    from rules import c17_slice
    c17_slice.check(chk, facts)
    from rules import c17_consume
    c17_consume.check(chk, facts)
    c17_consume.ancestors_threading(chk, facts)
