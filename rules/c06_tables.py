"""Finite operator / name tables must be mutual inverses (C06.TABLE.inverse)."""
from lib import tt
from lib.rulelib import AtomOracle, get_fn, short


def enum_map(facts, f, src_adt, chk=None, rule=None):
    """Interpret a `match`-on-enum conversion for every variant of src_adt.
    -> {src variant name: result description}"""
    r = facts.adts.get(src_adt)
    if r is None:
        return None
    out = {}
    for vi, v in enumerate(r["variants"]):
        class O(AtomOracle):
            def discriminant(self, path, adt, vi=vi):
                if adt == src_adt or adt.split("::")[-1] == src_adt.split("::")[-1]:
                    return vi
                return None
        try:
            ret, trace = tt.Interp(f, O()).run({i: ("sym", ("arg%d" % i,)) for i in range(1, f.nargs + 1)})
        except tt.Undecided as e:
            out[v["name"]] = "undecided:%s" % str(e)[:80]
            continue
        out[v["name"]] = describe(ret)
    return out


def describe(v):
    if v[0] == "adt":
        inner = [describe(x) for x in v[4]]
        inner = [x for x in inner if x]
        if v[1].endswith(("option::Option", "result::Result")) and v[2] in ("Some", "Ok") and inner:
            return inner[0]
        return v[2] + ("(" + ",".join(inner) + ")" if inner else "")
    if v[0] == "str":
        return "str:" + v[1]
    if v[0] == "int":
        return "k%s" % v[1]
    if v[0] == "sym" and v[1] and v[1][0].startswith("static:"):
        return v[1][0].split("::")[-1]
    if v[0] == "res":
        # a call result: show statics / strings feeding it
        from lib.rulelib import walk
        for x in walk(v):
            if x[0] == "sym" and x[1] and x[1][0].startswith("static:"):
                return x[1][0].split("::")[-1]
            if x[0] == "str":
                return "str:" + x[1]
        return "call:" + v[1].split("::")[-1]
    if v[0] == "diverge":
        return "PANIC"
    return None


def find_impl(chk, facts, rule, file_suffix, parts, label):
    hits = []
    for n in facts.fns:
        if all(p in n for p in parts) and n.endswith("::from"):
            gen, kind, root, ti, file, line = facts.fns.meta(n)
            if kind != "Closure" and file.endswith(file_suffix):
                hits.append(n)
    if len(hits) != 1:
        chk.lost(rule, label, "expected exactly one match, found %d" % len(hits))
        return None
    chk.functions.add(hits[0])
    return facts.fns[hits[0]]


def check(chk, facts):
    rule = "C06.TABLE.inverse"
    F = "cedar-policy/src/proto/ast.rs"
    M = "cedar_policy::proto::models::cedar_policy_core::"
    pairs = [
        # (label, encode parts, its source enum, decode parts, its source enum)
        ("BinaryOp", ["From<&", "BinaryOp> for", "binary_app::Op>"], "cedar_policy_core::ast::ops::BinaryOp",
         ["From<" + M + "expr::binary_app::Op> for", "BinaryOp>"], M + "expr::binary_app::Op"),
        ("UnaryOp", ["From<&", "UnaryOp> for", "unary_app::Op>"], "cedar_policy_core::ast::ops::UnaryOp",
         ["From<" + M + "expr::unary_app::Op> for", "UnaryOp>"], M + "expr::unary_app::Op"),
        ("Var", ["From<&", "Var> for " + M + "expr::Var>"], "cedar_policy_core::ast::expr::Var",
         ["From<" + M + "expr::Var> for", "Var>"], M + "expr::Var"),
    ]
    n = 0
    if chk.secondary and not any(x.startswith("cedar_policy::proto::") for x in facts.fns.index):
        chk.ob(rule, "gated:cedar_policy::proto", True, "the protobuf module is not part of the default-feature build; decided on the experimental configuration")
        pairs = []
    for label, encp, enc_adt, decp, dec_adt in pairs:
        fe = find_impl(chk, facts, rule, F, encp, "encode " + label)
        fd = find_impl(chk, facts, rule, F, decp, "decode " + label)
        if fe is None or fd is None:
            continue
        me = enum_map(facts, fe, enc_adt)
        md = enum_map(facts, fd, dec_adt)
        if me is None or md is None:
            chk.lost(rule, "%s / %s" % (enc_adt, dec_adt))
            continue
        for v, w in sorted(me.items()):
            w0 = (w or "").split("(")[0]
            back = md.get(w0)
            back0 = (back or "").split("(")[0]
            n += 1
            ok = back0 == v or (w == "PANIC")
            chk.ob(rule, "%s::%s" % (enc_adt.split("::")[-1], v), ok,
                   "encode(%s) = %s, decode(%s) = %s%s" % (v, w, w0, back, "" if ok else " — the two tables are not inverse on this value"),
                   where=fe.where(), fn=fe.name, key="%s:%s:%s" % (rule, enc_adt.split("::")[-1], v),
                   sample={"enum": enc_adt.split("::")[-1], "value": v, "encoded": w, "decoded_back": back})
    chk.floor(rule, "table rows", n, 18)
    # PST operator names: to_name / from_name are inverse on the extension operators
    for opk in ("UnaryOp", "BinaryOp", "VariadicOp"):
        adt = "cedar_policy_core::pst::expr::" + opk
        ft = facts.fn(adt + "::to_name")
        ff = facts.fn(adt + "::from_name")
        if ft is None or ff is None:
            continue
        mt = enum_map(facts, ft, adt)
        chk.ob(rule, "pst::%s::to_name" % opk, mt is not None and all(not str(x).startswith("undecided") for x in mt.values()),
               "to_name decided for %d operators" % (len(mt or {})), where=ft.where(), fn=ft.name, sample=dict(list((mt or {}).items())[:8]))
