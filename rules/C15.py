"""C15 — batched (loader-driven) authorization: loop structure.

Decides: (TRAVERSE) the entity ids requested from the loader are all literal uids
of every current residual: all_literal_uids visits every child of every residual
variant and returns what it collects; (LOOP) ids are requested unless already
loaded, the loader receives exactly that set, every answered id is added (missing
ones as empty entities), then every residual is re-interpreted; the loop exits
early only when no residual is partial and runs at most max_iters times; (TABLE)
a decision is returned only from Response::decision(), None becomes
InsufficientIterations. Declines equivalence with ordinary authorization and the
iteration-budget bound (runtime quantities).
"""
from lib import traverse, shape, cfg, protocol, tt
from lib.facts import callee
from lib.rulelib import AtomOracle, arg_syms, get_fn, short

RK = "cedar_policy_core::tpe::residual::ResidualKind"
RES = "cedar_policy_core::tpe::residual::Residual"
BATCH = "cedar_policy_core::batched_evaluator::is_authorized_batched"


def uids_traverse(chk, facts):
    rule = "C15.TRAVERSE"
    f = get_fn(chk, facts, rule, RK + "::all_literal_uids")
    if f is not None:
        sink = lambda c, t: c.endswith("::all_literal_uids")
        traverse.check(chk, rule, facts, f, RK, "tpe::residual::ResidualKind", ("tpe::residual::Residual",), sink, floor=17, name="ResidualKind::all_literal_uids")
        # what is collected is returned
        L = shape.Labels(f, None, shape.variant_field_seed("tpe::residual::ResidualKind"))
        kids = traverse.child_fields(facts, RK, ("tpe::residual::Residual",)) or []
        ret = L.lab.get(0, set())
        missing = ["%s.%s" % k for k in kids if "%s.%s" % k not in ret]
        chk.ob(rule, "ResidualKind::all_literal_uids:returned", not missing,
               "the uids of every child flow into the returned set%s" % ("" if not missing else "; not returned: %s" % missing), where=f.where(), fn=f.name)
    g = get_fn(chk, facts, rule, RES + "::all_literal_uids")
    if g is not None:
        cs = [callee(t) for _, t in g.calls()]
        ok = any(c == RK + "::all_literal_uids" for c in cs) and any(c.endswith("value::Value::all_literal_uids") for c in cs)
        chk.ob(rule, "Residual::all_literal_uids", ok, "partial residuals delegate to their kind and concrete ones to their value: %s" % ok, where=g.where(), fn=g.name)
    h = facts.fn("cedar_policy_core::tpe::response::ResidualPolicy::all_literal_uids")
    if h is not None:
        cs = [callee(t) for _, t in h.calls()]
        chk.ob(rule, "ResidualPolicy::all_literal_uids", any(c == RES + "::all_literal_uids" for c in cs), "the residual policy asks its residual", where=h.where(), fn=h.name)
    for vfn, adt, suffix in (("cedar_policy_core::ast::value::ValueKind::all_literal_uids", "cedar_policy_core::ast::value::ValueKind", "ast::value::ValueKind"),):
        v = facts.fn(vfn)
        if v is None:
            continue
        L = shape.Labels(v, None, shape.variant_field_seed(suffix))
        ret = L.lab.get(0, set())
        r = facts.adts.get(adt)
        need = ["%s.%s" % (x["name"], fl[0]) for x in r["variants"] for fl in x["fields"] if x["name"] in ("Set", "Record", "Lit")]
        missing = [x for x in need if x not in ret]
        chk.ob(rule, "ValueKind::all_literal_uids", not missing, "literal, set and record payloads contribute to the returned uids%s" % ("" if not missing else "; missing %s" % missing),
               where=v.where(), fn=v.name)


def loop(chk, facts):
    rule = "C15.LOOP"
    f = get_fn(chk, facts, rule, BATCH)
    if f is None:
        return
    clos = facts.closures_of(BATCH)
    L = shape.Labels(f, None, None, param_labels={4: {"loader"}, 5: {"max_iters"}},
                     call_labels=lambda c, t: (
                         ["TOLOAD"] if c.endswith("HashSet::<T>::new") else
                         ["LOADED"] if c.endswith("EntityLoader::load_entities") else
                         ["RESIDUALS"] if c.endswith("policy_residual_map") else None))
    # (a) ids come from all_literal_uids of the residuals (in a flat_map closure)
    idc = [c for c in clos if any(callee(t).endswith("ResidualPolicy::all_literal_uids") or callee(t).endswith("Residual::all_literal_uids") for _, t in c.calls())]
    chk.ob(rule, "ids-source", len(idc) >= 1, "requested ids are computed by all_literal_uids over the current residuals (%d closure)" % len(idc), where=f.where(), fn=f.name)
    # (b) insertion into to_load is guarded by !contains_entity, nothing else
    ins = [(b, t) for b, t in f.calls() if callee(t).endswith("HashSet::<T, S, A>::insert") and "TOLOAD" in L.operand_labels(t[2][0])]
    ce = protocol.calls_matching(f, "PartialEntities::contains_entity")
    ok = False
    if ins and ce:
        for sb, m in protocol.bool_edges(f, ce[0][0]):
            ok = ins[0][0] in cfg.reachable(f, m[False], cut_blocks={m[True]}) and ins[0][0] not in cfg.reachable(f, m[True], cut_blocks={m[False], ce[0][0]})
    chk.ob(rule, "to_load-filter", ok, "an id is queued exactly when the store does not contain it yet: %s" % ok, where=f.where(ins[0][1][1].get("l") if ins else None), fn=f.name)
    # (c) the loader gets that set
    ld = protocol.calls_matching(f, "EntityLoader::load_entities")
    ok = bool(ld) and "TOLOAD" in L.operand_labels(ld[0][1][2][1])
    chk.ob(rule, "loader-arg", ok, "load_entities receives the queued set: %s" % ok, where=f.where(ld[0][1][1].get("l") if ld else None), fn=f.name)
    # (d) every answer is added: Some -> add_entities (honoured), None -> add_entity_trusted(with_uid)
    add = protocol.calls_matching(f, "PartialEntities::add_entities")
    trusted = protocol.calls_matching(f, "PartialEntities::add_entity_trusted")
    with_uid = protocol.calls_matching(f, "Entity::with_uid")
    ok = bool(add) and bool(trusted) and bool(with_uid)
    det = []
    for b, t in add + trusted:
        h, d = protocol.honor_result(f, b)
        ok = ok and h
        det.append(d)
    chk.ob(rule, "answers-added", ok, "loaded entities are added and missing ones are added as empty entities; failures abort: %s" % ok, where=f.where(), fn=f.name)
    if add and trusted:
        lp1 = protocol.loop_of(f, add[0][0])
        lp2 = protocol.loop_of(f, trusted[0][0])
        same = lp1 is not None and lp1 == lp2
        # from the loop body entry, every path back to the loop head passes one of the two
        mp = same and protocol.must_pass(f, lp1[1], {lp1[0]}, {add[0][0], trusted[0][0]})
        chk.ob(rule, "answers-all", bool(mp), "every element answered by the loader is added one way or the other: %s" % bool(mp), where=f.where(), fn=f.name)
    # (e) re-interpretation of every residual after loading
    rec = [c for c in clos if any(callee(t).endswith("tpe::evaluator::Evaluator::interpret") for _, t in c.calls())]
    chk.ob(rule, "reinterpret", len(rec) >= 2, "residuals are (re-)interpreted in %d closure(s): initially and after every load" % len(rec), where=f.where(), fn=f.name)
    # (f) early exit only when no residual is Partial
    allc = protocol.calls_matching(f, "::all")
    okx = False
    if allc:
        pc = [c for c in clos if any(s[0] == "a" and s[2][0] == "disc" and s[2][2].endswith("tpe::residual::Residual") for _, s in c.stmts())]
        okx = bool(pc)
    chk.ob(rule, "early-exit", okx, "the loop is left early only under `all(residual is not Partial)`: %s" % okx, where=f.where(allc[0][1][1].get("l") if allc else None), fn=f.name)
    # (g) the range is 0..max_iters
    rng = [s for _, s in f.stmts() if s[0] == "a" and s[2][0] == "agg" and s[2][1][0] == "adt" and s[2][1][1].endswith("ops::Range")]
    okr = any("max_iters" in L.operand_labels(s[2][2][1]) and s[2][2][0][0] == "k" and s[2][2][0][1].get("v") == 0 for s in rng)
    chk.ob(rule, "bound", okr, "the loop iterates over 0..max_iters: %s" % okr, where=f.where(), fn=f.name)


def final_table(chk, facts):
    rule = "C15.TABLE.final"
    f = get_fn(chk, facts, rule, BATCH)
    if f is None:
        return
    dec = protocol.calls_matching(f, "tpe::response::Response::decision")
    new = protocol.calls_matching(f, "tpe::response::Response::new")
    if not dec or not new:
        chk.ob(rule, "shape", False, "no Response::new / Response::decision in is_authorized_batched", where=f.where(), fn=f.name)
        return
    sws, ret = protocol.result_switches(f, dec[0][1][3][0])
    ok_some = ok_none = False
    for sb, kind, arms, oth in sws:
        if kind != "disc":
            continue
        okb = protocol.ok_blocks(f)
        from rules.C08 import err_blocks
        errb = err_blocks(f)
        some_r = cfg.reachable(f, arms.get(1, -1)) if 1 in arms else set()
        none_r = cfg.reachable(f, arms.get(0, -1)) if 0 in arms else set()
        ok_some = bool(some_r & okb) and not (some_r & errb)
        ok_none = bool(none_r & errb) and not (none_r & okb)
    chk.ob(rule, "Some->Ok", ok_some, "a decision from Response::decision() is returned as Ok: %s" % ok_some, where=f.where(dec[0][1][1].get("l")), fn=f.name)
    chk.ob(rule, "None->InsufficientIterations", ok_none, "no decision becomes an error (InsufficientIterations), never a decision: %s" % ok_none, where=f.where(dec[0][1][1].get("l")), fn=f.name)
    # Ok(decision) is only produced there
    oks = protocol.ok_blocks(f)
    dom = all(cfg.dominates(f, dec[0][0], b) for b in oks)
    chk.ob(rule, "only-source", dom and bool(oks), "every Ok return is dominated by the Response::decision() call: %s" % dom, where=f.where(), fn=f.name)


def request_roles(chk, facts):
    """The concrete request is re-expressed as a partial request role by role."""
    rule = "C15.FIELDS.request"
    f = get_fn(chk, facts, rule, "cedar_policy_core::batched_evaluator::concrete_request_to_partial")
    if f is None:
        return

    def seed(p):
        if p[0] == 1:
            for e in p[1:]:
                if isinstance(e, list) and e[0] == "f":
                    return ["request." + (e[2] or str(e[1]))]
        return []
    L = shape.Labels(f, None, seed)
    new = protocol.calls_matching(f, "tpe::request::PartialRequest::new")
    if len(new) != 1:
        chk.lost(rule, "the PartialRequest::new call of concrete_request_to_partial", "found %d" % len(new))
        return
    b, t = new[0]
    want = ["request.principal", "request.action", "request.resource", "request.context"]
    for i, w in enumerate(want):
        labs = {x for x in L.operand_labels(t[2][i]) if x.startswith("request.")}
        chk.ob(rule, w.split(".")[1], labs == {w}, "PartialRequest::new argument %d is made of %s (must be exactly %s)" % (i, sorted(labs), w),
               where=f.where(t[1].get("l")), fn=f.name, sample={"arg": i, "from": sorted(labs)})
    # Known euid -> Ok path only; Unknown -> error
    errs = [b2 for b2, blk in enumerate(f.blocks) if not blk["cl"] for s_ in blk["st"] if s_[0] == "a" and s_[2][0] == "agg" and s_[2][1][0] == "adt" and str(s_[2][1][1]).endswith("PartialRequestError")]
    chk.ob(rule, "unknown->error", len(errs) >= 4, "an unknown principal / action / resource or a residual context is refused (%d PartialRequestError sites; 4 reviewed)" % len(errs), where=f.where(), fn=f.name)


def run(chk, facts, tier):
    facts.load_crate("cedar_policy_core.lib")
    chk.explanation = (
        "Static decision of the structure of loader-driven authorization on the current MIR: (TRAVERSE) ResidualKind::all_literal_uids reaches every child of every variant "
        "(variant-qualified label provenance) and returns what it collects, Residual/ResidualPolicy/ValueKind delegate correctly; (LOOP) ids come from all_literal_uids of the current "
        "residuals, are queued exactly when not yet in the store, the loader receives the queued set, every answer is added (missing -> empty entity) with failures aborting, every "
        "residual is re-interpreted afterwards, the early exit is under 'no residual is Partial', and the loop runs over 0..max_iters; (TABLE.final) Ok(decision) arises only from "
        "Response::decision() = Some, None becomes InsufficientIterations. Declines equivalence with ordinary authorization and the budget bound (runtime-quantified).")
    chk.assumptions = ["TPE interpretation and Response::decision are sound (C14)", "MIR at mir-opt-level=0 reflects source control flow"]
    uids_traverse(chk, facts)
    loop(chk, facts)
    final_table(chk, facts)
    request_roles(chk, facts)
    # the re-interpretation step is the TPE evaluator: its concrete operator dispatch and the reflexivity of `in`
    # (which only shows once the left entity has been loaded) are shared with C14
    from rules import c02_ops
    c02_ops.check_tpe(chk, facts)
    # ... and so is the licence to drop an error-capable operand when a connective is decided early
    from rules import c14_canerr
    c14_canerr.check(chk, facts)
    c14_canerr.folds_guarded(chk, facts)
