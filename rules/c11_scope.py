"""C11.MUSTPASS.scope — request validation skips a scope check only because the part it concerns is absent.

validate_scope_variables(principal?, action?, resource?) is a sequence of conditional checks. For each check K the
only ways to reach a success return without executing K are the `None` edges of the request parts K is about (and, for the
enumerated-id check, the entity type not being an enumerated one): with those edges removed from the control-flow graph,
K cuts entry from every success return. A success return is an `Ok(..)` written to the return place or a callee's
result returned directly. Shared into C03: the soundness statement quantifies over requests this function accepts.
"""
from lib import cfg, shape, panics
from lib.facts import callee
from lib.rulelib import short

CORE = "cedar-policy-core/src/validator/coreschema.rs"
ROLE = {2: "principal", 3: "action", 4: "resource"}
# check -> request parts whose absence may skip it
SPEC = [
    ("get_entity_type", "principal", {"principal"}),
    ("get_entity_type", "resource", {"resource"}),
    ("is_valid_enumerated_entity", "principal", {"principal"}),
    ("is_valid_enumerated_entity", "resource", {"resource"}),
    ("get_action_id", None, {"action"}),
    ("check_principal_type", None, {"action", "principal"}),
    ("check_resource_type", None, {"action", "resource"}),
]


def _switch_param(f, b):
    """the parameter whose Option discriminant the switch in block b tests, or None"""
    t = f.blocks[b]["t"]
    if t[0] != "sw" or t[1][0] not in ("c", "m"):
        return None
    l = t[1][1][0]
    for kind, db, s in panics._def_sites(f).get(l, []):
        if kind == "st" and s[2][0] == "disc":
            p = s[2][1]
            if len(p) == 1 and p[0] in ROLE:
                return p[0]
    return None


def check(chk, facts, rule="C11.MUSTPASS.scope"):
    hits = [n for n in facts.fns.keys() if n.endswith("ValidatorSchema>::validate_scope_variables") and "{closure" not in n]
    if len(hits) != 1:
        chk.lost(rule, "ValidatorSchema::validate_scope_variables", "found %d" % len(hits))
        return
    f = facts.fns[hits[0]]
    chk.functions.add(f.name)
    # success returns
    succ = set()
    for b, blk in enumerate(f.blocks):
        if blk["cl"]:
            continue
        for s in blk["st"]:
            if s[0] == "a" and s[1] == [0] and s[2][0] == "agg" and s[2][1][0] == "adt" and s[2][1][2] == "Ok":
                succ.add(b)
        t = blk["t"]
        if t[0] == "call" and t[3] == [0] and not callee(t).endswith("from_residual"):
            succ.add(b)
    if not succ:
        chk.lost(rule, "success returns of validate_scope_variables")
        return
    # None edges per request part; non-enumerated edges of the entity-type-kind test
    none_edges = {r: set() for r in ROLE.values()}
    kind_edges = set()
    for b, blk in enumerate(f.blocks):
        if blk["cl"] or blk["t"][0] != "sw":
            continue
        t = blk["t"]
        p = _switch_param(f, b)
        targets = [(v, tg) for v, tg in t[2]] + [("else", t[3])]
        if p is not None:
            some = {tg for v, tg in targets if v == 1}
            for v, tg in targets:
                if tg not in some:
                    none_edges[ROLE[p]].add((b, tg))
        elif "ValidatorEntityTypeKind" in panics.cond_desc(f, b):
            adt = [a for k, a in facts.adts.items() if k.endswith("entity_type::ValidatorEntityTypeKind")]
            enum_idx = [i for i, v in enumerate(adt[0]["variants"]) if v["name"] == "Enum"] if adt else []
            for v, tg in targets:
                if not (enum_idx and v == enum_idx[0]):
                    kind_edges.add((b, tg))
    L = shape.Labels(f, None, None, param_labels={2: {"principal"}, 3: {"action"}, 4: {"resource"}})
    n = 0
    for suffix, about, parts in SPEC:
        sites = []
        for b, t in f.calls():
            if not callee(t).endswith("::" + suffix):
                continue
            labs = set()
            for o in t[2]:
                labs |= L.operand_labels(o)
            if about is None or about in labs:
                sites.append((b, t))
        inst = suffix + (":" + about if about else "")
        if not sites:
            n += 1
            chk.ob(rule, inst, False, "no call of %s%s in validate_scope_variables: the check is gone" % (suffix, " on the " + about if about else ""), where=f.where(), fn=f.name,
                   key="%s:%s:missing" % (rule, inst))
            continue
        cut = set()
        for r in parts:
            cut |= none_edges[r]
        if suffix == "is_valid_enumerated_entity":
            cut |= kind_edges
        K = {b for b, _ in sites}
        r = cfg.reachable(f, 0, cut_blocks=K, cut_edges=cut)
        esc = sorted(r & succ)
        n += 1
        chk.ob(rule, inst, not esc,
               "%s%s is executed on every path to a success return that does not go through `%s is None`%s: %s" % (
                   suffix, " (" + about + ")" if about else "", " / ".join(sorted(parts)), " or a non-enumerated entity type" if suffix == "is_valid_enumerated_entity" else "",
                   "yes" if not esc else "no — success at %s is reachable without it" % [f.where(f.blocks[b]["t"][1].get("l") if f.blocks[b]["t"][0] == "call" else None) for b in esc][:2]),
               where=f.where(sites[0][1][1].get("l")), fn=f.name, key="%s:%s" % (rule, inst),
               sample={"check": inst, "skippable_by": sorted(parts), "none_edges": sum(len(none_edges[x]) for x in parts)})
    chk.floor(rule, "conditional scope checks", n, 7)
