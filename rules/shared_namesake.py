"""NAMESAKE.variant — conversions between enums that share variant names keep the variant.

For every From / TryFrom implementation whose source is an enum and that builds values of another enum sharing at least two
variant names with it: in the arm of source variant V (when the target has a variant V) every target value built is V.
The pairs are discovered on the current tree, not frozen; the reviewed exceptions are listed with their reason.
A strict validation mode mapped to permissive, `when` to `unless`, principal to resource, permit to forbid ... is the defect.
"""
import re

from lib import hom
from lib.rulelib import short

EXEMPT = {
    ("RawCedarValueJson", "Record"): ({"ExtnEscape", "ExprEscape", "EntityEscape"}, "a JSON object with exactly one reserved key is an escape, not a record"),
    ("PrincipalConstraint", "Is"): ({"IsIn"}, "the EST `is` constraint carries an optional `in`"),
    ("ResourceConstraint", "Is"): ({"IsIn"}, "the EST `is` constraint carries an optional `in`"),
    ("Type", "Set"): ({"EmptySet"}, "a set type without an element type is the empty-set schema type"),
}


def check(chk, facts, rule, name_filter=None, floor=1):
    enums = {k: v for k, v in facts.adts.items() if v.get("akind") == "enum"}
    n = 0
    for name in sorted(facts.fns.keys()):
        if not name.endswith(("::from", "::try_from")) or "{closure" in name:
            continue
        if name_filter and not name_filter(name):
            continue
        m = re.search(r"(?:From|TryFrom)<([^>]+(?:<[^>]*>)?[^>]*)>", name)
        if not m:
            continue
        src = m.group(1).replace("&", "").strip()
        if src not in enums:
            continue
        f = facts.fns[name]
        sv = {v["name"] for v in enums[src]["variants"]}
        tg = set()
        for _, s in f.stmts():
            if s[0] == "a" and s[2][0] == "agg" and s[2][1][0] == "adt" and s[2][1][1] in enums and s[2][1][1] != src and not s[2][1][1].startswith("std::"):
                if len(sv & {v["name"] for v in enums[s[2][1][1]]["variants"]}) >= 2:
                    tg.add(s[2][1][1])
        if not tg:
            continue
        suffix = src[len("cedar_policy_core::"):] if src.startswith("cedar_policy_core::") else src
        ev = hom.arm_events(facts, f, suffix, lambda c, t: None, include_aggs=tuple(tg))
        if ev is None:
            continue
        chk.functions.add(f.name)
        for vi, arm in sorted(ev["arms"].items()):
            vn = enums[src]["variants"][vi]["name"]
            for e in arm["events"]:
                tname, bv = e["ctor"].split("::")[0], e["ctor"].split("::")[1]
                t = [x for x in tg if x.endswith("::" + tname)]
                if not t or vn not in {v["name"] for v in enums[t[0]]["variants"]}:
                    continue
                allowed, why = EXEMPT.get((src.split("::")[-1], vn), (set(), ""))
                n += 1
                chk.ob(rule, "%s:%s->%s::%s" % (src.split("::")[-1], vn, tname, bv), bv == vn or bv in allowed,
                       "%s -> %s: in the %s arm the conversion builds %s::%s%s" % (src.split("::")[-1], tname, vn, tname, bv, (" (reviewed: %s)" % why) if bv in allowed else ""),
                       where=f.where(e["line"]), fn=f.name, key="%s:%s:%s:%s" % (rule, short(name)[-80:], vn, bv),
                       sample={"from": src.split("::")[-1], "to": tname, "arm": vn, "builds": bv} if n % 10 == 0 else None)
    chk.floor(rule, "namesake-variant conversion arms", n, floor)
