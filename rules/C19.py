"""C19 — JSON/FFI, stateful cache and CLI front ends: plumbing clauses.

Decides: (FLOW) both FFI parse functions hand principal / action / resource /
context to Request::new in that order, gate request validation on
`validate_request`, and pass the schema to context and entity parsing;
(SIBLING) stateless and stateful entry points call the same authorizer and
convert the response the same way; (OWN) the pre-parse caches are written only by
preparse_* (on the Ok edge of parsing) and read only by the stateful parse; the
stateless entry points never touch them; (HOM.response) the FFI response carries
decision, reasons and errors of the API response; (TABLE.cli) authorize / validate
exit codes follow the decision. Declines equality of answers for all inputs.
"""
from lib import shape, cfg, protocol, tt, panics
from lib.callgraph import CallGraph
from lib.facts import callee
from lib.slice import leaf_producers
from lib.rulelib import AtomOracle, arg_syms, get_fn, short, syms, res_calls

FFI = "cedar_policy::ffi::is_authorized::"
POL_T = "std::collections::HashMap<std::string::String, cedar_policy::api::PolicySet>"
SCH_T = "std::collections::HashMap<std::string::String, cedar_policy::api::Schema>"


def self_field_seed(p):
    if p[0] == 1:
        for e in p[1:]:
            if isinstance(e, list) and e[0] == "f":
                return ["self." + (e[2] or str(e[1]))]
    return []


def tl_mentions(f):
    """Which thread-local caches a body mentions (by the LocalKey's payload type)."""
    out = set()
    for ty in f.locals:
        if "std::thread::LocalKey<" in ty:
            if POL_T in ty:
                out.add("PREPARSED_POLICY_SETS")
            elif SCH_T in ty:
                out.add("PREPARSED_SCHEMAS")
            elif "cedar_policy::api::Authorizer" in ty:
                out.add("AUTHORIZER")
    return out


def parse_flow(chk, facts):
    rule = "C19.FLOW.parse"
    n = 0
    for nm in ("AuthorizationCall", "StatefulAuthorizationCall"):
        f = get_fn(chk, facts, rule, FFI + nm + "::parse")
        if f is None:
            continue
        clos = facts.closures_of(f.name)
        L = shape.Labels(f, None, self_field_seed, call_labels=lambda c, t: (
            ["SCHEMA"] if c.endswith(("Schema::parse", "LocalKey::<T>::with")) and False else None))
        # schema: the local of type Option<Schema> that flows into as_ref()
        rq = protocol.calls_matching(f, "cedar_policy::api::Request::new")
        if len(rq) != 1:
            chk.ob(rule, nm + ":Request::new", False, "expected one Request::new call, found %d" % len(rq), where=f.where(), fn=f.name)
            continue
        b, t = rq[0]
        labs = [L.operand_labels(o) for o in t[2]]
        want = ["self.principal", "self.action", "self.resource", "self.context"]
        roles_ok = True
        det = []
        for i, w in enumerate(want):
            others = {x for x in want[:3] if x != w}
            ok = w in labs[i] and not (labs[i] & others) if i < 3 else w in labs[i]
            roles_ok &= ok
            det.append("%s<-%s" % (w.split(".")[1], sorted(x for x in labs[i] if x.startswith("self."))))
        n += 1
        chk.ob(rule, nm + ":Request::new:roles", roles_ok, "Request::new receives %s" % det, where=f.where(t[1].get("l")), fn=f.name,
               key="%s:%s:roles" % (rule, nm), sample={"fn": nm, "args": det})
        # validation gate: the schema argument is None unless self.validate_request
        gate = False
        o = t[2][4]
        ds = panics._def_sites(f).get(o[1][0], []) if o[0] in ("c", "m") else []
        # follow plain copies/moves back to the variable that is assigned on both branches
        for _ in range(6):
            if len(ds) == 1 and ds[0][0] == "st" and ds[0][2][2][0] == "use" and ds[0][2][2][1][0] in ("c", "m") and len(ds[0][2][2][1][1]) == 1:
                ds = panics._def_sites(f).get(ds[0][2][2][1][1][0], [])
            else:
                break
        none_def = [d for d in ds if d[0] == "st" and d[2][2][0] == "agg" and d[2][2][1][0] == "adt" and d[2][2][1][2] == "None"]
        some_def = [d for d in ds if d not in none_def]
        if none_def and some_def:
            for d in some_def:
                for sb, taken in cfg.guard_edges(f, d[1]):
                    tsw = f.blocks[sb]["t"]
                    if tsw[1][0] in ("c", "m") and "self.validate_request" in L.place_labels(tsw[1][1]) and [v for v, _ in taken] == ["else"]:
                        gate = True
            # and the None definition sits on the other edge of the same test
            for d in none_def:
                if not any("self.validate_request" in L.place_labels(f.blocks[sb]["t"][1][1]) and [v for v, _ in taken] == [0]
                           for sb, taken in cfg.guard_edges(f, d[1]) if f.blocks[sb]["t"][1][0] in ("c", "m")):
                    gate = False
        n += 1
        chk.ob(rule, nm + ":validate_request-gate", gate, "the schema reaches Request::new only when validate_request is set (otherwise None): %s" % gate,
               where=f.where(t[1].get("l")), fn=f.name, key="%s:%s:gate" % (rule, nm))
        # schema goes to context and entity parsing
        for what, suffix in (("context", "ffi::utils::Context::parse"), ("entities", "ffi::utils::Entities::parse")):
            cs = protocol.calls_matching(f, suffix)
            ok = False
            if cs:
                a = cs[0][1][2]
                # the schema argument is a computed Option<&Schema> (never the constant None)
                sch = [x for x in a[1:] if x[0] in ("c", "m") and "Option<&cedar_policy::api::Schema>" in f.locals[x[1][0]]]
                ok = False
                for x in sch:
                    dsx = panics._def_sites(f).get(x[1][0], [])
                    # follow plain copies / moves back to the variable that is really assigned
                    for _ in range(6):
                        if len(dsx) == 1 and dsx[0][0] == "st" and dsx[0][2][2][0] == "use" and dsx[0][2][2][1][0] in ("c", "m") and len(dsx[0][2][2][1][1]) == 1:
                            dsx = panics._def_sites(f).get(dsx[0][2][2][1][1][0], [])
                        else:
                            break
                    # unconditional: the schema itself (one definition), never the validate_request-gated option nor a constant None
                    ok = len(dsx) == 1 and not any(d[0] == "st" and d[2][2][0] == "agg" and d[2][2][1][0] == "adt" and d[2][2][1][2] == "None" for d in dsx)
                recv_ok = ("self." + what) in L.operand_labels(a[0])
                ok = ok and recv_ok
            n += 1
            chk.ob(rule, "%s:%s-schema" % (nm, what), ok, "%s parsing receives self.%s and the schema itself, independently of validate_request (schema-directed parsing and the schema's action entities do not depend on request validation): %s" % (what, what, ok),
                   where=f.where(cs[0][1][1].get("l") if cs else None), fn=f.name, key="%s:%s:%s" % (rule, nm, what))
        # context parsing is told the action
        cs = protocol.calls_matching(f, "ffi::utils::Context::parse")
        if cs:
            a = cs[0][1][2]
            ok = len(a) >= 3 and "self.action" in L.operand_labels(a[2])
            chk.ob(rule, nm + ":context-action", ok, "context parsing is given the request's action: %s" % ok, where=f.where(cs[0][1][1].get("l")), fn=f.name)
    chk.floor(rule, "flow obligations", n, 8)


def entry_sibling(chk, facts):
    rule = "C19.SIBLING.entry"
    prof = {}
    for nm in ("is_authorized", "stateful_is_authorized"):
        f = get_fn(chk, facts, rule, FFI + nm)
        if f is None:
            continue
        cs = []
        for g in [f] + facts.closures_of(f.name):
            for _, t in g.calls():
                c = callee(t)
                if c.startswith("cedar_policy::") and not c.endswith("::parse"):
                    cs.append(c.replace("Stateful", ""))
        prof[nm] = sorted(cs)
    if len(prof) == 2:
        a, b = prof["is_authorized"], prof["stateful_is_authorized"]
        ok = a == b and any(c.endswith("api::Authorizer::is_authorized") for c in a)
        chk.ob(rule, "is_authorized~stateful_is_authorized", ok, "workspace calls of the two entry points agree (up to their parse step) and both call Authorizer::is_authorized: %s / %s" % (
            [short(x) for x in a], [short(x) for x in b]), sample={"stateless": [short(x) for x in a], "stateful": [short(x) for x in b]})


def cache_ownership(chk, facts):
    rule = "C19.OWN.cache"
    writers = {"PREPARSED_POLICY_SETS": FFI + "preparse_policy_set", "PREPARSED_SCHEMAS": FFI + "preparse_schema"}
    reader = FFI + "StatefulAuthorizationCall::parse"
    n = 0
    for name in facts.unit_fns("cedar_policy.lib"):
        gen, kind, root, ti, file, line = facts.fns.meta(name)
        if gen or not file.endswith("ffi/is_authorized.rs"):
            continue
        f = facts.fns[name]
        m = tl_mentions(f) - {"AUTHORIZER"}
        if not m:
            continue
        base = f.root or name
        # the thread_local! definition itself
        if "::PREPARSED_" in name or "::AUTHORIZER" in name:
            continue
        for tl in sorted(m):
            ok = base in (writers[tl], reader)
            n += 1
            chk.ob(rule, "%s@%s" % (tl, short(base)[-50:]), ok, "%s is touched by %s; only %s (write) and the stateful parse (read) may" % (tl, short(base), short(writers[tl])),
                   where=f.where(), fn=name, key="%s:%s:%s" % (rule, tl, base))
            muts = [callee(t).split("::")[-1] for g in [f] for _, t in g.calls() if callee(t).endswith(("::borrow_mut", "HashMap::<K, V, S, A>::insert", "HashMap::<K, V, S, A>::remove", "::clear"))]
            if base == reader:
                chk.ob(rule, "%s:read-only@%s" % (tl, short(name)[-40:]), not muts, "the stateful parse only reads %s (mutating calls: %s)" % (tl, muts or "none"), where=f.where(), fn=name)
    chk.floor(rule, "cache accesses", n, 4)
    # nothing reachable from the stateless entry points touches the caches
    cg = CallGraph(facts)
    parent = cg.reach([FFI + "is_authorized", FFI + "AuthorizationCall::parse", "cedar_policy::ffi::validate::validate", "cedar_policy::ffi::check_parse::check_parse_policy_set"])
    bad = []
    for fn in parent:
        f = facts.fns[fn]
        if tl_mentions(f) - {"AUTHORIZER"}:
            bad.append(fn)
    chk.ob(rule, "stateless-pure", not bad and len(parent) > 100, "%d functions reachable from the stateless entry points; none touches the pre-parse caches%s" % (
        len(parent), "" if not bad else ": %s" % [short(b) for b in bad]), sample={"reachable": len(parent)})
    # preparse: cache written only on the Ok edge of parsing
    for tl, w in writers.items():
        f = get_fn(chk, facts, rule, w)
        if f is None:
            continue
        ps = [(b, t) for b, t in f.calls() if callee(t).endswith("::parse") and callee(t).startswith("cedar_policy::ffi::utils::")]
        withs = [(b, t) for b, t in f.calls() if callee(t).endswith("LocalKey::<T>::with")]
        ok = False
        if ps and withs:
            sws, _ = protocol.result_switches(f, ps[0][1][3][0])
            for sb, kind, arms, oth in sws:
                if 0 in arms and 1 in arms:
                    ok_r = cfg.reachable(f, arms[0], cut_blocks={sb})
                    err_r = cfg.reachable(f, arms[1], cut_blocks={sb})
                    ok = all(b in ok_r for b, _ in withs) and not any(b in err_r for b, _ in withs)
        chk.ob(rule, "atomic:" + w.split("::")[-1], ok, "%s writes the cache only on the Ok edge of parsing (side-effect free on error): %s" % (w.split("::")[-1], ok),
               where=f.where(), fn=f.name)
        clos = facts.closures_of(w)
        ins = [c for c in clos if any(callee(t).endswith("HashMap::<K, V, S, A>::insert") for _, t in c.calls())]
        chk.ob(rule, "replace:" + w.split("::")[-1], len(ins) == 1, "registration is a plain insert keyed by the given name (re-registration replaces): %s" % (len(ins) == 1), where=f.where(), fn=f.name)


def response_hom(chk, facts):
    rule = "C19.HOM.response"
    hits = [n for n in facts.fns if n.startswith("<cedar_policy::ffi::is_authorized::Response as std::convert::From<cedar_policy::api::Response>>::from")
            or (n.startswith(FFI + "<impl std::convert::From<cedar_policy::api::Response> for") and n.endswith("::from"))]
    hits = [h for h in hits if facts.fns.meta(h)[1] != "Closure"]
    if len(hits) != 1:
        chk.lost(rule, "From<api::Response> for ffi::Response", "found %d" % len(hits))
        return
    f = facts.fns[hits[0]]
    chk.functions.add(f.name)
    try:
        ret, trace = tt.Interp(f, AtomOracle()).run(arg_syms(f))
    except tt.Undecided as e:
        chk.ob(rule, "from", False, "undecided: %s" % e, where=f.where())
        return
    ctor = [a for c, a, _, _ in trace if c.endswith("ffi::is_authorized::Response::new")]
    ok = False
    det = "no ffi Response::new"
    if ctor:
        a = ctor[0]
        d_ok = any(s[:2] == ("arg1", "decision") for s in syms(a[0]))
        r_ok = any(c.endswith("into_components") for c in res_calls(a[1])) and any(c.endswith("into_components") for c in res_calls(a[2]))
        # reasons come from component .0 and errors from .1
        def comp(v):
            for x in __import__("lib.rulelib", fromlist=["walk"]).walk(v):
                if x[0] == "res" and x[1].endswith("into_components") and len(x) > 4:
                    return x[4]
            return None
        order = comp(a[1]) == (0,) and comp(a[2]) == (1,)
        ok = d_ok and r_ok and order
        det = "decision<-response.decision: %s; reasons<-components.0 and errors<-components.1: %s" % (d_ok, order)
    chk.ob(rule, "from", ok, det, where=f.where(), fn=f.name, sample={"detail": det})
    g = facts.fn("cedar_policy::api::Diagnostics::into_components")
    if g is not None:
        try:
            ret, _ = tt.Interp(g, AtomOracle()).run(arg_syms(g))
            ok = ret[0] == "tup" and any(s[-1] == "reason" for s in syms(ret[1][0])) and any(s[-1] == "errors" for s in syms(ret[1][1]))
        except tt.Undecided:
            ok = False
        chk.ob(rule, "into_components", ok, "Diagnostics::into_components returns (reason, errors) in that order: %s" % ok, where=g.where(), fn=g.name)


def cli_table(chk, facts):
    rule = "C19.TABLE.cli"
    facts.load_crate("cedar_policy_cli.lib")
    f = get_fn(chk, facts, rule, "cedar_policy_cli::command::authorize::authorize")
    if f is None:
        return
    n = 0
    for res, dec, want in (("Ok", "Allow", "Success"), ("Ok", "Deny", "AuthorizeDeny"), ("Err", None, "Failure")):
        class O(AtomOracle):
            def res_discriminant(self, v, adt, res=res, dec=dec):
                if v[1].endswith("execute_request") and adt.endswith("Result"):
                    return 0 if res == "Ok" else 1
                if v[1].endswith("Response::decision") and adt.endswith("Decision"):
                    return 0 if dec == "Allow" else 1
                if adt.endswith("Option"):
                    return 0   # loops / peeks: nothing to print
                return None

            def switch_value(self, v, interp):
                return 0       # verbose off, no errors to print
        try:
            ret, trace = tt.Interp(f, O()).run(arg_syms(f))
            got = ret[2] if ret[0] == "adt" else repr(ret)[:40]
        except tt.Undecided as e:
            got = "undecided: %s" % str(e)[:80]
        n += 1
        chk.ob(rule, "authorize:%s/%s" % (res, dec), got == want, "authorize with outcome %s/%s exits with %s; required %s" % (res, dec, got, want), where=f.where(), fn=f.name,
               sample={"result": res, "decision": dec, "exit": got})
    chk.floor(rule, "rows", n, 3)
    rep = [nme for nme in facts.fns if nme.endswith("CedarExitCode as std::process::Termination>::report")]
    if rep:
        g = facts.fns[rep[0]]
        codes = {}
        r = facts.adts.get("cedar_policy_cli::CedarExitCode")
        for vi, v in enumerate(r["variants"] if r else []):
            class O2(AtomOracle):
                def discriminant(self, path, adt, vi=vi):
                    return vi if adt.endswith("CedarExitCode") else None
            try:
                ret, trace = tt.Interp(g, O2()).run(arg_syms(g))
                codes[v["name"]] = [x for c, a, _, _ in trace for x in a if x[0] == "int"] or str(ret)[:60]
            except tt.Undecided:
                codes[v["name"]] = "undecided"
        distinct = len({str(v) for v in codes.values()}) == len(codes)
        chk.ob(rule, "exit-codes-distinct", distinct, "CedarExitCode variants map to distinct process exit codes: %s" % codes, where=g.where(), fn=g.name, sample=codes)


def validate_flow(chk, facts):
    """ffi::validate returns what Validator::validate returns for the same inputs: the requested mode is passed on, every error goes to
    validationErrors and every warning to validationWarnings (unfiltered, not swapped), with the policy id each one names."""
    rule = "C19.FLOW.validate"
    f = get_fn(chk, facts, rule, "cedar_policy::ffi::validate::validate")
    if f is None:
        return
    vs = [(b, t) for b, t in f.calls() if callee(t).endswith("api::Validator::validate")]
    if len(vs) != 1:
        chk.ob(rule, "call", False, "expected one Validator::validate call, found %d" % len(vs), where=f.where(), fn=f.name)
        return
    b, t = vs[0]
    mode_ok = False
    o = t[2][2] if len(t[2]) > 2 else None
    if o is not None:
        src = leaf_producers(f, o)
        mode_ok = any(x.startswith("place:") and x.endswith("mode") for x in src) and not any(x == "const" for x in src)
    chk.ob(rule, "mode", mode_ok, "the validation mode handed to Validator::validate is the call's own settings.mode: %s" % mode_ok, where=f.where(t[1].get("l")), fn=f.name)
    split = [(bb, tt_) for bb, tt_ in f.calls() if callee(tt_).endswith("into_errors_and_warnings")]
    ok = False
    det = "no into_errors_and_warnings"
    if split:
        dest = split[0][1][3][0]

        def seed(p):
            if p[0] == dest and len(p) > 1 and isinstance(p[1], list) and p[1][0] == "f":
                return ["ERRS" if p[1][1] == 0 else "WARNS"]
            return []
        L = shape.Labels(f, None, seed)
        VA = [s_ for _, s_ in f.stmts() if s_[0] == "a" and s_[2][0] == "agg" and s_[2][1][0] == "adt" and s_[2][1][1].endswith("ffi::validate::ValidationAnswer") and s_[2][1][2] == "Success"]
        if VA:
            got = {nm: {x for x in L.operand_labels(o_) if x in ("ERRS", "WARNS")} for nm, o_ in zip(VA[0][2][1][3], VA[0][2][2])}
            ok = got.get("validation_errors") == {"ERRS"} and got.get("validation_warnings") == {"WARNS"}
            det = "validation_errors <- %s, validation_warnings <- %s" % (sorted(got.get("validation_errors", [])), sorted(got.get("validation_warnings", [])))
    filt = sorted({callee(tt_).split("::")[-1] for bb, tt_ in f.calls() if callee(tt_).split("::")[-1] in ("filter", "filter_map", "take", "skip", "take_while", "skip_while", "dedup", "truncate")})
    chk.ob(rule, "errors-and-warnings", ok and not filt, "%s%s" % (det, (" — filtered by %s" % filt) if filt else ""), where=f.where(), fn=f.name, key="%s:errors-and-warnings" % rule)
    # each reported item names the policy the error names
    ids_ok = True
    ncl = 0
    for cl in facts.closures_of(f.name):
        aggs = [s_ for _, s_ in cl.stmts() if s_[0] == "a" and s_[2][0] == "agg" and s_[2][1][0] == "adt" and s_[2][1][1].endswith("ffi::validate::ValidationError")]
        for s_ in aggs:
            ncl += 1
            Lc = shape.Labels(cl, None, None, call_labels=lambda c, t_: ["PID"] if c.endswith("::policy_id") else None, param_labels={2: {"ITEM"}})
            got = {nm: Lc.operand_labels(o_) for nm, o_ in zip(s_[2][1][3], s_[2][2])}
            ids_ok &= "PID" in got.get("policy_id", set()) and "ITEM" in got.get("error", set())
    chk.ob(rule, "policy-ids", ids_ok and ncl >= 2, "each reported error / warning carries the policy id the validator's item names and the item itself (%d conversion sites): %s" % (ncl, ids_ok), where=f.where(), fn=f.name)
    # ffi mode -> api mode table
    conv = None
    for n in facts.fns.index:
        if "From<cedar_policy::api::ValidationMode>" in n and n.endswith("::from") and "closure" not in n:
            conv = facts.fns[n]
    if conv is None:
        chk.lost(rule, "From<api::ValidationMode> for the core ValidationMode")
    else:
        src = facts.adts.get("cedar_policy::api::ValidationMode")
        m = {}
        for b2, scrut, arms, other in shape.variant_switches(conv, "api::ValidationMode"):
            for vi, tgt in arms.items():
                for x in cfg.reachable(conv, tgt, cut_blocks={b2}):
                    for s_ in conv.blocks[x]["st"]:
                        if s_[0] == "a" and s_[1] == [0] and s_[2][0] == "agg" and s_[2][1][0] == "adt":
                            m[src["variants"][vi]["name"]] = s_[2][1][2]
        chk.ob(rule, "mode-table", bool(m) and all(k == v for k, v in m.items()), "api ValidationMode (the type the JSON interface deserialises) -> core ValidationMode maps %s" % m, where=conv.where(), fn=conv.name, sample={"table": m})


def wrappers_and_format(chk, facts):
    """The JSON / JSON-string variants of every FFI entry are thin wrappers of the typed entry (same answer), and ffi::format
    passes the call's own line width / indent width / text to the formatter."""
    rule = "C19.FLOW.wrappers"
    n = 0
    names = [nme for nme in facts.unit_fns("cedar_policy.lib") if nme.startswith("cedar_policy::ffi::") and "closure" not in nme and "::test" not in nme]
    byname = set(names)
    for nme in sorted(names):
        base = None
        if nme.endswith("_json_str"):
            base = nme[:-len("_json_str")]
        elif nme.endswith("_json"):
            base = nme[:-len("_json")]
        if base is None or base not in byname:
            continue
        f = facts.fns[nme]
        if not f.r.get("pub"):
            continue
        cs = [callee(t) for _, t in f.calls()]
        ok = base in cs
        n += 1
        chk.ob(rule, short(nme).split("ffi::")[-1], ok, "%s answers by calling %s: %s" % (short(nme), short(base).split("::")[-1], ok), where=f.where(), fn=nme, key="%s:%s" % (rule, nme))
    chk.floor(rule, "JSON wrappers", n, 16)
    f = facts.fn("cedar_policy::ffi::format::format")
    if f is None:
        chk.lost(rule, "ffi::format::format")
        return

    def seed(p):
        return ["CALL:" + e[2] for e in p[1:] if isinstance(e, list) and e[0] == "f" and str(e[3]).endswith("FormattingCall") and e[2]]
    L = shape.Labels(f, None, seed)
    okc = False
    for b, s_ in f.stmts():
        if s_[0] == "a" and s_[2][0] == "agg" and s_[2][1][0] == "adt" and (s_[2][1][1].endswith("::Config") and "formatter" in s_[2][1][1]):
            got = {nm: {x[5:] for x in L.operand_labels(o) if x.startswith("CALL:")} for nm, o in zip(s_[2][1][3], s_[2][2])}
            okc = got.get("line_width") == {"line_width"} and got.get("indent_width") == {"indent_width"}
    txt = False
    for b, t in f.calls():
        if callee(t).endswith("policies_str_to_pretty"):
            txt = "CALL:policy_text" in L.operand_labels(t[2][0])
    chk.ob(rule, "format", okc and txt, "ffi::format formats the call's own policy_text (%s) with the call's own line_width / indent_width (%s)" % (txt, okc), where=f.where(), fn=f.name)


RESIDUAL_FIELDS = {"decision": "decision", "satisfied": "definitely_satisfied", "errored": "definitely_errored", "may_be_determining": "may_be_determining",
                   "must_be_determining": "must_be_determining", "nontrivial_residuals": "nontrivial_residuals", "residuals": "all_residuals"}
DELEGATES = ("decision", "definitely_satisfied", "definitely_errored", "may_be_determining", "must_be_determining", "nontrivial_residuals", "all_residuals")


def residual_hom(chk, facts):
    """Partial authorization through the FFI: every field of the FFI's ResidualResponse is filled from the PartialResponse
    accessor it is named after, the FFI getters read the field they are named after, and the API's PartialResponse accessors
    delegate to the core accessor of the same name."""
    rule = "C19.HOM.residual"
    name = "<cedar_policy::ffi::is_authorized::ResidualResponse as std::convert::TryFrom<cedar_policy::api::PartialResponse>>::try_from"
    f = facts.fns.get(name)
    n = 0
    if f is None:
        if chk.secondary:
            return
        chk.lost(rule, "TryFrom<PartialResponse> for ffi::ResidualResponse")
        return
    chk.functions.add(f.name)
    L = shape.Labels(f, None, None, call_labels=lambda c, t: (["A:" + c.split("::")[-1]] if c.startswith("cedar_policy::api::PartialResponse::") else None))
    adt = [a for k, a in facts.adts.items() if k.endswith("ffi::is_authorized::ResidualResponse")]
    aggs = [s_ for _, s_ in f.stmts() if s_[0] == "a" and s_[2][0] == "agg" and s_[2][1][0] == "adt" and str(s_[2][1][1]).endswith("ffi::is_authorized::ResidualResponse")]
    if len(aggs) != 1 or not adt:
        chk.lost(rule, "the ResidualResponse literal in try_from", "found %d" % len(aggs))
        return
    names = [fl[0] for fl in adt[0]["variants"][0]["fields"]]
    for i, o in enumerate(aggs[0][2][2]):
        nm = names[i] if i < len(names) else str(i)
        labs = {x[2:] for x in L.operand_labels(o) if x.startswith("A:")}
        want = RESIDUAL_FIELDS.get(nm)
        if want is None:
            chk.ob(rule, "field:" + nm, False, "field %s of ResidualResponse is not in the reviewed table" % nm, where=f.where(aggs[0][3]), fn=f.name)
            continue
        n += 1
        chk.ob(rule, "field:" + nm, labs == {want}, "ResidualResponse.%s is filled from PartialResponse::%s (must be exactly %s)" % (nm, sorted(labs), want),
               where=f.where(aggs[0][3]), fn=f.name, key="%s:field:%s" % (rule, nm), sample={"field": nm, "from": sorted(labs)})
    # FFI getters read their namesake field
    for g_name in ("decision", "satisfied", "errored", "may_be_determining", "must_be_determining"):
        g = facts.fns.get("cedar_policy::ffi::is_authorized::ResidualResponse::" + g_name)
        if g is None:
            chk.lost(rule, "ResidualResponse::" + g_name)
            continue
        fields = set()
        for b, blk in enumerate(g.blocks):
            for s_ in blk["st"]:
                if s_[0] == "a":
                    for p_ in shape._rv_places(s_[2]):
                        if p_[0] == 1:
                            for e in p_[1:]:
                                if isinstance(e, list) and e[0] == "f":
                                    fields.add(e[2])
        n += 1
        chk.ob(rule, "getter:" + g_name, fields == {g_name}, "ResidualResponse::%s() reads field(s) %s" % (g_name, sorted(fields)), where=g.where(), fn=g.name, key="%s:getter:%s" % (rule, g_name))
    # API accessors delegate to the core accessor of the same name
    for d in DELEGATES:
        g = facts.fns.get("cedar_policy::api::PartialResponse::" + d)
        if g is None:
            chk.lost(rule, "api::PartialResponse::" + d)
            continue
        core = sorted({callee(t).split("::")[-1] for _, t in g.calls() if callee(t).startswith("cedar_policy_core::authorizer::") and "PartialResponse::" in callee(t)})
        n += 1
        chk.ob(rule, "delegate:" + d, core == [d], "api PartialResponse::%s delegates to core PartialResponse::%s" % (d, core), where=g.where(), fn=g.name, key="%s:delegate:%s" % (rule, d))
    chk.floor(rule, "residual-response obligations", n, 19)


DELEGATE_SKIP = ("clone", "from", "into", "as_ref", "new", "ref_cast", "fmt", "all_available")


def _norm_ty(t):
    import re
    return re.sub(r"\{closure@[^}]*\}", "{closure}", t)


def sibling_delegates(chk, facts):
    """Thin wrappers are not cross-wired: among the methods of one wrapper type that consist of a single call into the
    wrapped layer, a method is never implemented by the call that a *sibling* of the same return type is named after and
    delegates to (e.g. must_be_determining() calling the core's may_be_determining())."""
    import collections
    rule = "C19.DELEGATE"
    n = 0
    for layer, prefix, target in (("api", "cedar_policy::api::", "cedar_policy_core::"), ("ffi", "cedar_policy::ffi::", "cedar_policy::api::")):
        by_type = collections.defaultdict(dict)
        for name in facts.fns.keys():
            if not name.startswith(prefix) or "{closure" in name or "tests::" in name or name.startswith("<"):
                continue
            f = facts.fns[name]
            segs = name.split("::")
            own, ty = segs[-1], "::".join(segs[:-1])
            core = [(callee(t), t[1].get("l")) for b, t in f.calls() if callee(t).startswith(target) and callee(t).split("::")[-1] not in DELEGATE_SKIP]
            if len(core) == 1:
                by_type[ty][own] = (core[0][0], core[0][1], f)
        for ty, ws in sorted(by_type.items()):
            pure = {own: f for own, (c, _, f) in ws.items() if c.split("::")[-1] == own}
            for own, (c, line, f) in sorted(ws.items()):
                m = c.split("::")[-1]
                if m == own:
                    n += 1
                    chk.functions.add(f.name)
                    continue
                if m in pure and _norm_ty(pure[m].locals[0]) == _norm_ty(f.locals[0]):
                    chk.ob(rule, "%s::%s" % (ty.split("::")[-1], own), False,
                           "%s::%s is implemented by the single call %s — the call its sibling %s (same return type) is named after" % (ty.split("::")[-1], own, short(c), m),
                           where=f.where(line), fn=f.name, key="%s:%s:%s:%s" % (rule, layer, ty, own))
    chk.ob(rule, "siblings", True, "%d single-call wrappers delegate to the wrapped method they are named after; none is wired to a same-typed sibling's target" % n, key=rule + ":ok",
           sample={"same_named_delegates": n})
    chk.floor(rule, "same-named single-call delegates", n, 100)


def run(chk, facts, tier):
    facts.load_crate("cedar_policy_core.lib")
    facts.load_crate("cedar_policy.lib")
    chk.explanation = (
        "Static decision of front-end plumbing on the current MIR: (FLOW.parse) in both FFI parse functions Request::new receives principal/action/resource/context from the like-named "
        "fields in order, the schema reaches it only under validate_request, and context and entity parsing receive the schema (context also the action); (SIBLING.entry) the stateless "
        "and stateful entry points make the same workspace calls up to parsing; (OWN.cache) the pre-parse caches are touched only by preparse_* and the stateful parse (read-only), are "
        "written only on the Ok edge of parsing by a plain insert, and nothing reachable from the stateless entry points mentions them (call-graph); (HOM.response) the FFI response takes "
        "decision, reasons (component 0) and errors (component 1) from the API response; (TABLE.cli) the authorize exit code is Success/AuthorizeDeny/Failure for Allow/Deny/error and "
        "exit codes are distinct. Declines equality of answers for all inputs.")
    chk.assumptions = ["MIR at mir-opt-level=0 reflects source control flow", "serde (de)serialisation derive code is exempt as a class"]
    parse_flow(chk, facts)
    entry_sibling(chk, facts)
    cache_ownership(chk, facts)
    response_hom(chk, facts)
    residual_hom(chk, facts)
    sibling_delegates(chk, facts)
    from rules import shared_getters
    shared_getters.check(chk, facts, "C19.GETTER", ["cedar_policy::ffi::"], 8)
    cli_table(chk, facts)
    validate_flow(chk, facts)
    wrappers_and_format(chk, facts)
