"""C07.REJECT / C07.FORMS — the validation checks of the extension constructors are an inventory.

Every place where decimal / ipaddr / datetime parsing rejects its input (an Err(..) or an error-enum
value is built) is a rule instance: (function, error built, the nearest conditional that decides
whether it is reached, with its constants — not the whole dominating set, so that re-ordering independent checks stays silent). The reviewed table tables/c07_rejections.json lists them with the documented
reason; the check compares the multiset on the current MIR with the table in both directions:
a vanished or weakened check accepts undocumented forms, a new one rejects documented ones — either
needs review. The accepted string forms themselves are the regular expressions (and the digit-count
constants) these functions use; they are compared with the documented forms in the same table.
"""
import json
import os

from lib import panics
from lib.facts import callee
from lib.rulelib import short

ROOT = os.path.dirname(os.path.dirname(os.path.abspath(__file__)))
FILES = ("src/extensions/decimal.rs", "src/extensions/ipaddr.rs", "src/extensions/datetime.rs")
TABLE = os.path.join(ROOT, "tables", "c07_rejections.json")


def _consts_in(o, out):
    if isinstance(o, list):
        if len(o) == 2 and o[0] == "k" and isinstance(o[1], dict):
            k = o[1]
            if "cdef" in k and "v" in k and "::{" not in k["cdef"]:
                out[k["cdef"].replace("cedar_policy_core::", "core::")] = k["v"]
            return
        for x in o:
            _consts_in(x, out)


def nearest_guard(f, site_block):
    """The closest conditional that decides whether the site is reached: [(condition descriptor, taken values)] or []."""
    from lib import cfg
    idom = cfg.dominators(f)
    if site_block not in idom:
        return []
    d = site_block
    while d != 0:
        d = idom[d]
        t = f.blocks[d]["t"]
        if t[0] == "sw":
            targets = [(str(v), bb) for v, bb in t[2]] + [("else", t[3])]
            taken = [v for v, bb in targets if site_block in cfg.reachable(f, bb, cut_blocks={d})]
            if len(taken) < len(targets):
                desc = panics.cond_desc(f, d)
                if desc.startswith("disc:ControlFlow<"):
                    continue          # the `?` of an earlier step: not this check's own condition
                return [[desc, ",".join(sorted(set(taken)))]]
        if d == 0:
            break
    return []


def collect(facts):
    sites = []
    regexes = {}
    collect.consts = {}
    for name in facts.unit_fns("cedar_policy_core.lib"):
        gen, kind, root, ti, file, line = facts.fns.meta(name)
        if gen or not file.endswith(FILES) or "::tests::" in name or "::test::" in name:
            continue
        if panics.is_derive(facts.fns.fnmac(name)):
            continue
        f = facts.fns[name]
        for b, blk in enumerate(f.blocks):
            if blk["cl"]:
                continue
            _consts_in(blk["st"], collect.consts)
            _consts_in(blk["t"], collect.consts)
            for s in blk["st"]:
                if s[0] == "a" and s[2][0] == "agg" and s[2][1][0] == "adt":
                    adt, var = s[2][1][1], s[2][1][2]
                    last = adt.split("::")[-1]
                    if var == "Err" and last == "Result":
                        what = "Err"
                    elif last.endswith("Error") or last == "Error":
                        what = "%s::%s" % (last, var)
                    else:
                        continue
                    g = nearest_guard(f, b)
                    sites.append({"fn": short(name).replace("cedar_policy_core::", "core::"), "what": what, "guards": g, "line": s[3], "file": file})
            t = blk["t"]
            if t[0] == "call" and callee(t).endswith("Regex::new"):
                lits = [o[1]["s"] for o in t[2] if o[0] == "k" and "s" in o[1]]
                if not lits:
                    lits = [s_[2][1][1]["s"] for _, s_ in f.stmts() if s_[0] == "a" and s_[2][0] == "use" and s_[2][1][0] == "k" and "s" in s_[2][1][1]]
                regexes.setdefault(short(name).replace("cedar_policy_core::", "core::"), []).extend(lits)
    return sites, regexes


def key(s):
    return json.dumps([s["fn"], s["what"], s["guards"]], sort_keys=True)


def check(chk, facts):
    rule = "C07.REJECT"
    try:
        tab = json.load(open(TABLE))
    except OSError:
        chk.lost(rule, "tables/c07_rejections.json")
        return
    sites, regexes = collect(facts)
    cur = {}
    for s in sites:
        cur.setdefault(key(s), []).append(s)
    want = {}
    for e in tab["rejections"]:
        want[key(e)] = e
    n = 0
    for k, e in sorted(want.items()):
        have = len(cur.get(k, []))
        n += 1
        chk.ob(rule, "%s:%s" % (e["fn"].split("::")[-1], e["what"]), have == e["count"],
               "%s rejects with %s under %s: %d site(s) on the current tree, %d reviewed (%s)" % (e["fn"], e["what"], [tuple(g) for g in e["guards"]][:4], have, e["count"], e.get("reason", "")),
               where="%s:%s" % (cur[k][0]["file"], cur[k][0]["line"]) if have else None, key="%s:missing:%s" % (rule, k), sample={"fn": e["fn"], "what": e["what"], "guards": e["guards"][:4]})
    for k, ss in sorted(cur.items()):
        if k not in want:
            s = ss[0]
            n += 1
            chk.ob(rule, "new:%s:%s" % (s["fn"].split("::")[-1], s["what"]), False,
                   "%s rejects with %s under guards %s — not in the reviewed table (a check was added, or the condition / constant of an existing one changed)" % (s["fn"], s["what"], [tuple(g) for g in s["guards"]][:5]),
                   where="%s:%s" % (s["file"], s["line"]), key="%s:new:%s" % (rule, k))
    chk.floor(rule, "rejection sites", len(sites), 36)
    rule2 = "C07.FORMS"
    for fn, pats in sorted(tab["forms"].items()):
        have = sorted(regexes.get(fn, []))
        n += 1
        chk.ob(rule2, fn.split("::")[-2] if "closure" in fn else fn.split("::")[-1], have == sorted(pats["patterns"]),
               "%s compiles %s; documented form: %s" % (fn, have, pats["doc"]), key="%s:%s" % (rule2, fn), sample={"fn": fn, "patterns": have})
    for fn in sorted(regexes):
        if fn not in tab["forms"]:
            chk.ob(rule2, "new:" + fn.split("::")[-1], False, "%s compiles %s — not in the reviewed table of accepted forms" % (fn, regexes[fn]), key="%s:new:%s" % (rule2, fn))
    chk.floor(rule2, "regular expressions", sum(len(v) for v in regexes.values()), 5)
    rule3 = "C07.LIMITS"
    consts = collect.consts
    for cname, e in sorted(tab.get("limits", {}).items()):
        have = consts.get(cname)
        chk.ob(rule3, cname.split("::")[-1], have == e["value"], "%s = %s on the current tree; documented limit %s (%s)" % (cname, have, e["value"], e.get("doc", "")),
               key="%s:%s" % (rule3, cname), sample={"const": cname, "value": have})
    for cname, v in sorted(consts.items()):
        if cname not in tab.get("limits", {}):
            chk.ob(rule3, "new:" + cname.split("::")[-1], False, "named numeric constant %s = %s is used by the extension code but is not in the reviewed table" % (cname, v), key="%s:new:%s" % (rule3, cname))
    chk.floor(rule3, "named limits", len(consts), len(tab.get("limits", {})))
