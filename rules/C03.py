"""C03 — strict validation: capability flow and guarded optional access.

Decides: (CAP) in the typechecker's `if` / `&&` / `||` arms, (i) the prior
capability handed to the typechecking of each operand and (ii) the capability
returned with each successful answer are within the bounds that the run-time
evaluation order makes sound; (GUARD.optional) an optional attribute / a tag is
given a type only under `is_required` or a capability-set membership test for
exactly that access; (TRAVERSE) every child of every expression form is
typechecked. Declines soundness of the types themselves (LUBs, hierarchy,
extension signatures), non-vacuity, strict ⊆ permissive.

Method: the arm's closure tree is enumerated path by path (per-path constant
propagation, forking at undecided branches); capability values are kept as
set-expressions over the atoms {prior, cap(child)...}; containment in the bound
is decided exactly by evaluating both sides over all assignments of the atoms.
"""
import itertools

from lib import tt, traverse, shape, protocol, cfg
from lib.facts import callee
from lib.rulelib import AtomOracle, get_fn, short, walk, std_model

TC = "cedar_policy_core::validator::typecheck::SingleEnvTypechecker::"
EXPRKIND = "cedar_policy_core::ast::expr::ExprKind"
ANS = "cedar_policy_core::validator::typecheck::typecheck_answer::TypecheckAnswer::"
CAPSET = "cedar_policy_core::validator::types::capability::CapabilitySet::"
BOOLTYPE = "cedar_policy_core::validator::types::BoolType"
TYPECHECK_CALLS = (TC + "typecheck", TC + "expect_type", TC + "expect_one_of_types")


class TOracle(AtomOracle):
    def __init__(self, facts, variant_idx):
        AtomOracle.__init__(self)
        self.facts = facts
        self.variant_idx = variant_idx

    def call(self, cal, args, term, interp):
        m = std_model(cal, args, self)
        if m is not None:
            return m
        if cal.endswith("ast::expr::Expr::<T>::expr_kind") and args and args[0] == ("sym", ("arg3",)):
            return ("sym", ("E",))
        return None

    def discriminant(self, path, adt):
        if path == ("E",) and adt.endswith("ast::expr::ExprKind"):
            return self.variant_idx
        return None


def child_of(v):
    """('sym', ('E','as And','left')) -> 'And.left'"""
    for x in walk(v):
        if x[0] == "sym" and x[1] and x[1][0] == "E" and len(x[1]) >= 3 and x[1][1].startswith("as "):
            return "%s.%s" % (x[1][1][3:], x[1][2])
    return None


def capexpr(v, depth=0):
    """abstract value -> set expression over atoms"""
    if depth > 12:
        return ("?", "deep")
    k = v[0]
    if k == "sym":
        p = v[1]
        if p == ("arg2",):
            return ("A", "P")
        if p and p[0].startswith("cap:"):
            return ("A", p[0])
        return ("?", ".".join(p))
    if k == "capx":
        return v[1]
    if k == "res":
        c = v[1]
        a = v[2]
        if c == CAPSET + "union" and len(a) == 2:
            return ("U", capexpr(a[0], depth + 1), capexpr(a[1], depth + 1))
        if c == CAPSET + "intersect" and len(a) == 2:
            return ("I", capexpr(a[0], depth + 1), capexpr(a[1], depth + 1))
        if c in (CAPSET + "new", CAPSET + "default") or c.endswith("Default>::default") and "CapabilitySet" in c:
            return ("E",)
        if c == CAPSET + "singleton":
            return ("A", "S%d" % v[3])
        if c.endswith(("Clone>::clone", "::as_ref", "Deref>::deref", "::borrow", "ToOwned>::to_owned")) and a:
            return capexpr(a[0], depth + 1)
        return ("?", c.split("::")[-1])
    return ("?", k)


def atoms(e, acc=None):
    acc = acc if acc is not None else set()
    if e[0] == "A":
        acc.add(e[1])
    elif e[0] in ("U", "I"):
        atoms(e[1], acc)
        atoms(e[2], acc)
    return acc


def ev(e, env):
    if e[0] == "A":
        return env[e[1]]
    if e[0] == "E":
        return False
    if e[0] == "U":
        return ev(e[1], env) or ev(e[2], env)
    if e[0] == "I":
        return ev(e[1], env) and ev(e[2], env)
    return True     # unknown: may contain anything (fail closed for containment on the left-hand side)


def unknown(e):
    if e[0] == "?":
        return e[1]
    if e[0] in ("U", "I"):
        return unknown(e[1]) or unknown(e[2])
    return None


def subset(a, b):
    at = sorted(atoms(a) | atoms(b))
    for bits in itertools.product([False, True], repeat=len(at)):
        env = dict(zip(at, bits))
        if ev(a, env) and not ev(b, env):
            return False
    return True


def show(e):
    if e[0] == "A":
        return e[1]
    if e[0] == "E":
        return "∅"
    if e[0] in ("U", "I"):
        return "(%s %s %s)" % (show(e[1]), "∪" if e[0] == "U" else "∩", show(e[2]))
    return "?%s" % e[1]


def A(x):
    return ("A", x)


def U(*xs):
    e = xs[0]
    for x in xs[1:]:
        e = ("U", e, x)
    return e


def Ix(a, b):
    return ("I", a, b)


def parse_guards(facts, decisions):
    """[(child, 'True'|'False')] established by the branch decisions of one path."""
    out = []
    bt = facts.adts.get(BOOLTYPE)
    names = [v["name"] for v in bt["variants"]] if bt else []
    for blk, v, taken in decisions:
        typ = None
        for x in walk(v):
            if x[0] == "sym" and x[1] and x[1][0].startswith("typ:"):
                typ = x[1][0][4:]
        if typ is None:
            continue
        if v[0] == "disc_of" and len(v) > 2 and v[2].endswith("types::BoolType") and isinstance(taken, int) and taken < len(names):
            out.append((typ, names[taken]))
        elif v[0] == "res" and "PartialEq" in v[1] and v[1].endswith("::eq"):
            const = None
            for x in walk(v):
                if x[0] == "res" and x[1].endswith("Type::singleton_boolean") and x[2] and x[2][0][0] == "int":
                    const = x[2][0][1]
            if const is not None and taken == "else":
                out.append((typ, "True" if const else "False"))
    return out


class Walker:
    def __init__(self, chk, facts, rule, node):
        self.chk = chk
        self.facts = facts
        self.rule = rule
        self.node = node
        self.envs = []       # (child, capexpr, guards, fn, line)
        self.results = []    # (capexpr, guards, fn, line)
        self.paths = 0
        self.undecided = []

    def mapped_cap(self, child, mapper):
        base = ("sym", ("cap:" + child,))
        if mapper is None:
            return base
        g = self.facts.fn(mapper[1])
        if g is None:
            return ("capx", ("?", "mapper"))
        res = tt.explore(g, lambda: AtomOracle(), {1: mapper, 2: base}, max_paths=8)
        if len(res) != 1:
            return ("capx", ("?", "mapper-branches"))
        return ("capx", capexpr(res[0][0]))

    def process(self, fn, results, guards_in):
        for ret, trace, decisions in results:
            self.paths += 1
            guards = guards_in + parse_guards(self.facts, decisions)
            answers = {}
            for ent in trace:
                cal, args, line, res = ent[0], ent[1], ent[2], ent[3]
                if cal in TYPECHECK_CALLS and len(args) >= 3:
                    child = child_of(args[2])
                    if child is None:
                        continue
                    self.envs.append((child, capexpr(args[1]), guards, fn, line))
                    answers[res[3]] = (child, None)
                elif cal == ANS + "map_capability" and len(args) == 2 and args[0][0] == "res":
                    a = answers.get(args[0][3])
                    if a and args[1][0] == "closure":
                        answers[res[3]] = (a[0], args[1])
                elif cal == ANS + "then_typecheck" and len(args) == 2:
                    a = self.lookup_answer(args[0], answers)
                    if a is None or args[1][0] != "closure":
                        continue
                    child, mapper = a
                    k = self.facts.fn(args[1][1])
                    if k is None:
                        self.undecided.append("closure %s missing" % args[1][1])
                        continue
                    init = {1: args[1], 2: ("sym", ("typ:" + child,)), 3: self.mapped_cap(child, mapper)}
                    sub = tt.explore(k, lambda: TOracle(self.facts, None), init, max_paths=128)
                    self.process(k, sub, guards)
                elif cal == ANS + "success_with_capability" and len(args) == 2:
                    self.results.append((capexpr(args[1]), guards, fn, line))
                elif cal == ANS + "success" and len(args) == 1:
                    self.results.append((("E",), guards, fn, line))

    def lookup_answer(self, v, answers):
        # the answer may have been captured from an enclosing body: it carries (child, mapper) in its own value
        if v[0] == "res":
            if v[3] in answers and v[1] in TYPECHECK_CALLS + (ANS + "map_capability",):
                a = answers[v[3]]
                # make sure it is the same call (ids are per body): compare callee
                return a
            if v[1] in TYPECHECK_CALLS and len(v[2]) >= 3:
                c = child_of(v[2][2])
                if c:
                    return (c, None)
            if v[1] == ANS + "map_capability" and len(v[2]) == 2:
                inner = self.lookup_answer(v[2][0], answers)
                if inner and v[2][1][0] == "closure":
                    return (inner[0], v[2][1])
        return None


def bounds_env(node):
    P = A("P")
    if node == "And":
        return {"And.left": P, "And.right": U(P, A("cap:And.left"))}
    if node == "Or":
        return {"Or.left": P, "Or.right": P}
    return {"If.test_expr": P, "If.then_expr": U(P, A("cap:If.test_expr")), "If.else_expr": P}


def bounds_result(node, guards):
    """list of (justification, bound)"""
    g = set(guards)
    if node == "And":
        return [("both operands are true", U(A("cap:And.left"), A("cap:And.right")))]
    if node == "Or":
        L, R = A("cap:Or.left"), A("cap:Or.right")
        out = [("either operand may be the true one", Ix(L, R))]
        if ("Or.left", "False") in g or ("Or.right", "True") in g:
            out.append(("left is statically false / right statically true", R))
        if ("Or.right", "False") in g or ("Or.left", "True") in g:
            out.append(("right is statically false / left statically true", L))
        return out
    T, Th, El = A("cap:If.test_expr"), A("cap:If.then_expr"), A("cap:If.else_expr")
    out = [("either branch may be taken", Ix(U(T, Th), El))]
    if ("If.test_expr", "True") in g:
        out.append(("test statically true", U(T, Th)))
    if ("If.test_expr", "False") in g:
        out.append(("test statically false", El))
    return out


def capability_flow(chk, facts):
    rule = "C03.CAP"
    f = get_fn(chk, facts, rule, TC + "typecheck")
    if f is None:
        return
    r = facts.adts.get(EXPRKIND)
    idx = {v["name"]: i for i, v in enumerate(r["variants"])} if r else {}
    total_env = total_res = 0
    for node in ("If", "And", "Or"):
        w = Walker(chk, facts, rule, node)
        init = {i: ("sym", ("arg%d" % i,)) for i in range(1, f.nargs + 1)}
        top = tt.explore(f, lambda: TOracle(facts, idx[node]), init, max_paths=64)
        w.process(f, top, [])
        be = bounds_env(node)
        seen_children = set()
        for child, e, guards, fn, line in w.envs:
            if child not in be:
                continue
            seen_children.add(child)
            unk = unknown(e)
            ok = unk is None and subset(e, be[child])
            total_env += 1
            chk.ob(rule, "%s:env(%s)@L%s" % (node, child, line), ok,
                   "%s is typechecked under prior capability %s; sound bound %s%s" % (child, show(e), show(be[child]), "" if unk is None else " (capability expression not decidable: %s)" % unk),
                   where=fn.where(line), fn=fn.name, key="%s:%s:env:%s:%s" % (rule, node, child, show(e)),
                   sample={"node": node, "child": child, "prior": show(e), "bound": show(be[child]), "guards": guards})
        for child in be:
            if child not in seen_children:
                chk.ob(rule, "%s:env(%s)" % (node, child), False, "no typechecking call found for %s (anchor lost)" % child, where=f.where(), fn=f.name)
        nres = 0
        for e, guards, fn, line in w.results:
            bs = bounds_result(node, guards)
            unk = unknown(e)
            just = [j for j, b in bs if unk is None and subset(e, b)]
            nres += 1
            total_res += 1
            chk.ob(rule, "%s:result@L%s[%s]" % (node, line, ",".join("%s=%s" % g for g in sorted(set(guards)))), bool(just),
                   "returns capability %s under static guards %s; %s" % (show(e), sorted(set(guards)) or "none",
                                                                        ("within bound: " + just[0]) if just else "NOT within any sound bound %s" % [(j, show(b)) for j, b in bs]),
                   where=fn.where(line), fn=fn.name, key="%s:%s:result:%s:%s" % (rule, node, show(e), sorted(set(guards))),
                   sample={"node": node, "capability": show(e), "guards": sorted(set(guards)), "bounds": [show(b) for _, b in bs]})
        chk.ob(rule, "%s:paths" % node, w.paths >= 3 and nres >= 2 and not w.undecided, "%s arm: %d paths through the closure tree, %d successful answers, undecided: %s" % (node, w.paths, nres, w.undecided or "none"),
               where=f.where(), fn=f.name, sample={"node": node, "paths": w.paths, "results": nres})
    chk.floor(rule, "operand environments", total_env, 12)
    chk.floor(rule, "successful answers", total_res, 48)


def optional_guard(chk, facts):
    rule = "C03.GUARD.optional"
    n = 0
    cases = [
        ("GetAttr", TC + "typecheck", "Capability::new_attribute", ("GetAttr.expr", "GetAttr.attr")),
    ]
    f = get_fn(chk, facts, rule, TC + "typecheck")
    if f is None:
        return
    # closures (any depth) under typecheck / typecheck_binary that build a capability and give a plain `success`
    for root, ctor, label in ((TC + "typecheck", "Capability::new_attribute", "GetAttr"), (TC + "typecheck_binary", "Capability::new_borrowed_tag", "GetTag")):
        cands = []
        for c in facts.closures_of(root):
            cs = [callee(t) for _, t in c.calls()]
            if any(x.endswith(ctor) for x in cs) and any(x == ANS + "success" for x in cs) and not any(x == ANS + "success_with_capability" for x in cs):
                cands.append(c)
        if len(cands) != 1:
            chk.lost(rule, "%s closure granting access" % label, "found %d" % len(cands))
            continue
        k = cands[0]
        chk.functions.add(k.name)
        init = {1: ("sym", ("env",)), 2: ("sym", ("typ",)), 3: ("sym", ("cap",))}
        paths = tt.explore(k, lambda: AtomOracle(), init, max_paths=512)
        granted = 0
        bad = []
        for ret, trace, decisions in paths:
            succ = [e for e in trace if e[0] == ANS + "success"]
            if not succ:
                continue
            # does this path know the attribute/tag type (Some) — i.e. is it the "typed access" path?
            contains_true = any(v[0] == "res" and v[1] == CAPSET + "contains" and taken == "else" for _, v, taken in decisions)
            contains_seen = [v for _, v, taken in decisions if v[0] == "res" and v[1] == CAPSET + "contains"]
            required_true = any(v[0] in ("sym", "res") and ("is_required" in str(v)) and taken == "else" for _, v, taken in decisions)
            required_seen = any("is_required" in str(v) for _, v, taken in decisions)
            partial = any(e[0].endswith("ValidationMode::is_partial") for e in trace)
            if label == "GetAttr":
                if not (required_seen or contains_seen):
                    # the partial-schema `Never` path: no declared type, allowed only in partial mode
                    if not partial:
                        bad.append(("success without knowing the attribute type and outside partial mode", succ[0][2]))
                    continue
                granted += 1
                if not (required_true or contains_true):
                    bad.append(("typed access granted although neither is_required nor the capability test held", succ[0][2]))
            else:
                granted += 1
                if not contains_true:
                    bad.append(("tag access granted although the capability test did not hold", succ[0][2]))
            # the capability tested is exactly this access
            for v in contains_seen:
                arg = v[2][1] if len(v[2]) > 1 else None
                okc = arg is not None and any(x[0] == "res" and x[1].endswith(ctor) for x in walk(arg))
                if not okc:
                    bad.append(("the membership test is not on %s(..) of this access" % ctor, succ[0][2]))
        n += 1
        chk.ob(rule, label, granted >= 1 and not bad,
               "%s: %d path(s) grant a typed access; each requires `is_required` or `prior_capability.contains(%s(expr, attr))`%s" % (label, granted, ctor.split("::")[-1], "" if not bad else ": " + str(bad[:3])),
               where=k.where(bad[0][1] if bad else None), fn=k.name, key="%s:%s" % (rule, label), sample={"form": label, "granting_paths": granted, "paths": len(paths)})
    chk.floor(rule, "guarded access forms", n, 2)


def traversal(chk, facts):
    rule = "C03.TRAVERSE"
    sink = lambda c, t: c in TYPECHECK_CALLS or c in (TC + "typecheck_unary", TC + "typecheck_binary", TC + "typecheck_extension", TC + "typecheck_entity_literals")
    f = get_fn(chk, facts, rule, TC + "typecheck")
    if f is not None:
        # UnaryApp / BinaryApp / ExtensionFunctionApp are delegated with the whole expression
        traverse.check(chk, rule, facts, f, EXPRKIND, "ast::expr::ExprKind", ("ast::expr::Expr<",), sink,
                       only_variants={"If", "And", "Or", "GetAttr", "HasAttr", "Like", "Is", "Set", "Record"}, floor=12)
    for nm, variants, fl in (("typecheck_binary", {"BinaryApp"}, 2), ("typecheck_unary", {"UnaryApp"}, 1), ("typecheck_extension", {"ExtensionFunctionApp"}, 1)):
        g = get_fn(chk, facts, rule, TC + nm)
        if g is not None:
            traverse.check(chk, rule, facts, g, EXPRKIND, "ast::expr::ExprKind", ("ast::expr::Expr<",), sink, only_variants=variants, floor=fl, name=nm)


def mode_monotone(chk, facts):
    """Strict mode only ever adds requirements: on the `not strict` edge of every is_strict() test in the typechecker no
    error is recorded and no failure answer is produced that the strict edge would not also produce (so every policy accepted
    in strict mode is accepted in permissive mode as far as these branches go)."""
    rule = "C03.MODE"
    n = 0
    STRICTER = ("::enforce_strict_equality", "TypecheckAnswer::<'a>::fail", "TypecheckAnswer::fail", "ValidationError::empty_set_forbidden", "ValidationError::non_lit_ext_constructor")
    for name in facts.unit_fns("cedar_policy_core.lib"):
        gen, kind, root, ti, file, line = facts.fns.meta(name)
        if gen or not file.endswith("validator/typecheck.rs"):
            continue
        f = facts.fns[name]
        for b, t in f.calls():
            if not callee(t).endswith("ValidationMode::is_strict"):
                continue
            for sb, m in protocol.bool_edges(f, b):
                excl_false = cfg.edge_region(f, sb, m[False])
                excl_true = cfg.edge_region(f, sb, m[True])
                bad = sorted({short(callee(tt_)).split("::")[-1] for bb in excl_false for tt_ in [f.blocks[bb]["t"]] if tt_[0] == "call" and callee(tt_).endswith(STRICTER)})
                pushes = [bb for bb in excl_false if f.blocks[bb]["t"][0] == "call" and callee(f.blocks[bb]["t"]).endswith("::push") and "ValidationError" in f.locals[f.blocks[bb]["t"][2][1][1][0]] if len(f.blocks[bb]["t"][2]) > 1 and f.blocks[bb]["t"][2][1][0] in ("c", "m")]
                n += 1
                chk.ob(rule, "%s@L%s" % (short(name).split("::")[-1][:40], t[1].get("l")), not bad and not pushes,
                       "is_strict() at L%s: the permissive edge %s" % (t[1].get("l"), "adds no requirement" if not bad and not pushes else "records errors / fails (%s) that strict mode does not: strict would accept what permissive rejects" % (bad or "push")),
                       where=f.where(t[1].get("l")), fn=name, key="%s:%s:%s" % (rule, name, ",".join(bad)))
    chk.floor(rule, "is_strict() tests in the typechecker", n, 5)


def run(chk, facts, tier):
    facts.load_crate("cedar_policy_core.lib")
    chk.explanation = (
        "Static decision of the capability discipline of the strict typechecker on the current MIR. (CAP) For the `if`, `&&` and `||` arms the closure tree under "
        "SingleEnvTypechecker::typecheck is enumerated path by path (per-path constant propagation, forking at undecided branches); every capability value is kept as a "
        "set-expression over the atoms {prior, cap(test), cap(left), ...}; for each typechecking call on an operand the prior-capability argument must be contained in the bound the "
        "evaluation order justifies (right of && : prior ∪ cap(left); right of || and else : prior; then : prior ∪ cap(test)), and for each successful answer the returned capability "
        "must be contained in a justified bound (&&: cap(l) ∪ cap(r); ||: cap(l) ∩ cap(r), or one operand's under a static True/False guard on the operands; if: (cap(t) ∪ cap(then)) ∩ "
        "cap(else), or one side under a static guard on the test) — containment decided exactly over all assignments of the atoms. (GUARD.optional) every path of the GetAttr / GetTag "
        "closures that grants a typed access passed `is_required` or `prior_capability.contains(<capability of exactly this access>)`. (TRAVERSE) every child of every form reaches a "
        "typechecking call. (C11.RECORD, shared) the record typecheckers that define which requests / entities are 'accepted by the library's own validation' look up every value key "
        "and every declared key. Declines soundness of the types themselves, non-vacuity and strict ⊆ permissive.")
    chk.assumptions = ["singleton boolean types True/False are sound (an operand typed True/False evaluates to that value or errors)",
                       "TypecheckAnswer::then_typecheck passes the answer's own capability to its closure; map_capability applies its closure to it",
                       "MIR at mir-opt-level=0 reflects source control flow"]
    capability_flow(chk, facts)
    optional_guard(chk, facts)
    traversal(chk, facts)
    mode_monotone(chk, facts)
    from rules import c03_validate
    c03_validate.check(chk, facts)
    # the soundness statement quantifies over requests the library's own request validation accepts: the record
    # typechecker behind it must reject undeclared / missing attributes (shared with C11)
    from rules import c11_record
    c11_record.check(chk, facts)
    from rules import c03_errors
    c03_errors.check(chk, facts)
    from rules import c11_scope
    c11_scope.check(chk, facts)
    # ... and over entity stores its entity validation accepts: every component of an entity (all ancestors included) is checked
    from rules import C11 as _c11
    _c11.entity_components(chk, facts)
    # the API's validation mode reaches the validator unchanged (strict stays strict)
    facts.load_crate("cedar_policy.lib")
    from rules import shared_namesake
    shared_namesake.check(chk, facts, "C03.NAMESAKE.mode", lambda n: "ValidationMode" in n, 9)
    from rules import c03_disjoint
    c03_disjoint.check(chk, facts)
