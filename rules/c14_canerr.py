"""C14.CANERR — Residual::can_error_assuming_well_formed is inherited from the children.

The TPE evaluator drops a sub-residual (`e || true -> true`, `e && false -> false`, ...) only when
can_error_assuming_well_formed(e) is false. That is sound only if a node reports "cannot error" solely
after every child has been asked: on every path through a ResidualKind arm that does not return the
constant `true`, each Residual-typed child of that variant has been passed to the recursive test
(directly or through Iterator::any), and the value returned is `false` or the last child's answer.
"""
from lib import cfg, shape, hom
from lib.facts import callee
from lib.rulelib import get_fn, short

FN = "cedar_policy_core::tpe::residual::Residual::can_error_assuming_well_formed"
KIND = "cedar_policy_core::tpe::residual::ResidualKind"


def _asks(facts, f, t):
    """Is this call a recursive can-error question (directly, or any() over a collection with it)?"""
    c = callee(t)
    if c == FN:
        return True
    if c.split("::")[-1] == "any":
        for o in t[2]:
            if o[0] == "k" and o[1].get("fn") == FN:
                return True
        for cl in facts.closures_of(f.name):
            if any(callee(t2) == FN for _, t2 in cl.calls()):
                # the closure handed to this any(): it is built in the same block chain; accept if it is an argument's type
                for o in t[2]:
                    if o[0] in ("c", "m") and len(o[1]) == 1 and cl.name.split("::")[-1] in f.locals[o[1][0]]:
                        return True
                    if o[0] in ("c", "m") and len(o[1]) == 1 and "closure" in f.locals[o[1][0]]:
                        return True
    return False


def check(chk, facts):
    rule = "C14.CANERR"
    f = get_fn(chk, facts, rule, FN)
    r = facts.adts.get(KIND)
    if f is None:
        return
    if r is None:
        chk.lost(rule, KIND)
        return
    ev = hom.arm_events(facts, f, "tpe::residual::ResidualKind", lambda c, t: None)
    if ev is None:
        chk.lost(rule, "match on ResidualKind")
        return
    n = 0
    for vi, arm in sorted(ev["arms"].items()):
        v = r["variants"][vi]
        vn = v["name"]
        kids = [x[0] for x in v["fields"] if "tpe::residual::Residual" in x[1]]
        region = arm["region"]
        L = arm["labels"]
        # exits of the arm that do not return the constant true
        exits = set()
        for b in region:
            blk = f.blocks[b]
            for s in blk["st"]:
                if s[0] == "a" and s[1] == [0]:
                    if s[2][0] == "use" and s[2][1][0] == "k" and str(s[2][1][1].get("v")) in ("1", "true", "True"):
                        continue
                    exits.add(b)
            t = blk["t"]
            if t[0] == "call" and t[3] == [0]:
                exits.add(b)
        if not kids:
            n += 1
            chk.ob(rule, vn, True, "%s has no residual children" % vn, where=f.where(), fn=f.name)
            continue
        probs = []
        asked = {}
        for b in sorted(region):
            t = f.blocks[b]["t"]
            if t[0] == "call" and _asks(facts, f, t):
                labs = set()
                for o in t[2]:
                    labs |= L.operand_labels(o)
                for g in kids:
                    if "%s.%s" % (vn, g) in labs:
                        asked.setdefault(g, set()).add(b)
        for g in kids:
            K = asked.get(g, set())
            rest = exits - K
            if not exits:
                continue
            if not K:
                probs.append("child `%s` is never asked although the arm can answer `cannot error`" % g)
            elif not cfg.must_pass(f, arm["target"], rest, K):
                probs.append("a path answers without asking child `%s`" % g)
        n += 1
        chk.ob(rule, vn, not probs,
               "%s: %s" % (vn, "; ".join(probs) if probs else ("always `may error`" if not exits else "every non-`true` answer has asked %s" % kids)),
               where=f.where(), fn=f.name, key="%s:%s:%s" % (rule, vn, ";".join(probs)),
               sample={"variant": vn, "children": kids, "non_true_exits": len(exits), "asked": {g: len(bs) for g, bs in asked.items()}})
    chk.floor(rule, "ResidualKind arms", n, 13)
    # the outer match: Concrete -> false, Error -> true
    RES = facts.adts.get("cedar_policy_core::tpe::residual::Residual")
    sws = [x for x in shape.variant_switches(f, "tpe::residual::Residual")]
    if RES and sws:
        b, scrut, arms, other = sws[0]
        for vi, tgt in arms.items():
            vn = RES["variants"][vi]["name"]
            if vn == "Error":
                vals = {str(s[2][1][1].get("v")) for s in f.blocks[tgt]["st"] if s[0] == "a" and s[1] == [0] and s[2][0] == "use" and s[2][1][0] == "k"}
                chk.ob(rule, "Residual::Error", vals == {"1"}, "an error residual reports `may error`: %s" % (vals == {"1"}), where=f.where(), fn=f.name)
