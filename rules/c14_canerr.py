"""C14.CANERR — Residual::can_error_assuming_well_formed is inherited from the children.

The TPE evaluator drops a sub-residual (`e || true -> true`, `e && false -> false`, ...) only when
can_error_assuming_well_formed(e) is false. That is sound only if a node reports "cannot error" solely
after every child has been asked: on every path through a ResidualKind arm that does not return the
constant `true`, each Residual-typed child of that variant has been passed to the recursive test
(directly or through Iterator::any), and the value returned is `false` or the last child's answer.
"""
from lib import cfg, shape, hom
from lib.facts import callee
from lib.rulelib import get_fn, short

FN = "cedar_policy_core::tpe::residual::Residual::can_error_assuming_well_formed"
KIND = "cedar_policy_core::tpe::residual::ResidualKind"


def _asks(facts, f, t):
    """Is this call a recursive can-error question (directly, or any() over a collection with it)?"""
    c = callee(t)
    if c == FN:
        return True
    if c.split("::")[-1] == "any":
        for o in t[2]:
            if o[0] == "k" and o[1].get("fn") == FN:
                return True
        for cl in facts.closures_of(f.name):
            if any(callee(t2) == FN for _, t2 in cl.calls()):
                # the closure handed to this any(): it is built in the same block chain; accept if it is an argument's type
                for o in t[2]:
                    if o[0] in ("c", "m") and len(o[1]) == 1 and cl.name.split("::")[-1] in f.locals[o[1][0]]:
                        return True
                    if o[0] in ("c", "m") and len(o[1]) == 1 and "closure" in f.locals[o[1][0]]:
                        return True
    return False


def check(chk, facts):
    rule = "C14.CANERR"
    f = get_fn(chk, facts, rule, FN)
    r = facts.adts.get(KIND)
    if f is None:
        return
    if r is None:
        chk.lost(rule, KIND)
        return
    ev = hom.arm_events(facts, f, "tpe::residual::ResidualKind", lambda c, t: None)
    if ev is None:
        chk.lost(rule, "match on ResidualKind")
        return
    n = 0
    for vi, arm in sorted(ev["arms"].items()):
        v = r["variants"][vi]
        vn = v["name"]
        kids = [x[0] for x in v["fields"] if "tpe::residual::Residual" in x[1]]
        region = arm["region"]
        L = arm["labels"]
        # exits of the arm that do not return the constant true
        exits = set()
        for b in region:
            blk = f.blocks[b]
            for s in blk["st"]:
                if s[0] == "a" and s[1] == [0]:
                    if s[2][0] == "use" and s[2][1][0] == "k" and str(s[2][1][1].get("v")) in ("1", "true", "True"):
                        continue
                    exits.add(b)
            t = blk["t"]
            if t[0] == "call" and t[3] == [0]:
                exits.add(b)
        if not kids:
            n += 1
            chk.ob(rule, vn, True, "%s has no residual children" % vn, where=f.where(), fn=f.name)
            continue
        probs = []
        asked = {}
        for b in sorted(region):
            t = f.blocks[b]["t"]
            if t[0] == "call" and _asks(facts, f, t):
                labs = set()
                for o in t[2]:
                    labs |= L.operand_labels(o)
                for g in kids:
                    if "%s.%s" % (vn, g) in labs:
                        asked.setdefault(g, set()).add(b)
        for g in kids:
            K = asked.get(g, set())
            rest = exits - K
            if not exits:
                continue
            if not K:
                probs.append("child `%s` is never asked although the arm can answer `cannot error`" % g)
            elif not cfg.must_pass(f, arm["target"], rest, K):
                probs.append("a path answers without asking child `%s`" % g)
        n += 1
        chk.ob(rule, vn, not probs,
               "%s: %s" % (vn, "; ".join(probs) if probs else ("always `may error`" if not exits else "every non-`true` answer has asked %s" % kids)),
               where=f.where(), fn=f.name, key="%s:%s:%s" % (rule, vn, ";".join(probs)),
               sample={"variant": vn, "children": kids, "non_true_exits": len(exits), "asked": {g: len(bs) for g, bs in asked.items()}})
    chk.floor(rule, "ResidualKind arms", n, 13)
    # the outer match: Concrete -> false, Error -> true
    RES = facts.adts.get("cedar_policy_core::tpe::residual::Residual")
    sws = [x for x in shape.variant_switches(f, "tpe::residual::Residual")]
    if RES and sws:
        b, scrut, arms, other = sws[0]
        for vi, tgt in arms.items():
            vn = RES["variants"][vi]["name"]
            if vn == "Error":
                vals = {str(s[2][1][1].get("v")) for s in f.blocks[tgt]["st"] if s[0] == "a" and s[1] == [0] and s[2][0] == "use" and s[2][1][0] == "k"}
                chk.ob(rule, "Residual::Error", vals == {"1"}, "an error residual reports `may error`: %s" % (vals == {"1"}), where=f.where(), fn=f.name)


def folds_guarded(chk, facts):
    """TPE evaluator: with a partial (not yet known) left operand of && / || / the guard of if, a concrete answer is produced only
    under `!can_error_assuming_well_formed(left)` — otherwise the dropped operand could still error on a completion."""
    from lib import panics
    rule = "C14.GUARD.fold"
    name = "cedar_policy_core::tpe::evaluator::Evaluator::interpret"
    f = get_fn(chk, facts, rule, name)
    r = facts.adts.get(KIND)
    RES = facts.adts.get("cedar_policy_core::tpe::residual::Residual")
    if f is None or r is None or RES is None:
        return
    mk_concrete = None
    for cl in facts.closures_of(name):
        if any(s_[0] == "a" and s_[2][0] == "agg" and s_[2][1][0] == "adt" and s_[2][1][1].endswith("tpe::residual::Residual") and s_[2][1][2] == "Concrete" for _, s_ in cl.stmts()):
            mk_concrete = cl.name
    if mk_concrete is None:
        chk.lost(rule, "the closure building Residual::Concrete (mk_concrete)")
        return
    ev = hom.arm_events(facts, f, "tpe::residual::ResidualKind", lambda c, t: None)
    if ev is None:
        chk.lost(rule, "match on ResidualKind in interpret")
        return
    part_vi = [i for i, v in enumerate(RES["variants"]) if v["name"] == "Partial"][0]
    n = 0
    for vi, arm in sorted(ev["arms"].items()):
        vn = r["variants"][vi]["name"]
        region = arm["region"]
        sws = [sw for sw in shape.variant_switches(f, "tpe::residual::Residual") if sw[0] in region and part_vi in sw[2]]
        first = [sw for sw in sws if all(cfg.dominates(f, sw[0], o[0]) for o in sws)]
        if not first:
            if vn in ("And", "Or"):
                chk.ob(rule, vn, False, "no match on the interpreted left operand in the %s arm" % vn, where=f.where(), fn=f.name)
            continue
        b, scrut, arms, other = first[0]
        preg = cfg.dominated_region(f, arms[part_vi])
        bad = []
        sites = 0
        for bb in sorted(preg):
            t = f.blocks[bb]["t"]
            if t[0] == "call" and callee(t) == mk_concrete and t[3] == [0]:
                sites += 1
                guards = [(panics.cond_desc(f, d), [str(v) for v, _ in taken]) for d, taken in cfg.guard_edges(f, bb) if d in preg]
                if any("can_error_assuming_well_formed" in g and tk == ["0"] for g, tk in guards):
                    continue
                # `principal is T` / `resource is T`: the request's own type decides, whatever the unknown id is
                if vn == "Is" and any(g.startswith("disc:Var<") for g, tk in guards):
                    continue
                bad.append(t[1].get("l"))
        if vn not in ("And", "Or") and not sites:
            continue
        n += 1
        chk.ob(rule, vn, not bad and sites >= 1, "%s with a partial first operand: %d concrete answer(s), each under `!can_error_assuming_well_formed(..)`%s%s" % (vn, sites, " or decided by the request's own principal / resource type" if vn == "Is" else "", "" if not bad else " — except at L%s" % bad),
               where=f.where(bad[0] if bad else None), fn=f.name, key="%s:%s" % (rule, vn))
    chk.floor(rule, "connectives", n, 3)


def closure_computed(chk, facts):
    """Partial entity stores built from user-supplied entities are transitively closed: every constructor hands compute_tc = true to
    from_entities_map unless its input is an already closed concrete store (from_concrete), and from_entities_map honours the flag."""
    rule = "C14.CONST"
    PE = "cedar_policy_core::tpe::entities::PartialEntities::"
    target = PE + "from_entities_map"
    g = get_fn(chk, facts, rule, target)
    if g is None:
        return
    n = 0
    for name in facts.unit_fns("cedar_policy_core.lib"):
        if not name.startswith("cedar_policy_core::tpe::") or "::test" in name:
            continue
        f = facts.fns[name]
        for b, t in f.calls():
            if callee(t) != target:
                continue
            o = t[2][2] if len(t[2]) > 2 else None
            v = o[1].get("v") if o is not None and o[0] == "k" else None
            root = f
            rootname = name.split("::{closure")[0]
            rf = facts.fn(rootname) or f
            closed_input = any(rf.locals[i] == "cedar_policy_core::entities::Entities" for i in range(1, rf.nargs + 1))
            ok = v == 1 or (v == 0 and closed_input)
            n += 1
            chk.ob(rule, short(rootname).split("::")[-1], ok, "%s builds the store with compute_tc = %s%s" % (short(rootname).split("::")[-1], {1: "true", 0: "false"}.get(v, "a non-constant"),
                   " (input is an already closed concrete store)" if (v == 0 and closed_input) else ("" if ok else " although its input is user-supplied partial entities: indirect ancestors are missing")),
                   where=f.where(t[1].get("l")), fn=name, key="%s:%s" % (rule, rootname))
    chk.floor(rule, "constructors of PartialEntities", n, 3)
    # the flag is honoured
    tc = [b for b, t in g.calls() if callee(t).endswith("PartialEntities::compute_tc")]
    guarded = False
    for b in tc:
        for d, taken in cfg.guard_edges(g, b):
            from lib.slice import leaf_producers
            sw = g.blocks[d]["t"]
            if sw[1][0] in ("c", "m") and "param:3" in leaf_producers(g, sw[1]) and [str(v) for v, _ in taken] == ["else"]:
                guarded = True
    chk.ob(rule, "from_entities_map", bool(tc) and guarded, "from_entities_map computes the closure exactly when asked: %s" % (bool(tc) and guarded), where=g.where(), fn=g.name)


def per_policy_typecheck(chk, facts):
    """policy_residual_map: every policy of the set (every link separately — the typed body depends on the link's own slot types) is
    validated and typechecked in the request environment linked with ITS slot environment before its residual is built."""
    from lib import protocol
    rule = "C14.MUSTPASS.typecheck"
    f = get_fn(chk, facts, rule, "cedar_policy_core::tpe::policy_residual_map")
    if f is None:
        return
    # (the entity-type / literal validation depends on the template only, so caching it per template would be sound: not required per link)
    for suffix, what in (("Typechecker::<'a>::typecheck_by_single_request_env", "typechecked"),):
        sites = [(b, t) for b, t in f.calls() if callee(t).endswith(suffix) or callee(t).endswith(suffix.replace("::<'a>", ""))]
        ok = False
        if sites:
            lp = protocol.loop_of(f, sites[0][0])
            if lp:
                head, some = lp
                ok = head not in cfg.reachable(f, some, cut_blocks={b for b, _ in sites})
        chk.ob(rule, suffix.split("::")[-1], ok, "every policy (every link) is %s in its own iteration: %s" % (what, ok), where=f.where(sites[0][1][1].get("l") if sites else None), fn=f.name,
               key="%s:%s" % (rule, suffix.split("::")[-1]))
    # the environment of the typecheck is linked with this policy's slot environment
    L = shape.Labels(f, None, None, call_labels=lambda c, t: ["LINKED"] if c.endswith("::link_slot_env") else (["PENV"] if c.endswith("ast::policy::Policy::env") else None))
    okenv = False
    for b, t in f.calls():
        if callee(t).split("::")[-1] == "typecheck_by_single_request_env":
            labs = set()
            for o in t[2]:
                labs |= L.operand_labels(o)
            okenv = "LINKED" in labs and "PENV" in labs
    chk.ob(rule, "linked-env", okenv, "the typechecker runs in the request environment linked with the policy's own slot environment: %s" % okenv, where=f.where(), fn=f.name)
