"""C14.QUERY / C14.ROLES — structure of the permission queries and of the request conversions behind them.

query_resource / query_principal: the TPE decision selects the answer — definite Deny returns nothing drawn from the
entities; definite Allow returns the entities filtered by the queried role's type only; no decision filters by that type and
then by concrete re-authorization: the request is to_request(candidate id), authorized against the store that was passed in,
under the response's policy_set() (or the policy set itself), and a candidate is kept exactly when the decision is Allow.
query_action: the candidate actions are those applying to the request's principal and resource types (in that order), a
candidate is skipped only when its partial request cannot be built or TPE decides Deny, and what is reported is that TPE
decision. ROLES: wherever a request is (re)built — api PartialRequest::new, the two query requests' new / to_request, the
action query's partial_request — principal, action, resource and context arrive in their own positions.
Decides the plumbing, not the TPE decision itself (C14.TABLE.decision) nor concrete authorization (C01).
"""
from lib import cfg, shape, protocol, panics
from lib.facts import callee
from lib.rulelib import get_fn, short
from lib.accroot import resolve

API = "cedar_policy::api::tpe::"
PS = API + "<impl cedar_policy::api::PolicySet>::"
ROLE_WORDS = ("principal", "action", "resource", "context")


def _role_of(name):
    for w in ROLE_WORDS:
        if w in name:
            return w
    return None


def _closure_calls(facts, name):
    g = facts.fns.get(name)
    return [callee(t) for _, t in g.calls()] if g is not None else []


def _arms(facts, f, dec_block):
    """decision() result -> {'None': target, 'Allow': target, 'Deny': target}"""
    t = f.blocks[dec_block]["t"]
    d = t[3][0]
    adt = facts.adts.get("cedar_policy_core::authorizer::Decision")
    if adt is None:
        return None
    names = [v["name"] for v in adt["variants"]]
    out = {}
    for b, blk in enumerate(f.blocks):
        if blk["cl"]:
            continue
        tt_ = blk["t"]
        if tt_[0] != "sw":
            continue
        desc = panics.cond_desc(f, b)
        if not cfg.dominates(f, dec_block, b):
            continue
        if desc.startswith("disc:Option<") and "decision" in desc and "None" not in out:
            for v, tg in tt_[2]:
                if v == 0:
                    out["None"] = tg
        elif desc.startswith("disc:Decision") or ("Decision" in desc and desc.startswith("disc:")):
            for v, tg in tt_[2]:
                if isinstance(v, int) and v < len(names):
                    out.setdefault(names[v], tg)
    return out if set(out) == {"None", "Allow", "Deny"} else None


def query_entities(chk, facts):
    rule = "C14.QUERY"
    n = 0
    for qname, role in (("query_resource", "resource"), ("query_principal", "principal")):
        f = get_fn(chk, facts, rule, PS + qname)
        if f is None:
            continue
        dec = protocol.calls_matching(f, "tpe::TpeResponse::decision")
        if len(dec) != 1:
            chk.lost(rule, "%s: the decision() call" % qname, "found %d" % len(dec))
            continue
        arms = _arms(facts, f, dec[0][0])
        if arms is None:
            chk.lost(rule, "%s: the three-way match on the TPE decision" % qname)
            continue
        reach = {k: cfg.reachable(f, tg) for k, tg in arms.items()}
        common = reach["None"] & reach["Allow"] & reach["Deny"]
        region = {k: r - common for k, r in reach.items()}
        ent_param = [i for i in range(1, f.nargs + 1) if f.locals[i].endswith("api::Entities")]
        info = {}
        for k, reg in region.items():
            iters = [(b, t) for b, t in f.calls() if b in reg and callee(t).endswith("api::Entities::iter")]
            clos = []
            for b in sorted(reg):
                for s in f.blocks[b]["st"]:
                    if s[0] == "a" and s[2][0] == "agg" and s[2][1][0] == "closure":
                        clos.append((s[2][1][1], s))
            kinds = []
            for cn, s in clos:
                cs = _closure_calls(facts, cn)
                types = {c.split("::")[-1] for c in cs if c.split("::")[-1].endswith("_type") and "PartialRequest" in c}
                # ... or the type was read before the closure and is captured
                for o in s[2][2]:
                    if o[0] in ("c", "m") and len(o[1]) == 1:
                        r = resolve(facts, f, o[1][0])
                        if r[0] == "local" and r[1] == f.name:
                            for kind_, b_, x in panics._def_sites(f).get(r[2], []):
                                if kind_ == "call" and callee(x).split("::")[-1].endswith("_type") and "PartialRequest" in callee(x):
                                    types.add(callee(x).split("::")[-1])
                if any(c.endswith("Authorizer::is_authorized") for c in cs):
                    kinds.append(("auth", cn, s))
                elif types:
                    kinds.append(("type:" + ",".join(sorted(types)), cn, s))
                else:
                    kinds.append(("other", cn, s))
            info[k] = (iters, kinds)
        # Deny: nothing from the store
        iters, kinds = info["Deny"]
        n += 1
        chk.ob(rule, "%s:Deny" % qname, not iters and not kinds, "definite Deny answers with nothing drawn from the entities: %s" % (not iters and not kinds),
               where=f.where(), fn=f.name, key="%s:%s:deny" % (rule, qname))
        # Allow: entities of the role's type, no other filter
        iters, kinds = info["Allow"]
        ok = len(iters) == 1 and [k for k, _, _ in kinds] == ["type:%s_type" % role]
        n += 1
        chk.ob(rule, "%s:Allow" % qname, ok, "definite Allow answers with the store's entities filtered by %s_type only (filters: %s)" % (role, [k for k, _, _ in kinds]),
               where=f.where(), fn=f.name, key="%s:%s:allow" % (rule, qname), sample={"query": qname, "arm": "Allow", "filters": [k for k, _, _ in kinds]})
        # None: type filter + concrete re-authorization
        iters, kinds = info["None"]
        ks = sorted(k for k, _, _ in kinds)
        ok = len(iters) == 1 and ks == ["auth", "type:%s_type" % role]
        n += 1
        chk.ob(rule, "%s:undecided" % qname, ok, "without a TPE decision the candidates are the entities of %s_type that pass concrete re-authorization (filters: %s)" % (role, ks),
               where=f.where(), fn=f.name, key="%s:%s:none" % (rule, qname), sample={"query": qname, "arm": "None", "filters": ks})
        for b, t in [x for k in info for x in info[k][0]]:
            r = resolve(facts, f, t[2][0][1][0]) if t[2][0][0] in ("c", "m") else None
            n += 1
            chk.ob(rule, "%s:candidates@L%s" % (qname, t[1].get("l")), bool(ent_param) and r == ("param", f.name, ent_param[0]),
                   "candidates are drawn from the entities argument: %s" % (r,), where=f.where(t[1].get("l")), fn=f.name, key="%s:%s:candidates" % (rule, qname))
        for kind, cn, s in kinds:
            if kind != "auth":
                continue
            g = facts.fns[cn]
            au = [(b, t) for b, t in g.calls() if callee(t).endswith("Authorizer::is_authorized")]
            tr = [(b, t) for b, t in g.calls() if callee(t).endswith("QueryRequest::to_request")]
            ok_req = ok_ent = ok_pol = ok_cmp = False
            det = []
            if len(au) == 1 and len(tr) == 1:
                L = shape.Labels(g, None, None, call_labels=lambda c, t: ["REQ"] if c.endswith("QueryRequest::to_request") else None)
                ok_req = "REQ" in L.operand_labels(au[0][1][2][1])
                rp = resolve(facts, g, au[0][1][2][2][1][0])
                re_ = resolve(facts, g, au[0][1][2][3][1][0])
                ok_ent = bool(ent_param) and re_ == ("param", f.name, ent_param[0])
                if rp[0] == "param" and rp[1] == f.name and rp[2] == 1:
                    ok_pol = True
                elif rp[0] == "local" and rp[1] == f.name:
                    ds = panics._def_sites(f).get(rp[2], [])
                    ok_pol = len(ds) == 1 and ds[0][0] == "call" and callee(ds[0][2]).endswith("TpeResponse::policy_set")
                det = [rp, re_]
                # kept exactly when the decision is Allow: the closure returns `decision == Allow` (or `!= Deny`) itself
                for b, t in g.calls():
                    last = callee(t).split("::")[-1]
                    if last not in ("eq", "ne"):
                        continue
                    consts = _consts_behind(g, t)
                    good = (last == "eq" and any(c.endswith("Decision::Allow") for c in consts)) or (last == "ne" and any(c.endswith("Decision::Deny") for c in consts))
                    if good and _returned_plain(g, t[3][0]):
                        ok_cmp = True
                if not ok_cmp:
                    ok_cmp = _match_allow(facts, g)
            n += 1
            chk.ob(rule, "%s:reauthorize" % qname, ok_req and ok_ent and ok_pol and ok_cmp,
                   "concrete re-authorization uses to_request(candidate): %s, the entities argument: %s, the response's policy_set() or the policy set: %s, and keeps a candidate exactly when the decision is Allow: %s" % (ok_req, ok_ent, ok_pol, ok_cmp),
                   where=g.where(), fn=g.name, key="%s:%s:reauth" % (rule, qname), sample={"query": qname, "policies/entities": [list(map(str, d)) for d in det]})
        # the TPE run itself: request.0, partial entities from the same store and schema
        tp = [(b, t) for b, t in f.calls() if callee(t).endswith("::tpe") and "PolicySet" in callee(t)]
        fc = [(b, t) for b, t in f.calls() if callee(t).endswith("tpe::PartialEntities::from_concrete")]
        ok = len(tp) == 1 and len(fc) == 1
        if ok:
            Lf = shape.Labels(f, None, None, param_labels={i: ["P%d" % i] for i in range(1, f.nargs + 1)},
                              call_labels=lambda c, t: ["PE"] if c.endswith("tpe::PartialEntities::from_concrete") else None)
            a = tp[0][1][2]
            ok = "P1" in Lf.operand_labels(a[0]) and "P2" in Lf.operand_labels(a[1]) and "PE" in Lf.operand_labels(a[2]) and \
                bool(ent_param) and ("P%d" % ent_param[0]) in Lf.operand_labels(fc[0][1][2][0])
        n += 1
        chk.ob(rule, "%s:tpe-inputs" % qname, ok, "TPE runs on this policy set, the query's partial request and partial entities made from the entities argument: %s" % ok,
               where=f.where(), fn=f.name, key="%s:%s:tpe" % (rule, qname))
    chk.floor(rule, "query obligations", n, 14)


def _match_allow(facts, g):
    """`matches!(resp.decision(), Decision::Allow)`: a switch on the decision's discriminant whose Allow edge alone yields true"""
    adt = facts.adts.get("cedar_policy_core::authorizer::Decision")
    if not adt:
        return False
    names = [v["name"] for v in adt["variants"]]
    for b, blk in enumerate(g.blocks):
        if blk["cl"] or blk["t"][0] != "sw" or not panics.cond_desc(g, b).startswith("disc:Decision"):
            continue
        t = blk["t"]
        targets = {("else" if v == "else" else names[v] if isinstance(v, int) and v < len(names) else str(v)): tg for v, tg in list(t[2]) + [("else", t[3])]}
        def val(tg):
            vals = set()
            for bb in cfg.reachable(g, tg, cut_blocks={b}):
                for s_ in g.blocks[bb]["st"]:
                    if s_[0] == "a" and s_[1] == [0] and s_[2][0] == "use" and s_[2][1][0] == "k" and "v" in s_[2][1][1]:
                        vals.add(s_[2][1][1]["v"])
            return vals
        allow = val(targets["Allow"]) if "Allow" in targets else None
        others = [val(tg) for k, tg in targets.items() if k != "Allow" and tg != targets.get("Allow") and not g.blocks[tg]["t"][0] == "unr"]
        if allow == {1} and others and all(o == {0} for o in others):
            return True
    return False


def _returned_plain(g, local):
    """the local is the closure's return value, possibly through plain moves (never negated)"""
    if local == 0:
        return True
    work, seen = [0], set()
    defs = panics._def_sites(g)
    while work:
        l = work.pop()
        if l in seen:
            continue
        seen.add(l)
        for kind, b, x in defs.get(l, []):
            if kind == "st" and x[2][0] == "use" and x[2][1][0] in ("c", "m") and len(x[2][1][1]) == 1:
                if x[2][1][1][0] == local:
                    return True
                work.append(x[2][1][1][0])
    return False


def _consts_behind(g, t):
    """pretty-printed promoted constants reaching the operands of a call (through one reborrow)"""
    out = []
    defs = panics._def_sites(g)
    for o in t[2]:
        if o[0] == "k" and "pp" in o[1]:
            out.append(o[1]["pp"])
        if o[0] in ("c", "m"):
            l = o[1][0]
            for _ in range(3):
                ds = defs.get(l, [])
                if len(ds) != 1 or ds[0][0] != "st":
                    break
                rv = ds[0][2][2]
                if rv[0] == "use" and rv[1][0] == "k":
                    if "pp" in rv[1][1]:
                        out.append(rv[1][1]["pp"])
                    break
                if rv[0] in ("ref", "addr"):
                    l = rv[1][0]
                elif rv[0] == "use" and rv[1][0] in ("c", "m"):
                    l = rv[1][1][0]
                else:
                    break
    return out


def query_action(chk, facts):
    rule = "C14.QUERY"
    f = get_fn(chk, facts, rule, PS + "query_action")
    if f is None:
        return

    def seed(p):
        if p[0] == 2:
            for e in p[1:]:
                if isinstance(e, list) and e[0] == "f" and e[2] in ROLE_WORDS + ("schema",):
                    return ["request." + e[2]]
        return []
    L = shape.Labels(f, None, seed, call_labels=lambda c, t: (
        ["CAND"] if c.endswith("actions_for_principal_and_resource") else ["PREQ"] if c.endswith("ActionQueryRequest::partial_request") else
        ["DEC"] if c.endswith("TpeResponse::decision") else None))
    cand = protocol.calls_matching(f, "ValidatorSchema::actions_for_principal_and_resource")
    ok = len(cand) == 1
    det = ""
    if ok:
        a = cand[0][1][2]
        l1 = {x for x in L.operand_labels(a[1]) if x.startswith("request.")}
        l2 = {x for x in L.operand_labels(a[2]) if x.startswith("request.")}
        ok = l1 == {"request.principal"} and l2 == {"request.resource"}
        det = "%s / %s" % (sorted(l1), sorted(l2))
    chk.ob(rule, "query_action:candidates", ok, "candidate actions are those applying to (principal type, resource type) of the request, in that order: %s" % det, where=f.where(), fn=f.name)
    push = [(b, t) for b, t in f.calls() if callee(t).endswith("Vec::<T, A>::push")]
    if len(push) != 1:
        chk.lost(rule, "query_action: the push of an authorized action", "found %d" % len(push))
        return
    pb, pt = push[0]
    # what is pushed: (candidate, the TPE decision)
    labs = L.operand_labels(pt[2][1])
    chk.ob(rule, "query_action:reported", {"CAND", "DEC"} <= labs, "each reported pair is (the candidate action, the TPE decision for it): %s" % sorted(x for x in labs if x in ("CAND", "DEC", "PREQ")),
           where=f.where(pt[1].get("l")), fn=f.name)
    tp = [(b, t) for b, t in f.calls() if callee(t).endswith("::tpe") and "PolicySet" in callee(t)]
    ok = len(tp) == 1 and "PREQ" in L.operand_labels(tp[0][1][2][1]) and resolve(facts, f, tp[0][1][2][2][1][0]) == ("param", f.name, 3)
    chk.ob(rule, "query_action:tpe-inputs", ok, "TPE runs on the candidate's partial request and the entities argument: %s" % ok, where=f.where(), fn=f.name)
    # skipped only when the partial request cannot be built or the decision is Deny
    unknown = []
    seen_ne = False
    for d, taken in cfg.guard_edges(f, pb):
        cd = panics.cond_desc(f, d)
        if cd.startswith("disc:Option<") and "next" in cd:
            continue
        if cd.startswith("disc:ControlFlow"):
            continue
        if cd.startswith("disc:Result<") and "partial_request" in cd and [v for v, _ in taken] == [0]:
            continue
        if cd.startswith("call:") and cd.endswith("::ne"):
            nb = [b for b, t in f.calls() if callee(t).endswith("PartialEq::ne") and cfg.dominates(f, b, d)]
            consts = [c for b in nb for c in _consts_behind(f, f.blocks[b]["t"])]
            if any(c.endswith("Some(cedar_policy_core::authorizer::Decision::Deny)") for c in consts) and [v for v, _ in taken] == ["else"]:
                seen_ne = True
                continue
        unknown.append((cd, [v for v, _ in taken]))
    chk.ob(rule, "query_action:skips", seen_ne and not unknown,
           "an action is left out only when its partial request cannot be built or TPE decides Deny (decision != Some(Deny) guards the push: %s; other conditions: %s)" % (seen_ne, unknown or "none"),
           where=f.where(pt[1].get("l")), fn=f.name, key="%s:query_action:skips:%s" % (rule, ";".join(u[0] for u in unknown)))


def roles(chk, facts):
    rule = "C14.ROLES"
    n = 0
    for name in sorted(facts.fns.keys()):
        if not name.startswith(API) or "{closure" in name or "::tpe_tests::" in name:
            continue
        f = facts.fns[name]
        ctor = [(b, t) for b, t in f.calls() if callee(t).endswith(("tpe::request::PartialRequest::new", "api::tpe::PartialRequest::new", "api::Request::new"))]
        if not ctor:
            continue
        pl = {}
        for nm, p in f.r.get("dbg", []):
            if len(p) == 1 and 1 <= p[0] <= f.nargs and nm in ROLE_WORDS:
                pl[p[0]] = ["R:" + nm]

        def seed(p):
            if p[0] == 1:
                for e in p[1:]:
                    if isinstance(e, list) and e[0] == "f" and e[2] in ROLE_WORDS:
                        return ["R:" + e[2]]
            return []

        def cl(c, t):
            last = c.split("::")[-1]
            if c.startswith(("cedar_policy::api::tpe::", "cedar_policy_core::tpe::request::PartialRequest::")):
                r = _role_of(last)
                if r and last not in ("new",):
                    return ["R:" + r]
            return None
        L = shape.Labels(f, None, seed, param_labels=pl, call_labels=cl)
        chk.functions.add(f.name)
        for b, t in ctor:
            for i, w in enumerate(ROLE_WORDS):
                labs = {x[2:] for x in L.operand_labels(t[2][i]) if x.startswith("R:")}
                n += 1
                chk.ob(rule, "%s->%s:%s" % (short(name).split("tpe::")[-1], callee(t).split("::")[-2] + "::new", w), labs == {w},
                       "%s builds a request: argument %d (%s) is made of %s" % (short(name).split("tpe::")[-1], i, w, sorted(labs)),
                       where=f.where(t[1].get("l")), fn=f.name, key="%s:%s:%s" % (rule, short(name), w),
                       sample={"fn": short(name).split("tpe::")[-1], "role": w, "from": sorted(labs)} if w == "resource" else None)
    chk.floor(rule, "role hand-offs at request constructors", n, 24)


def check(chk, facts):
    facts.load_crate("cedar_policy.lib")
    query_entities(chk, facts)
    query_action(chk, facts)
    roles(chk, facts)
