"""C13.SHORTCUT — the typed-unknown short cuts of the evaluator.

When one operand is still a residual the evaluator may answer early only in one situation: `==` between entity-typed operands
whose entity TYPES differ (then the answer is false for every substitution of the declared kind). Decided on the MIR: every definite
answer built in short_circuit_value_and_residual / short_circuit_two_typed_residuals is the literal false, sits in the Eq arm only and
on the `types differ` edge of a comparison of two entity types; short_circuit_residual_and_value swaps the operands only for
operators that are commutative in the language.
"""
from lib import cfg, shape, protocol
from lib.facts import callee
from lib.rulelib import get_fn, short
from rules.c02_ops import own_region

EV = "cedar_policy_core::evaluator::Evaluator::"
BOP = "cedar_policy_core::ast::ops::BinaryOp"
COMMUTATIVE = {"Add": "a + b = b + a (same overflow condition)", "Mul": "a * b = b * a", "Eq": "== is symmetric", "ContainsAny": "intersection is symmetric"}


def check(chk, facts):
    rule = "C13.SHORTCUT"
    r = facts.adts.get(BOP)
    for nm in ("short_circuit_value_and_residual", "short_circuit_two_typed_residuals"):
        f = get_fn(chk, facts, rule, EV + nm)
        if f is None or r is None:
            continue
        somes = [(b, s) for b, s in f.stmts() if s[0] == "a" and s[1] == [0] and s[2][0] == "agg" and s[2][1][0] == "adt" and s[2][1][2] == "Some"]
        sws = sorted(shape.variant_switches(f, "ast::ops::BinaryOp"), key=lambda s_: -len(s_[2]))
        probs = []
        if not sws:
            probs.append("no dispatch on the operator")
        eq_region = set()
        if sws:
            b0, scrut, arms, other = sws[0]
            for vi, tgt in arms.items():
                if r["variants"][vi]["name"] == "Eq":
                    eq_region = cfg.dominated_region(f, tgt)
            extra = sorted(r["variants"][vi]["name"] for vi in arms if r["variants"][vi]["name"] != "Eq")
            if extra:
                probs.append("also answers early for %s" % extra)
        if not somes:
            probs.append("never answers early (sound, but the rule's anchor is gone)")
        for b, s in somes:
            if b not in eq_region:
                probs.append("a definite answer is built outside the Eq arm (L%s)" % s[3])
            # the value: Into::into(const false)
            o = s[2][2][0]
            val = None
            for bb, t in f.calls():
                if o[0] in ("c", "m") and t[3] == o[1] and callee(t).split("::")[-1] in ("into", "from") and t[2] and t[2][0][0] == "k":
                    val = t[2][0][1].get("v")
            if val != 0:
                probs.append("the early answer at L%s is %s, not the literal false" % (s[3], val))
            # under the `types differ` edge of an entity-type comparison
            ok_guard = False
            for d, taken in cfg.guard_edges(f, b):
                sw = f.blocks[d]["t"]
                for bb, t in f.calls():
                    c = callee(t)
                    if t[3] and sw[1][0] in ("c", "m") and t[3] == sw[1][1] and c.split("::")[-1] in ("ne", "eq") and "PartialEq" in c:
                        tys = [f.locals[x[1][0]] if x[0] in ("c", "m") else "" for x in t[2][:2]]
                        if all("EntityType" in ty for ty in tys):
                            want = ["else"] if c.endswith("::ne") else ["0"]
                            if [str(v) for v, _ in taken] == want:
                                ok_guard = True
            if not ok_guard:
                probs.append("the early answer at L%s is not guarded by `the two entity types differ`" % s[3])
        chk.ob(rule, nm, not probs, "%s: %s" % (nm, "; ".join(probs) if probs else "answers early only with false, only for ==, only when the entity types differ"), where=f.where(), fn=f.name,
               key="%s:%s:%s" % (rule, nm, ";".join(p.split(" (L")[0].split(" at L")[0] for p in probs)))
    f = get_fn(chk, facts, rule, EV + "short_circuit_residual_and_value")
    if f is not None and r is not None:
        sws = sorted(shape.variant_switches(f, "ast::ops::BinaryOp"), key=lambda s_: -len(s_[2]))
        swapped = []
        if sws:
            b0, scrut, arms, other = sws[0]
            for vi, tgt in arms.items():
                reg = cfg.reachable(f, tgt, cut_blocks={b0})
                if any(callee(f.blocks[x]["t"]).endswith("short_circuit_value_and_residual") for x in reg if f.blocks[x]["t"][0] == "call"):
                    swapped.append(r["variants"][vi]["name"])
        bad = sorted(set(swapped) - set(COMMUTATIVE))
        chk.ob(rule, "commutative", bool(sws) and not bad, "operands are swapped for %s%s" % (sorted(swapped), (" — %s is not commutative" % bad) if bad else " (all commutative in the language)"), where=f.where(), fn=f.name,
               key="%s:commutative:%s" % (rule, ",".join(bad)))


def residual_guard_kept(chk, facts):
    """eval_if: when the guard is a residual, the answer still contains the guard — every exit of that arm is the rebuilt
    if-then-else (the guard may error or be non-boolean after substitution, so it cannot be dropped even if both branches agree)."""
    from lib.slice import leaf_producers
    rule = "C13.RESIDUAL"
    f = get_fn(chk, facts, rule, EV + "eval_if")
    PV = facts.adts.get("cedar_policy_core::ast::partial_value::PartialValue")
    if f is None or PV is None:
        return
    sws = sorted(shape.variant_switches(f, "ast::partial_value::PartialValue"), key=lambda s_: cfg.dominators(f).get(s_[0], 0) if False else s_[0])
    # the switch on the evaluated guard: the first PartialValue switch from the entry
    idom = cfg.dominators(f)
    first = None
    for sw in sws:
        if all(cfg.dominates(f, sw[0], o[0]) for o in sws):
            first = sw
    if first is None:
        chk.lost(rule, "match on the evaluated guard in eval_if")
        return
    b, scrut, arms, other = first
    res_vi = [i for i, v in enumerate(PV["variants"]) if v["name"] == "Residual"][0]
    if res_vi not in arms:
        chk.lost(rule, "Residual arm of the guard in eval_if")
        return
    region = cfg.dominated_region(f, arms[res_vi])
    oks = protocol.ok_blocks(f) & region
    ites = {bb for bb, t in f.calls() if bb in region and callee(t).split("::")[-1] in ("ite", "ite_arc") and "ast::expr::Expr" in callee(t)}
    ok = bool(oks) and bool(ites) and cfg.must_pass(f, arms[res_vi], oks, ites)
    # and the guard of the rebuilt node is the residual guard itself
    guard_ok = False
    L = shape.Labels(f, None, shape.variant_field_seed("ast::partial_value::PartialValue"))
    for bb, t in f.calls():
        if bb in ites:
            guard_ok = guard_ok or any(x == "Residual.0" for x in L.operand_labels(t[2][0]))
    chk.ob(rule, "eval_if:guard-kept", ok and guard_ok, "with a residual guard every answer of eval_if is the rebuilt if-then-else (%s) whose guard is that residual (%s)" % (ok, guard_ok), where=f.where(), fn=f.name,
           key="%s:eval_if:guard-kept" % rule)


def store_mode_kept(chk, facts):
    """A partial entity store stays partial through add / upsert / remove: every Entities value built by a method of an existing
    store takes its `mode` from that store (only `partial()` sets it). Otherwise absent entities flip from unknown to non-existent."""
    rule = "C13.MODE"
    E = "cedar_policy_core::entities::Entities"
    n = 0
    for name in facts.unit_fns("cedar_policy_core.lib"):
        if not name.startswith(E + "::") or "closure" in name or "::test" in name:
            continue
        f = facts.fns[name]
        if f.nargs < 1 or not (f.locals[1].endswith("entities::Entities") or f.locals[1].endswith("entities::Entities>") or "entities::Entities" in f.locals[1]):
            continue
        if not (f.locals[1] == E or f.locals[1] in ("&" + E, "&mut " + E)):
            continue
        aggs = [(b, s_) for b, s_ in f.stmts() if s_[0] == "a" and s_[2][0] == "agg" and s_[2][1][0] == "adt" and s_[2][1][1] == E]
        for b, s_ in aggs:
            names = s_[2][1][3]
            if "mode" not in names:
                continue
            o = s_[2][2][names.index("mode")]
            from lib.slice import leaf_producers
            src = leaf_producers(f, o)
            from_self = any(x.startswith("place:") and x.endswith("mode") for x in src) and "param:1" in src
            setter = name.endswith("::partial")
            n += 1
            chk.ob(rule, short(name).split("::")[-1], from_self or setter, "%s builds a store whose mode is %s" % (short(name).split("::")[-1], "the mode of the store it was called on" if from_self else
                   ("set by the designated setter" if setter else "NOT taken from the store it was called on (%s): a partial store silently becomes concrete" % sorted(src))),
                   where=f.where(s_[3]), fn=name, key="%s:%s" % (rule, name))
    chk.ob(rule, "scan", True, "%d store-rebuilding sites in methods of Entities examined" % n)


ALLOWED_EARLY = ("is_projectable", "short_circuit_value_and_residual", "short_circuit_residual_and_value", "short_circuit_two_typed_residuals")


def residual_sticky(chk, facts):
    """In partial_interpret_internal, once the first-evaluated operand of a node is a residual, the node's answer is a rebuilt residual
    node: a concrete answer there is allowed only through the audited short cuts (typed-unknown comparison, projectable records,
    the entity-type annotation of an unknown for `is`)."""
    from lib import hom, panics
    rule = "C13.RESIDUAL"
    f = get_fn(chk, facts, rule, EV + "partial_interpret_internal")
    EK = facts.adts.get("cedar_policy_core::ast::expr::ExprKind")
    PV = facts.adts.get("cedar_policy_core::ast::partial_value::PartialValue")
    if f is None or EK is None or PV is None:
        return
    from rules.residual_hom import ctor, SKIP
    ev = hom.arm_events(facts, f, "ast::expr::ExprKind", ctor)
    if ev is None:
        return
    res_vi = [i for i, v in enumerate(PV["variants"]) if v["name"] == "Residual"][0]
    oks_all = protocol.ok_blocks(f)
    n = 0
    for vi, arm in sorted(ev["arms"].items()):
        vn = EK["variants"][vi]["name"]
        if vn not in ("And", "Or", "UnaryApp", "Like", "Is", "HasAttr"):
            continue
        region = arm["region"]
        sws = [sw for sw in shape.variant_switches(f, "ast::partial_value::PartialValue") if sw[0] in region and res_vi in sw[2]]
        if not sws:
            continue
        first = [sw for sw in sws if all(cfg.dominates(f, sw[0], o[0]) for o in sws)]
        if not first:
            continue
        b, scrut, arms, other = first[0]
        rreg = cfg.dominated_region(f, arms[res_vi])
        ctors = {bb for bb in rreg if f.blocks[bb]["t"][0] == "call" and ctor(callee(f.blocks[bb]["t"]), None) and ctor(callee(f.blocks[bb]["t"]), None)[2:] not in SKIP}
        bad = []
        for ob in sorted(oks_all & rreg):
            if cfg.must_pass(f, arms[res_vi], {ob}, ctors):
                continue
            guards = [panics.cond_desc(f, d) for d, taken in cfg.guard_edges(f, ob) if d in rreg]
            if any(any(a in g for a in ALLOWED_EARLY) for g in guards):
                continue
            # `unknown(.., type T) is T'` is decided by the annotation: the residual is an Unknown node with an entity-type annotation
            if vn == "Is" and any(g.startswith("disc:Type<") for g in guards) and any(g.startswith("disc:ExprKind<") for g in guards):
                continue
            bad.append((f.blocks[ob]["st"][-1][3] if f.blocks[ob]["st"] else None, guards[:3]))
        n += 1
        chk.ob(rule, "sticky:%s" % vn, not bad, "%s: with a residual first operand every answer is a rebuilt residual node%s" % (vn, "" if not bad else " — except at %s (a concrete answer drops the residual, which may still error after substitution)" % bad),
               where=f.where(bad[0][0] if bad else None), fn=f.name, key="%s:sticky:%s" % (rule, vn))
    chk.floor(rule, "arms with a residual first operand", n, 6)
