"""C13.SHORTCUT — the typed-unknown short cuts of the evaluator.

When one operand is still a residual the evaluator may answer early only in one situation: `==` between entity-typed operands
whose entity TYPES differ (then the answer is false for every substitution of the declared kind). Decided on the MIR: every definite
answer built in short_circuit_value_and_residual / short_circuit_two_typed_residuals is the literal false, sits in the Eq arm only and
on the `types differ` edge of a comparison of two entity types; short_circuit_residual_and_value swaps the operands only for
operators that are commutative in the language.
"""
from lib import cfg, shape, protocol
from lib.facts import callee
from lib.rulelib import get_fn, short
from rules.c02_ops import own_region

EV = "cedar_policy_core::evaluator::Evaluator::"
BOP = "cedar_policy_core::ast::ops::BinaryOp"
COMMUTATIVE = {"Add": "a + b = b + a (same overflow condition)", "Mul": "a * b = b * a", "Eq": "== is symmetric", "ContainsAny": "intersection is symmetric"}


def check(chk, facts):
    rule = "C13.SHORTCUT"
    r = facts.adts.get(BOP)
    for nm in ("short_circuit_value_and_residual", "short_circuit_two_typed_residuals"):
        f = get_fn(chk, facts, rule, EV + nm)
        if f is None or r is None:
            continue
        somes = [(b, s) for b, s in f.stmts() if s[0] == "a" and s[1] == [0] and s[2][0] == "agg" and s[2][1][0] == "adt" and s[2][1][2] == "Some"]
        sws = sorted(shape.variant_switches(f, "ast::ops::BinaryOp"), key=lambda s_: -len(s_[2]))
        probs = []
        if not sws:
            probs.append("no dispatch on the operator")
        eq_region = set()
        if sws:
            b0, scrut, arms, other = sws[0]
            for vi, tgt in arms.items():
                if r["variants"][vi]["name"] == "Eq":
                    eq_region = cfg.dominated_region(f, tgt)
            extra = sorted(r["variants"][vi]["name"] for vi in arms if r["variants"][vi]["name"] != "Eq")
            if extra:
                probs.append("also answers early for %s" % extra)
        if not somes:
            probs.append("never answers early (sound, but the rule's anchor is gone)")
        for b, s in somes:
            if b not in eq_region:
                probs.append("a definite answer is built outside the Eq arm (L%s)" % s[3])
            # the value: Into::into(const false)
            o = s[2][2][0]
            val = None
            for bb, t in f.calls():
                if o[0] in ("c", "m") and t[3] == o[1] and callee(t).split("::")[-1] in ("into", "from") and t[2] and t[2][0][0] == "k":
                    val = t[2][0][1].get("v")
            if val != 0:
                probs.append("the early answer at L%s is %s, not the literal false" % (s[3], val))
            # under the `types differ` edge of an entity-type comparison
            ok_guard = False
            for d, taken in cfg.guard_edges(f, b):
                sw = f.blocks[d]["t"]
                for bb, t in f.calls():
                    c = callee(t)
                    if t[3] and sw[1][0] in ("c", "m") and t[3] == sw[1][1] and c.split("::")[-1] in ("ne", "eq") and "PartialEq" in c:
                        tys = [f.locals[x[1][0]] if x[0] in ("c", "m") else "" for x in t[2][:2]]
                        if all("EntityType" in ty for ty in tys):
                            want = ["else"] if c.endswith("::ne") else ["0"]
                            if [str(v) for v, _ in taken] == want:
                                ok_guard = True
            if not ok_guard:
                probs.append("the early answer at L%s is not guarded by `the two entity types differ`" % s[3])
        chk.ob(rule, nm, not probs, "%s: %s" % (nm, "; ".join(probs) if probs else "answers early only with false, only for ==, only when the entity types differ"), where=f.where(), fn=f.name,
               key="%s:%s:%s" % (rule, nm, ";".join(p.split(" (L")[0].split(" at L")[0] for p in probs)))
    f = get_fn(chk, facts, rule, EV + "short_circuit_residual_and_value")
    if f is not None and r is not None:
        sws = sorted(shape.variant_switches(f, "ast::ops::BinaryOp"), key=lambda s_: -len(s_[2]))
        swapped = []
        if sws:
            b0, scrut, arms, other = sws[0]
            for vi, tgt in arms.items():
                reg = cfg.reachable(f, tgt, cut_blocks={b0})
                if any(callee(f.blocks[x]["t"]).endswith("short_circuit_value_and_residual") for x in reg if f.blocks[x]["t"][0] == "call"):
                    swapped.append(r["variants"][vi]["name"])
        bad = sorted(set(swapped) - set(COMMUTATIVE))
        chk.ob(rule, "commutative", bool(sws) and not bad, "operands are swapped for %s%s" % (sorted(swapped), (" — %s is not commutative" % bad) if bad else " (all commutative in the language)"), where=f.where(), fn=f.name,
               key="%s:commutative:%s" % (rule, ",".join(bad)))
