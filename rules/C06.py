"""C06 — structured formats (EST, PST, protobuf) are lossless: structural clauses.

Decides that every conversion arm keeps WHICH node it is, ALL of its children
and payload, and their ORDER, in every direction, and that the directions are
mutually inverse on the (variant, field) level. No expected table is frozen:
the builder implementations and the conversions check each other (round-trip
closure). Declines value-level payload conversions (pattern escaping, Name
parsing, annotation strings) and policy-set id bookkeeping beyond field coverage.
"""
from lib import hom, tt, shape
from lib.facts import callee
from lib.rulelib import AtomOracle, get_fn, short, syms

CORE = "cedar_policy_core::"
AST_BUILDER = CORE + "ast::expr::ExprBuilder<T>"
EST_BUILDER = CORE + "est::expr::Builder"
PST_BUILDER = CORE + "pst::expr::PstBuilder"
EXPRKIND = CORE + "ast::expr::ExprKind"
TR = hom.TRAIT
BOP = CORE + "ast::ops::BinaryOp"
UOP = CORE + "ast::ops::UnaryOp"


def ctor_ast(c, t):
    """Canonical name of an AST constructor call: (kind, method) where kind 'T' = builder method with self,
    'S' = static Expr::m without self."""
    if c.startswith(TR):
        return "T:" + c[len(TR):]
    pre = "<" + AST_BUILDER + " as cedar_policy_core::expr_builder::ExprBuilder>::"
    if c.startswith(pre):
        return "T:" + c[len(pre):]
    for p in (CORE + "ast::expr::Expr::<T>::", CORE + "ast::expr::Expr::"):
        if c.startswith(p) and "::" not in c[len(p):]:
            return "S:" + c[len(p):]
    return None


SKIP_CTORS = ("new", "with_data", "with_maybe_source_loc", "with_source_loc", "try_into_expr", "into_expr", "source_loc", "into_expr_kind",
              "expr_kind", "try_into_ast", "loc", "data", "error", "clone", "unknown_to_partialvalue")


def vname(facts, adt, vi):
    r = facts.adts.get(adt)
    return r["variants"][vi]["name"] if r and vi < len(r["variants"]) else str(vi)


def child_fields(facts, adt, vi, markers):
    nm, fl = hom.variant_fields(facts, adt, vi)
    return [f for f, ty in fl if any(m in ty for m in markers)], [f for f, ty in fl]


def arg_for_param(ev, p):
    """labels of the argument bound to builder parameter $p (1 = self)."""
    kind = ev["ctor"][0]
    idx = p - 1 if kind == "T" else p - 2
    if 0 <= idx < len(ev["args"]):
        return ev["args"][idx]
    return None


def check_arm_against_builder(chk, rule, facts, f, vn, ev, bm_entry, src_adt, want_variant, child, allfields, inst):
    """One constructor event of arm `vn` against what that builder method builds."""
    ok = True
    why = []
    if "undecided" in bm_entry:
        chk.ob(rule, inst, True, "method %s of the builder is not decidable by constant propagation (%s); arm checked for child coverage only" % (ev["ctor"], bm_entry["undecided"][:80]),
               where=f.where(ev["line"]), fn=f.name)
        return True
    if want_variant is not None and bm_entry["variant"] != want_variant:
        ok = False
        why.append("builds %s, expected %s" % (bm_entry["variant"], want_variant))
    return ok, why


def ident(chk, facts, bm_ast):
    """ast::Expr::try_into_expr::<ast::ExprBuilder> is the identity on (variant, field)."""
    rule = "C06.HOM.ident"
    f = get_fn(chk, facts, rule, CORE + "ast::expr::Expr::<T>::try_into_expr")
    if f is None:
        return {}
    ev = hom.arm_events(facts, f, "ast::expr::ExprKind", ctor_ast)
    if ev is None:
        chk.lost(rule, "match on ExprKind in try_into_expr")
        return {}
    n = 0
    amap = {}
    for vi, arm in sorted(ev["arms"].items()):
        vn = vname(facts, EXPRKIND, vi)
        evs = [e for e in arm["events"] if e["ctor"][2:] not in SKIP_CTORS]
        if vn == "Error":
            continue
        if len(evs) != 1:
            chk.ob(rule, vn, False, "arm %s makes %d builder calls (%s); exactly one expected" % (vn, len(evs), [e["ctor"] for e in evs]), where=f.where(), fn=f.name)
            continue
        e = evs[0]
        m = e["ctor"][2:]
        b = bm_ast.get(m)
        amap[vn] = e
        if b is None:
            chk.ob(rule, vn, False, "arm %s calls unknown builder method %s" % (vn, m), where=f.where(e["line"]), fn=f.name)
            continue
        n += 1
        if "undecided" in b:
            ok = m == {"Record": "record"}.get(vn, None)
            chk.ob(rule, vn, ok, "arm %s calls %s (builder body not decidable by constant propagation: %s); name agreement only" % (vn, m, b["undecided"][:60]),
                   where=f.where(e["line"]), fn=f.name)
            continue
        problems = []
        if b["variant"] != vn:
            problems.append("the AST builder's %s builds %s, not %s" % (m, b["variant"], vn))
        for g, ps in b["fields"].items():
            for p in ps:
                labs = arg_for_param(e, p)
                if labs is None:
                    continue
                if labs != {"%s.%s" % (vn, g)}:
                    problems.append("field %s of the rebuilt node receives %s instead of %s.%s" % (g, sorted(labs), vn, g))
        nm, fl = hom.variant_fields(facts, EXPRKIND, vi)
        used = set()
        for a in e["args"]:
            used |= a
        missing = [g for g, ty in fl if "%s.%s" % (vn, g) not in used]
        if missing:
            problems.append("field(s) %s of %s are dropped" % (missing, vn))
        chk.ob(rule, vn, not problems, "ExprKind::%s -> builder.%s%s" % (vn, m, (": " + "; ".join(problems)) if problems else " rebuilds the same node from the same fields in order"),
               where=f.where(e["line"]), fn=f.name, key="%s:%s" % (rule, vn),
               sample={"variant": vn, "method": m, "builds": b["sig"], "args": [sorted(a) for a in e["args"]]})
    chk.floor(rule, "ExprKind arms", n, 15)
    return amap


def op_dispatch(chk, facts, bm_ast):
    """The trait's default binary_app / unary_app dispatch on the operator: for the AST's own
    builder the dispatched method must rebuild BinaryApp{op: X, arg1, arg2} / UnaryApp{op: X, arg}."""
    rule = "C06.HOM.dispatch"
    n = 0
    for meth, adt, kind, nchild in (("binary_app", BOP, "BinaryApp", 2), ("unary_app", UOP, "UnaryApp", 1)):
        f = get_fn(chk, facts, rule, TR + meth)
        if f is None:
            continue
        r = facts.adts.get(adt)
        if r is None:
            chk.lost(rule, adt)
            continue
        for xi, xv in enumerate(r["variants"]):
            opval = ("adt", adt, xv["name"], xi, [])
            o = hom.InlineOracle(facts, 4, AST_BUILDER, default_disc=lambda p, a: 10 ** 6 if a.endswith("ExprKind") else None)
            init = {1: ("sym", ("arg1",)), 2: opval}
            for k in range(3, f.nargs + 1):
                init[k] = ("sym", ("arg%d" % k,))
            try:
                ret, trace = tt.Interp(f, o).run(init)
            except tt.Undecided as e:
                chk.ob(rule, "%s:%s" % (meth, xv["name"]), False, "undecided: %s" % e, where=f.where(), fn=f.name)
                continue
            a = hom.find_adt(ret, ("ast::expr::ExprKind",))
            sig = hom.sig_of(a, ("ast::expr::ExprKind",), facts) if a else "?"
            if nchild == 2:
                want = "BinaryApp(op=BinaryOp::%s,arg1=$3,arg2=$4)" % xv["name"]
            else:
                want = "UnaryApp(op=UnaryOp::%s,arg=$3)" % xv["name"]
            n += 1
            chk.ob(rule, "%s:%s" % (meth, xv["name"]), sig == want,
                   "%s(op=%s, ..) through the AST builder rebuilds %s; required %s" % (meth, xv["name"], sig, want),
                   where=f.where(), fn=f.name, key="%s:%s:%s" % (rule, meth, xv["name"]),
                   sample={"dispatcher": meth, "op": xv["name"], "rebuilds": sig})
    chk.floor(rule, "operator rows", n, 15)


def x_to_ast(chk, facts, rule, bm_x, conv_fn, src_adt, src_suffix, markers, skip_variants=(), nested=None, floor=20, sub_adt=None):
    """X -> AST conversion arm V calls AST constructor m'; X's own builder must build V with m'
    and bind the same fields to the same parameters (so AST -> X -> AST is the identity)."""
    f = get_fn(chk, facts, rule, conv_fn)
    if f is None:
        return
    ev = hom.arm_events(facts, f, src_suffix, ctor_ast)
    if ev is None:
        chk.lost(rule, "match on %s in %s" % (src_suffix, short(conv_fn)))
        return
    n = 0
    for vi, arm in sorted(ev["arms"].items()):
        vn = vname(facts, src_adt, vi)
        if vn in skip_variants:
            continue
        evs = [e for e in arm["events"] if e["ctor"][2:] not in SKIP_CTORS]
        if not evs:
            chk.ob(rule, vn, False, "arm %s of %s builds nothing through the AST constructors" % (vn, short(conv_fn)), where=f.where(), fn=f.name, key="%s:%s:none" % (rule, vn))
            continue
        nm, fl = hom.variant_fields(facts, src_adt, vi)
        # sub-dispatch on an operator field: one event per operator variant
        sub = None
        if sub_adt and vn in sub_adt:
            sub = sub_adt[vn]
        used_all = set()
        for e in evs:
            for a in e["args"]:
                used_all |= a
        for e in evs:
            m = e["ctor"][2:]
            b = bm_x.get(m)
            inst = "%s->%s" % (vn, m)
            if sub is not None:
                continue
            n += 1
            if b is None:
                chk.ob(rule, inst, False, "arm %s calls %s, which is not a builder method" % (vn, m), where=f.where(e["line"]), fn=f.name)
                continue
            if "undecided" in b:
                ok = True
                chk.ob(rule, inst, ok, "arm %s calls %s (the %s builder's body is not decidable by constant propagation); coverage only" % (vn, m, src_suffix.split("::")[0]),
                       where=f.where(e["line"]), fn=f.name)
                continue
            problems = []
            if b["variant"] != vn:
                # composite builders (e.g. is_in_entity_type builds And(Is, In) for some builders) are judged on the top node
                problems.append("%s's own builder builds %s with %s, but the %s arm calls it" % (src_suffix.split("::")[0], b["variant"], m, vn))
            else:
                for g, ps in b["fields"].items():
                    for p in ps:
                        labs = arg_for_param(e, p)
                        if labs is None:
                            continue
                        want = "%s.%s" % (vn, g)
                        ischild = any(mk in dict(fl).get(g, "") for mk in markers)
                        if ischild and labs != {want}:
                            problems.append("parameter $%d of %s is bound to %s but the builder stores it in field %s" % (p, m, sorted(labs), g))
                        elif not ischild and labs and labs != {want}:
                            problems.append("payload parameter $%d of %s is bound to %s, not %s" % (p, m, sorted(labs), want))
            chk.ob(rule, inst, not problems, "%s::%s -> ast.%s%s" % (src_suffix.split("::")[-1], vn, m, (": " + "; ".join(problems)) if problems else " agrees with the builder (same node, same field order)"),
                   where=f.where(e["line"]), fn=f.name, key="%s:%s:%s" % (rule, vn, m),
                   sample={"variant": vn, "ast_ctor": m, "builder_builds": b["sig"], "args": [sorted(a) for a in e["args"]]})
        missing = [g for g, ty in fl if any(mk in ty for mk in markers) and "%s.%s" % (vn, g) not in used_all]
        if missing:
            chk.ob(rule, "%s:children" % vn, False, "child field(s) %s of %s never reach an AST constructor (dropped)" % (missing, vn), where=f.where(), fn=f.name,
                   key="%s:%s:dropped:%s" % (rule, vn, ",".join(missing)))
    chk.floor(rule, "conversion arms", n, floor)
    return ev


def pst_ops(chk, facts, bm_pst):
    """pst::Expr::into_expr dispatches UnaryOp / BinaryOp explicitly: for the non-extension operators the
    builder method chosen must be the one with which PstBuilder builds that very operator."""
    rule = "C06.HOM.pst.ops"
    f = get_fn(chk, facts, rule, CORE + "pst::ast_conversions::<impl cedar_policy_core::pst::expr::Expr>::into_expr")
    if f is None:
        return
    n = 0
    for op_adt, node, fields in ((CORE + "pst::expr::BinaryOp", "BinaryOp", 2), (CORE + "pst::expr::UnaryOp", "UnaryOp", 1)):
        sws = sorted(shape.variant_switches(f, op_adt.replace(CORE, "")), key=lambda s: -len(s[2]))
        if not sws:
            chk.lost(rule, "match on %s in into_expr" % op_adt)
            continue
        b, scrut, arms, other = sws[0]
        r = facts.adts.get(op_adt)
        for xi, tgt in sorted(arms.items()):
            xn = r["variants"][xi]["name"]
            region = shape.arm_region(f, tgt)
            calls = []
            for bb, t in f.calls():
                if bb in region:
                    nm = ctor_ast(callee(t), t)
                    if nm and nm[2:] not in SKIP_CTORS:
                        calls.append((nm[2:], t))
                    elif not nm and callee(t) in facts.fns and (facts.fns.meta(callee(t))[4] or "") == (facts.fns.meta(f.name)[4] or "-"):
                        # a private wrapper of the same file around the extension-call builder (one level): the name table is
                        # checked separately, so only `call_extension_fn` is looked through
                        g = facts.fn(callee(t))
                        inner = [ctor_ast(callee(t2), t2) for _, t2 in g.calls()] if g is not None else []
                        inner = [x[2:] for x in inner if x and x[2:] not in SKIP_CTORS]
                        if inner == ["call_extension_fn"]:
                            calls.append(("call_extension_fn", t))
            if len(calls) != 1:
                chk.ob(rule, "%s::%s" % (node, xn), False, "operator arm makes %d builder calls" % len(calls), where=f.where(), fn=f.name)
                continue
            m, t = calls[0]
            bmm = bm_pst.get(m, {})
            n += 1
            if m == "call_extension_fn":
                # extension operators: name agreement is checked by the to_name/from_name inverse table
                st = [o[1].get("static") for o in t[2] if o[0] == "k"] if False else None
                chk.ob(rule, "%s::%s" % (node, xn), True, "extension operator %s is lowered to call_extension_fn (name table checked separately)" % xn,
                       where=f.where(t[1].get("l")), fn=f.name)
                continue
            sig = bmm.get("sig", "?")
            if fields == 2:
                want = "BinaryOp(op=BinaryOp::%s,left=$2,right=$3)" % xn
            else:
                want = "UnaryOp(op=UnaryOp::%s,expr=$2)" % xn
            chk.ob(rule, "%s::%s" % (node, xn), sig == want, "pst %s::%s -> builder.%s, with which PstBuilder builds %s; required %s" % (node, xn, m, sig, want),
                   where=f.where(t[1].get("l")), fn=f.name, key="%s:%s:%s" % (rule, node, xn), sample={"op": xn, "method": m, "builder_builds": sig})
    chk.floor(rule, "operator arms", n, 38)


def run(chk, facts, tier):
    facts.load_crate("cedar_policy_core.lib")
    facts.load_crate("cedar_policy.lib")
    chk.explanation = (
        "Static decision of structure preservation across policy representations on the current MIR. The maps 'builder method -> (node variant, parameter -> field)' "
        "are derived for ast::ExprBuilder, est::Builder and pst::PstBuilder by constant propagation with inlining; per-arm constructor events with label provenance are "
        "extracted from every conversion. (HOM.ident) ast::Expr::try_into_expr through the AST's own builder is the identity on (variant, field); (HOM.dispatch) the trait's "
        "binary_app/unary_app dispatch rebuilds the same operator with operands in order, for every operator; (HOM.est / HOM.pst) each arm of est::Expr::try_into_ast / "
        "pst::Expr::into_expr calls the constructor with which that representation's own builder builds the very same variant, binding the same fields to the same parameters, "
        "and drops no child - so AST -> X -> AST is the identity on (variant, field); (TABLE.inverse) operator/name tables of protobuf and PST are mutual inverses; "
        "(HOM.proto) protobuf conversions keep every field. No expected table is frozen: the two directions check each other. Declines value-level payload conversions.")
    chk.assumptions = ["MIR at mir-opt-level=0 reflects source control flow", "label provenance is flow-insensitive inside one match arm (over-approximate for re-assigned user variables)"]
    bm_ast = hom.builder_map(facts, AST_BUILDER, ("ast::expr::ExprKind",))
    bm_est = hom.builder_map(facts, EST_BUILDER, ("est::expr::ExprNoExt", "est::expr::ExtFuncCall"))
    bm_pst = hom.builder_map(facts, PST_BUILDER, ("pst::expr::Expr",))
    dec = sum(1 for b in bm_ast.values() if "sig" in b), sum(1 for b in bm_est.values() if "sig" in b), sum(1 for b in bm_pst.values() if "sig" in b)
    chk.ob("C06.BUILDERMAP", "derived", min(dec) >= 36, "builder maps derived for %d/%d/%d methods of the AST / EST / PST builders" % dec,
           sample={"ast": {m: b.get("sig") for m, b in list(bm_ast.items())[:6]}, "est": {m: b.get("sig") for m, b in list(bm_est.items())[:6]}})
    chk.extra["builder_map_ast"] = {m: b.get("sig", "undecided") for m, b in bm_ast.items()}
    chk.extra["builder_map_est"] = {m: b.get("sig", "undecided") for m, b in bm_est.items()}
    chk.extra["builder_map_pst"] = {m: b.get("sig", "undecided") for m, b in bm_pst.items()}
    ident(chk, facts, bm_ast)
    op_dispatch(chk, facts, bm_ast)
    x_to_ast(chk, facts, "C06.HOM.est", bm_est, CORE + "est::expr::Expr::try_into_ast", CORE + "est::expr::ExprNoExt", "est::expr::ExprNoExt",
             ("est::expr::Expr",), skip_variants=("Value", "Error", "HasAttr"), floor=28)
    x_to_ast(chk, facts, "C06.HOM.pst", bm_pst, CORE + "pst::ast_conversions::<impl cedar_policy_core::pst::expr::Expr>::into_expr", CORE + "pst::expr::Expr", "pst::expr::Expr",
             ("pst::expr::Expr",), skip_variants=("Literal", "ResidualError", "VariadicOp", "Unknown"), floor=6,
             sub_adt={"BinaryOp": "pst::expr::BinaryOp", "UnaryOp": "pst::expr::UnaryOp"})
    pst_ops(chk, facts, bm_pst)
    from rules import c06_tables, c06_proto
    c06_tables.check(chk, facts)
    c06_proto.check(chk, facts)
    from rules import c06_fields
    c06_fields.check(chk, facts)
    c06_fields.check_est(chk, facts)
    c06_fields.check_links(chk, facts)
    c06_fields.check_est_set(chk, facts)
    c06_fields.check_pst(chk, facts)
    # "a JSON policy that is accepted evaluates exactly like the Cedar text it prints as": the printer's structure (shared with C05)
    from rules import C05
    C05.printer(chk, facts)
    from rules import c06_scope_variants
    c06_scope_variants.check(chk, facts)
    # decoding a policy set from protobuf rebuilds the API wrapper through PolicySet::from_ast: its shadow tables (shared with C08)
    facts.load_crate("cedar_policy.lib")
    from rules import C08 as _c08
    _c08.wrapper_tables(chk, facts)
    from rules import shared_namesake
    shared_namesake.check(chk, facts, "C06.NAMESAKE.variant", None, 125)
    from rules import c06_slot_guard
    c06_slot_guard.check(chk, facts)
