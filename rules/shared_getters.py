"""GETTER — accessors named after a field are not cross-wired.

A method of a struct that carries the name of one of the struct's fields and reads fields of `self` reads *that* field;
reading instead the field a sibling accessor of the same return type is named after (and reads) is a copy-paste
cross-wiring (e.g. true_forbids() returning self.true_permits). No table is frozen: the rule only compares siblings.
"""
import re

from lib import shape
from lib.rulelib import short


def _norm_ty(t):
    return re.sub(r"\{closure@[^}]*\}", "{closure}", t)


def _reads(f):
    read = set()
    for b, blk in enumerate(f.blocks):
        if blk["cl"]:
            continue
        for s in blk["st"]:
            if s[0] == "a":
                for p in shape._rv_places(s[2]):
                    if p[0] == 1:
                        for e in p[1:]:
                            if isinstance(e, list) and e[0] == "f":
                                read.add(e[2])
                                break
    return read


def check(chk, facts, rule, prefixes, floor):
    groups = {}
    for name in facts.fns.keys():
        if not name.startswith(tuple(prefixes)) or "{closure" in name or name.startswith("<") or "::test" in name:
            continue
        f = facts.fns[name]
        if f.nargs < 1:
            continue
        m = re.match(r"^&(?:mut )?(?:'[a-z_]+ )?([A-Za-z_0-9:]+)", f.locals[1])
        if not m:
            continue
        adt = facts.adts.get(m.group(1))
        if not adt or adt.get("akind") != "struct":
            continue
        fields = [fl[0] for fl in adt["variants"][0]["fields"]]
        own = name.split("::")[-1]
        if own not in fields:
            continue
        groups.setdefault(m.group(1), {})[own] = (f, _reads(f) & set(fields))
    n = 0
    for ty, gs in sorted(groups.items()):
        pure = {own for own, (f, rd) in gs.items() if own in rd}
        for own, (f, rd) in sorted(gs.items()):
            if own in rd:
                n += 1
                chk.functions.add(f.name)
                continue
            for other in sorted(rd & pure):
                g = gs[other][0]
                if _norm_ty(g.locals[0]) == _norm_ty(f.locals[0]):
                    chk.ob(rule, "%s::%s" % (ty.split("::")[-1], own), False,
                           "%s::%s() does not read its field `%s` but `%s`, the field its sibling accessor %s() (same return type) returns" % (ty.split("::")[-1], own, own, other, other),
                           where=f.where(), fn=f.name, key="%s:%s:%s" % (rule, ty, own))
    chk.ob(rule, "accessors", True, "%d field-named accessors read the field they are named after; none reads a same-typed sibling's field instead" % n, key=rule + ":ok", sample={"accessors": n})
    chk.floor(rule, "field-named accessors", n, floor)
