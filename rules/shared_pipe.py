"""PIPE — functions that must consider every policy (entity, ...) of their input contain no dropping iterator step.

For each listed function (and its closures) no filter / take / skip / dedup / find / ... adaptor occurs at all; the `for`
loop's own desugared next() is not an adaptor. A legitimate new selection step needs review, which is the point: whatever it
leaves out is not authorized / validated / serialised.
"""
from lib import pipeline
from lib.rulelib import short


def check(chk, facts, rule, names, what):
    n = 0
    for name in names:
        f = facts.fns.get(name)
        if f is None:
            if not chk.secondary:
                chk.lost(rule, name)
            continue
        chk.functions.add(f.name)
        drops, _ = pipeline.audit(f, facts.closures_of(f.name))
        n += 1
        chk.ob(rule, short(name).split("::")[-2] + "::" + short(name).split("::")[-1], not drops,
               "%s considers %s: dropping iterator steps %s" % (short(name).split("::")[-1], what, [d for d, _ in drops] or "none"),
               where=f.where(drops[0][1] if drops else None), fn=f.name, key="%s:%s:%s" % (rule, short(name), ",".join(sorted({d for d, _ in drops}))),
               sample={"fn": short(name)})
    return n
