"""C16 — level validation: traversal and counting structure.

Decides: (TRAVERSE) check_expr_level and check_entity_deref_target_level reach
every child of every variant they handle; the sub-expression iterator on which
`subexpressions()` / slot collection stand pushes every child; (GUARD.level) every
dereferencing form goes through check_entity_deref_target_level and the `>=
max_level` comparison guards the error; (COUNT) each entity-typed GetAttr / GetTag
step on a target path applies `increment` exactly once to the recursive result;
(ENVS) levels are checked for every request environment that typechecks (Success
and Irrelevant), only Fail is skipped; (MONOTONE) max_level is used only as the
bound of that comparison (so raising n never rejects).
Declines: that n hops of data suffice for evaluation.
"""
from lib import traverse, shape, cfg, protocol, hom, panics
from lib.facts import callee
from lib.rulelib import get_fn, short

LC = "cedar_policy_core::validator::level_validate::LevelChecker::"
EXPRKIND = "cedar_policy_core::ast::expr::ExprKind"
MARK = ("ast::expr::Expr<",)


def traversal(chk, facts):
    rule = "C16.TRAVERSE"
    f = get_fn(chk, facts, rule, LC + "check_expr_level")
    sink = lambda c, t: c in (LC + "check_expr_level", LC + "check_entity_deref_target_level")
    if f is not None:
        traverse.check(chk, rule, facts, f, EXPRKIND, "ast::expr::ExprKind", MARK, sink, floor=17)
    g = get_fn(chk, facts, rule, LC + "check_entity_deref_target_level")
    if g is not None:
        traverse.check(chk, rule, facts, g, EXPRKIND, "ast::expr::ExprKind", MARK, sink,
                       only_variants={"If", "GetAttr", "Record"}, floor=5)
        # GetTag sub-arm of BinaryApp: both operands
        traverse.check(chk, rule, facts, g, EXPRKIND, "ast::expr::ExprKind", MARK, sink, only_variants={"BinaryApp"}, floor=2, name="check_entity_deref_target_level(GetTag)")
    # the sub-expression iterator (root of subexpressions(), slots(), ...)
    it = [n for n in facts.fns if n.endswith("as std::iter::Iterator>::next") and "expr_iterator::ExprIterator" in n]
    if len(it) != 1:
        chk.lost(rule, "ExprIterator::next", "found %d" % len(it))
    else:
        h = facts.fns[it[0]]
        chk.functions.add(h.name)
        traverse.check(chk, rule, facts, h, EXPRKIND, "ast::expr::ExprKind", MARK,
                       lambda c, t: c.endswith(("Vec::<T, A>::push", "::extend", "Vec::<T, A>::append")), floor=17, name="ExprIterator::next")


def level_guard(chk, facts):
    rule = "C16.GUARD.level"
    f = get_fn(chk, facts, rule, LC + "check_expr_level")
    if f is None:
        return
    derefs = [(b, t) for b, t in f.calls() if callee(t) == LC + "check_entity_deref_target_level"]
    L = shape.Labels(f, None, shape.variant_field_seed("ast::expr::ExprKind"),
                     call_labels=lambda c, t: ["LEVEL"] if c == LC + "check_entity_deref_target_level" else None)

    def self_field(p):
        for e in p[1:]:
            if isinstance(e, list) and e[0] == "f" and e[2] == "max_level":
                return True
        return False
    n = 0
    for b, t in derefs:
        # a comparison `level >= self.max_level` (or `<`) dominated by this call, whose failing edge leads to the error insert
        ok = False
        det = "no comparison of the returned level with max_level"
        for b2, t2 in f.calls():
            c2 = callee(t2)
            last = c2.split("::")[-1]
            if last not in ("ge", "lt", "gt", "le") or not cfg.dominates(f, b, b2):
                continue
            if "LEVEL" not in L.operand_labels(t2[2][0]):
                continue
            # second operand is self.max_level
            edges = protocol.bool_edges(f, b2)
            ins = [bb for bb, tt_ in f.calls() if callee(tt_).endswith("HashSet::<T, S, A>::insert")]
            for sb, m in edges:
                err_edge = m[True] if last in ("ge", "gt") else m[False]
                ok_edge = m[False] if last in ("ge", "gt") else m[True]
                err_reach = cfg.reachable(f, err_edge, cut_blocks={ok_edge})
                reaches_insert = any(i in err_reach for i in ins)
                exact = last in ("ge", "lt")
                # between the measurement and the report no further condition may intervene
                extra = []
                for i in ins:
                    if i in err_reach:
                        for d, taken in cfg.guard_edges(f, i):
                            if d != sb and d != b and cfg.dominates(f, b, d):
                                extra.append(panics.cond_desc(f, d))
                ok = reaches_insert and exact and not extra
                det = "level compared with `%s` against max_level; the exceeding edge reports the error: %s%s%s" % (
                    last, reaches_insert, "" if exact else " — but `%s` lets level == max_level through" % last,
                    "" if not extra else " — but the report is additionally conditional on %s" % extra)
        n += 1
        chk.ob(rule, "deref@L%s" % t[1].get("l"), ok, det, where=f.where(t[1].get("l")), fn=f.name, key="%s:deref" % rule,
               sample={"site": t[1].get("l"), "detail": det})
    chk.floor(rule, "dereference sites in check_expr_level", n, 2)
    # every dereferencing form reaches the deref-level function with its target
    reached = traverse.sinks_reached(facts, f, "ast::expr::ExprKind", lambda c, t: c == LC + "check_entity_deref_target_level")
    for lab in ("BinaryApp.arg1", "GetAttr.expr", "HasAttr.expr"):
        chk.ob(rule, "target:" + lab, lab in reached, "the target %s of a dereferencing form is measured by check_entity_deref_target_level: %s" % (lab, lab in reached),
               where=f.where(), fn=f.name)


def counting(chk, facts):
    rule = "C16.COUNT"
    g = get_fn(chk, facts, rule, LC + "check_entity_deref_target_level")
    if g is None:
        return
    L = shape.Labels(g, None, shape.variant_field_seed("ast::expr::ExprKind"),
                     call_labels=lambda c, t: ["REC"] if c == LC + "check_entity_deref_target_level" else (["INC"] if c.endswith("EntityDerefLevel::increment") else None))
    incs = [(b, t) for b, t in g.calls() if callee(t).endswith("EntityDerefLevel::increment")]
    n = 0
    for b, t in incs:
        labs = L.operand_labels(t[2][0])
        from_rec = "REC" in labs
        once = "INC" not in labs
        n += 1
        chk.ob(rule, "increment@L%s" % t[1].get("l"), from_rec and once,
               "increment is applied to the level returned by the recursive target check: %s; not applied twice: %s" % (from_rec, once),
               where=g.where(t[1].get("l")), fn=g.name, sample={"site": t[1].get("l"), "operand_labels": sorted(labs)})
    chk.floor(rule, "increment sites (entity GetAttr, GetTag)", n, 2)
    # which arms increment: GetAttr (entity-typed sub-arm) and BinaryApp(GetTag); the record-typed GetAttr sub-arm must not
    ev = hom.arm_events(facts, g, "ast::expr::ExprKind", lambda c, t: "inc" if c.endswith("EntityDerefLevel::increment") else None)
    if ev:
        r = facts.adts.get(EXPRKIND)
        arms_with_inc = sorted(r["variants"][vi]["name"] for vi, a in ev["arms"].items() if a["events"])
        chk.ob(rule, "arms", arms_with_inc == ["BinaryApp", "GetAttr"], "arms applying increment: %s; required exactly [BinaryApp(GetTag), GetAttr(entity)]" % arms_with_inc,
               where=g.where(), fn=g.name, sample={"arms": arms_with_inc})
    # the level of every target-position child reaches the returned level (an `if` target is as deep as its deeper branch)
    L0 = shape.Labels(g, None, shape.variant_field_seed("ast::expr::ExprKind"))
    Lr = shape.Labels(g, None, None, call_labels=lambda c, t: (
        ["REC:" + x for x in L0.operand_labels(t[2][1]) if "." in x] if c == LC + "check_entity_deref_target_level" and len(t[2]) > 1 else None))
    ret = {x for x in Lr.lab.get(0, set()) if x.startswith("REC:")}
    want = {"REC:If.then_expr", "REC:If.else_expr", "REC:GetAttr.expr", "REC:BinaryApp.arg1", "REC:Record.0"}
    miss = sorted(want - ret)
    chk.ob(rule, "returned-levels", not miss, "levels measured on target-position children that reach the returned level: %s%s" % (sorted(ret), "" if not miss else "; lost: %s" % miss),
           where=g.where(), fn=g.name, sample={"returned": sorted(ret)})
    mins = [(b, t) for b, t in g.calls() if callee(t).split("::")[-1] in ("min", "min_by", "min_by_key") and any(x.startswith("REC:") for o in t[2] for x in Lr.operand_labels(o))]
    chk.ob(rule, "if:deeper-branch", not mins, "branch levels are never combined with a minimum: %s" % (not mins), where=g.where(mins[0][1][1].get("l") if mins else None), fn=g.name)
    inc = facts.fn("cedar_policy_core::validator::level_validate::EntityDerefLevel::increment")
    if inc is not None:
        adds = [s for _, s in inc.stmts() if s[0] == "a" and s[2][0] == "bin" and s[2][1].startswith("Add")]
        ok = len(adds) == 1 and adds[0][2][3][0] == "k" and adds[0][2][3][1].get("v") == 1
        chk.ob(rule, "increment=+1", ok, "EntityDerefLevel::increment adds the constant 1: %s" % ok, where=inc.where(), fn=inc.name)


def envs(chk, facts):
    rule = "C16.ENVS"
    f = get_fn(chk, facts, rule, "cedar_policy_core::validator::level_validate::<impl cedar_policy_core::validator::Validator>::validate_policy_with_level")
    if f is None:
        return
    PC = "cedar_policy_core::validator::typecheck::PolicyCheck"
    r = facts.adts.get(PC)
    sws = sorted(shape.variant_switches(f, "typecheck::PolicyCheck"), key=lambda s: -len(s[2]))
    if not sws or r is None:
        chk.lost(rule, "match on PolicyCheck")
        return
    b, scrut, arms, other = sws[0]
    calls = [bb for bb, t in f.calls() if callee(t) == LC + "check_expr_level"]
    for vi, tgt in sorted(arms.items()):
        vn = r["variants"][vi]["name"]
        reach = cfg.reachable(f, tgt, cut_blocks={b})
        checked = any(c in reach for c in calls)
        # the check must be unavoidable on that edge before the loop continues
        want = vn in ("Success", "Irrelevant")
        chk.ob(rule, vn, checked == want, "request environments with outcome %s are %slevel-checked (required: %s)" % (vn, "" if checked else "not ", "checked" if want else "skipped"),
               where=f.where(), fn=f.name, sample={"outcome": vn, "level_checked": checked})


def envs_every_iteration(chk, facts):
    """No request environment is dropped before its PolicyCheck outcome is looked at: in the loop over
    typecheck_by_request_env's results, the only way past check_expr_level is the Fail arm."""
    rule = "C16.ENVS"
    f = facts.fn("cedar_policy_core::validator::level_validate::<impl cedar_policy_core::validator::Validator>::validate_policy_with_level")
    if f is None:
        return
    sws = sorted(shape.variant_switches(f, "typecheck::PolicyCheck"), key=lambda s: -len(s[2]))
    r = facts.adts.get("cedar_policy_core::validator::typecheck::PolicyCheck")
    calls = [bb for bb, t in f.calls() if callee(t) == LC + "check_expr_level"]
    if not sws or not calls or r is None:
        chk.lost(rule, "loop over request environments")
        return
    b, scrut, arms, other = sws[0]
    fail_edges = {(b, tgt) for vi, tgt in arms.items() if r["variants"][vi]["name"] == "Fail"}
    lp = protocol.loop_of(f, calls[0])
    if lp is None:
        chk.ob(rule, "per-environment", False, "check_expr_level is not called inside the loop over request environments", where=f.where(), fn=f.name)
        return
    head, some = lp
    reach = cfg.reachable(f, some, cut_blocks=set(calls), cut_edges=fail_edges)
    skipped = head in reach
    # name the guard that lets an iteration through
    why = ""
    if skipped:
        gs = [panics.cond_desc(f, d) for d, taken in cfg.guard_edges(f, b) if cfg.dominates(f, some, d)]
        why = " (the outcome is only looked at under %s)" % gs if gs else ""
    chk.ob(rule, "per-environment", not skipped,
           "every iteration over the request environments reaches check_expr_level unless its outcome is Fail: %s%s" % (not skipped, why),
           where=f.where(), fn=f.name, key="%s:per-environment" % rule)
    # the iterated collection is exactly what typecheck_by_request_env returned (no skip / filter / take in between)
    hb = f.blocks[head]["t"]
    src = leaf_producers(f, hb[2][0], extra_transparent=("::into_iter", "::iter")) if hb[0] == "call" and hb[2] else set()
    calls_ = sorted(x for x in src if x.startswith("call:"))
    ok = len(calls_) == 1 and calls_[0].endswith("::typecheck_by_request_env")
    chk.ob(rule, "all-environments", ok, "the loop iterates the result of typecheck_by_request_env itself: %s" % [short(x[5:]) for x in calls_], where=f.where(), fn=f.name,
           key="%s:all-environments" % rule)


from lib.slice import leaf_producers  # noqa: E402


def literal_exemption(chk, facts):
    """An entity literal in dereference position is an error unless it IS the request environment's action:
    the exempting comparison relates the whole literal uid with RequestEnv::action_entity_uid(), not a projection of either."""
    rule = "C16.GUARD.literal"
    g = get_fn(chk, facts, rule, LC + "check_entity_deref_target_level")
    if g is None:
        return
    ev = hom.arm_events(facts, g, "ast::expr::ExprKind", lambda c, t: ("cmp" if c.split("::")[-1] in ("ne", "eq") else ("ins" if c.endswith("HashSet::<T, S, A>::insert") else None)))
    r = facts.adts.get(EXPRKIND)
    if ev is None or r is None:
        chk.lost(rule, "match on ExprKind in check_entity_deref_target_level")
        return
    n = 0
    for vi, arm in sorted(ev["arms"].items()):
        vn = r["variants"][vi]["name"]
        if vn not in ("Lit", "Slot"):
            continue
        ins = [e for e in arm["events"] if e["ctor"] == "ins"]
        cmps = [e for e in arm["events"] if e["ctor"] == "cmp"]
        if vn == "Slot":
            # a slot in dereference position is always an error
            ok = bool(ins) and all(not [d for d, _ in cfg.guard_edges(g, e["block"]) if d in arm["region"]] for e in ins)
            n += 1
            chk.ob(rule, "Slot", ok, "a slot in dereference position is reported unconditionally: %s" % ok, where=g.where(ins[0]["line"] if ins else None), fn=g.name)
            continue
        probs = []
        if not ins:
            probs.append("no literal_dereference_target error is reported in the Lit arm")
        for e in ins:
            guards = [d for d, _ in cfg.guard_edges(g, e["block"]) if d in arm["region"]]
            if not guards:
                continue        # unconditional report: stricter than required, sound
            for d in guards:
                # the guard must be decided by a comparison of (literal uid) with (env.action_entity_uid())
                cb = [c for c in cmps if any(sb == d for sb, m in protocol.bool_edges(g, c["block"]))]
                if not cb:
                    sub = shape.variant_switches(g, "ast::literal::Literal")
                    if any(x[0] == d for x in sub):
                        continue     # the `Literal::EntityUID` sub-pattern
                    probs.append("the report is skipped under `%s`, which is not a comparison with the request's action" % panics.cond_desc(g, d))
                    continue
                t = g.blocks[cb[0]["block"]]["t"]
                a, b2 = leaf_producers(g, t[2][0]), leaf_producers(g, t[2][1])
                sides = [a, b2]
                act = [x for x in sides if any(y.endswith("RequestEnv::action_entity_uid") for y in x)]
                lit = [x for x in sides if x is not (act[0] if act else None)]
                if len(act) != 1:
                    probs.append("neither side of the exempting comparison is RequestEnv::action_entity_uid() alone (sides: %s / %s)" % (sorted(a), sorted(b2)))
                    continue
                extra_act = [y for y in act[0] if y.startswith("call:") and not y.endswith("RequestEnv::action_entity_uid")]
                extra_lit = [y for y in lit[0] if y.startswith("call:")]
                if extra_act or extra_lit:
                    probs.append("the exempting comparison relates projections (%s), not the literal uid and the request's action uid themselves" % ", ".join(short(x[5:]) for x in extra_act + extra_lit))
                if not any(y.startswith("place:") for y in lit[0]):
                    probs.append("the compared value is not the literal of this arm")
        n += 1
        chk.ob(rule, "Lit", not probs, "entity literal in dereference position: %s" % ("; ".join(probs) if probs else "reported unless the literal uid equals RequestEnv::action_entity_uid()"),
               where=g.where(ins[0]["line"] if ins else None), fn=g.name, key="%s:Lit:%s" % (rule, ";".join(sorted(p.split(" (")[0] for p in probs))))
    chk.floor(rule, "literal / slot arms", n, 2)


def monotone(chk, facts):
    """max_level is read only to be compared (and to be reported): raising it can only turn errors off."""
    rule = "C16.MONOTONE"
    uses = []
    for name in facts.fns:
        if "level_validate::" not in name:
            continue
        gen, kind, root, ti, file, line = facts.fns.meta(name)
        if gen or (facts.fns.fnmac(name) or "").startswith("d:"):
            continue
        g = facts.fns[name]
        from lib import flow
        seeds = set()
        for b, dest, ln in flow.field_reads(g, "level_validate::LevelChecker", "max_level"):
            if dest is not None:
                seeds.add(dest)
        if not seeds:
            continue
        tainted, sinks = flow.forward(g, seeds)
        for (b, c, i, ln) in sinks:
            uses.append((name, c, i, ln))
    bad = [u for u in uses if not (u[1].split("::")[-1] in ("ge", "lt", "gt", "le", "fmt", "clone") or "maximum_level_exceeded" in u[1] or u[1].endswith("Clone>::clone"))]
    chk.ob(rule, "max_level-uses", not bad and len(uses) >= 2, "max_level flows only into comparisons and the error report: %s%s" % (
        sorted({u[1].split("::")[-1] for u in uses}), "" if not bad else "; other use(s): %s" % [(short(u[0]), u[1]) for u in bad]),
        sample={"uses": sorted({u[1].split("::")[-1] for u in uses})})


def additive_closure(chk, facts):
    """The slice keeps each entity 'with its own ancestor set': building a store from such entities must not
    discard ancestors whose own records are absent. The closure routines may only add edges."""
    rule = "C16.ADDITIVE"
    TC = "cedar_policy_core::transitive_closure::"
    fns = [facts.fns[n] for n in facts.fns.keys() if n.startswith(TC) and "{closure" not in n.split(TC, 1)[1].split("::")[0] and not n.startswith(TC + "err")]
    fns += [g for f in list(fns) for g in facts.closures_of(f.name)]
    anchor = [n for n in facts.fns.keys() if n.endswith("TCNode<cedar_policy_core::ast::entity::EntityUID>>::reset_edges") and "ast::entity::Entity " in n]
    if not anchor:
        chk.lost(rule, "<Entity as TCNode>::reset_edges (the edge-clearing primitive the rule excludes)")
        return
    adds = 0
    seen = set()
    for f in fns:
        if f.name in seen:
            continue
        seen.add(f.name)
        chk.functions.add(f.name)
        for b, t in f.calls():
            c = callee(t)
            last = c.split("::")[-1]
            if "TCNode" in c and last == "add_edge_to":
                adds += 1
            bad = ("TCNode" in c and last not in ("add_edge_to", "get_key", "out_edges", "has_edge_to", "direct_edges")) or \
                  last in ("remove_indirect_ancestor", "remove_parent", "remove_all_indirect_ancestors")
            if bad or last == "add_edge_to":
                chk.ob(rule, "%s:%s@L%s" % (short(f.name), last, t[1].get("l")), not bad,
                       "closure routine %s calls %s: %s" % (short(f.name), last, "discards existing edges (ancestors whose records are absent from the store are lost)" if bad else "adds an edge"),
                       where=f.where(t[1].get("l")), fn=f.name, key="%s:%s:%s" % (rule, short(f.name), last),
                       sample={"fn": short(f.name), "call": last})
    chk.floor(rule, "add_edge_to sites in the closure routines", adds, 2)


def run(chk, facts, tier):
    facts.load_crate("cedar_policy_core.lib")
    chk.explanation = (
        "Static decision of the structure of level validation on the current MIR: (TRAVERSE) with variant-qualified label provenance every child of every ExprKind variant reaches a "
        "recursive call in check_expr_level, the handled variants of check_entity_deref_target_level pass all their children on (selected record field through the deref path, the "
        "others through check_expr_level), and ExprIterator::next pushes every child; (GUARD.level) each dereference site compares the measured level with max_level using >= (or <) "
        "and the exceeding edge reports the error; (COUNT) increment is applied exactly once, to the level returned by the recursive call, exactly in the entity-GetAttr and GetTag arms, "
        "and adds 1; (ENVS) Success and Irrelevant environments are level-checked, Fail is skipped; (MONOTONE) max_level flows only into that comparison and the report. "
        "Declines that n hops of data suffice for evaluation.")
    chk.assumptions = ["label provenance is flow-insensitive per function (variant-qualified seeds)", "MIR at mir-opt-level=0 reflects source control flow"]
    traversal(chk, facts)
    level_guard(chk, facts)
    counting(chk, facts)
    envs(chk, facts)
    envs_every_iteration(chk, facts)
    literal_exemption(chk, facts)
    monotone(chk, facts)
    additive_closure(chk, facts)
    # validate_with_level must level-check every template of the set (shared with C03)
    from rules import c03_validate
    c03_validate.check(chk, facts)
