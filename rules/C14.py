"""C14 — TPE responses: bucket routing, decision table, views, guards.

Decides the structural clauses listed in DESIGN.md section 4 (C14); the
simplifier's value-level correctness and permission-query enumeration are
declined.
"""
from lib import tt, flow, shape
from lib.rulelib import AtomOracle, arg_syms, get_fn, res_calls, short, syms, walk
from lib.facts import callee
from rules import partial_tables as pt

RESP = "cedar_policy_core::tpe::response::Response"
RP = "cedar_policy_core::tpe::response::ResidualPolicy"
BUCKETS = ["true_permits", "false_permits", "error_permits", "residual_permits",
           "true_forbids", "false_forbids", "error_forbids", "residual_forbids"]


def _set_field_map(f):
    """Run Response::new with zero loop iterations to learn which HashSet::new result
    becomes which field of the returned struct."""
    def res_disc(v, adt):
        if v[1].endswith("::next") and adt.endswith("Option"):
            return 0
        return None

    class O(AtomOracle):
        def call(self, cal, args, term, interp):
            if cal.endswith("::is_empty"):
                return tt.I(1)
            return AtomOracle.call(self, cal, args, term, interp)
    ret, trace = tt.Interp(f, O(res_disc=res_disc)).run(arg_syms(f))
    m = {}
    if ret[0] == "adt":
        return ret, m
    return ret, m


def response_new(chk, facts):
    rule_t = "C14.TABLE.decision"
    rule_b = "C14.BUCKET"
    f = get_fn(chk, facts, rule_t, RESP + "::new")
    if f is None:
        return
    adt = facts.adts.get("cedar_policy_core::tpe::response::Response")
    if adt is None:
        chk.lost(rule_t, "adt tpe::response::Response")
        return
    names = [fl[0] for fl in adt["variants"][0]["fields"]]

    def run(iterations, empt, outcome=None, effect=None):
        """iterations: 0 or 1. empt: {field: is_empty} applied to the final struct's sets."""
        state = {"first": None, "idmap": None}

        def res_disc(v, a):
            if v[1].endswith("::next") and a.endswith("Option"):
                if iterations == 0:
                    return 0
                if state["first"] is None:
                    state["first"] = v[3]
                return 1 if v[3] == state["first"] else 0
            if v[1].endswith("get_effect") and a.endswith("Effect"):
                return 0 if effect == "Permit" else 1
            return None

        def res_bool(v):
            if v[0] == "res":
                for k in ("is_true", "is_false", "is_error"):
                    if v[1].endswith("Residual::" + k):
                        return 1 if outcome == k else 0
            return None

        class O(AtomOracle):
            def call(self, cal, args, term, interp):
                if cal.endswith("::is_empty") and args and args[0][0] == "res":
                    rid = args[0][3]
                    fld = (state["idmap"] or {}).get(rid)
                    if fld is None:
                        return tt.I(1)
                    return tt.I(1 if empt.get(fld, True) else 0)
                return AtomOracle.call(self, cal, args, term, interp)
        it = tt.Interp(f, O(res_disc=res_disc, res_bool=res_bool))
        return it, state

    # pass 1: learn set identity -> field
    it, state = run(0, {})
    try:
        ret, trace = it.run(arg_syms(f))
    except tt.Undecided as e:
        chk.ob(rule_t, "shape", False, "undecided: %s" % e, where=f.where(), fn=f.name)
        return
    if ret[0] != "adt" or not ret[1].endswith("tpe::response::Response"):
        chk.ob(rule_t, "shape", False, "Response::new does not return a struct literal", where=f.where())
        return
    idmap = {}
    for i, v in enumerate(ret[4]):
        if v[0] == "res" and ("HashSet" in v[1] or "HashMap" in v[1]) and v[1].endswith("::new"):
            idmap[v[3]] = names[i]
    chk.ob(rule_t, "fields", set(BUCKETS) <= set(idmap.values()) and "residuals" in idmap.values(),
           "each bucket field of Response is a distinct fresh set: %s" % sorted(idmap.values()), where=f.where(), fn=f.name)
    # decision table: 16 rows
    n = 0
    for row in pt.rows16():
        empt = {"true_forbids": not row["tf"], "true_permits": not row["tp"],
                "residual_permits": not row["rp"], "residual_forbids": not row["rf"]}
        it, state = run(0, empt)
        state["idmap"] = idmap
        try:
            ret, trace = it.run(arg_syms(f))
        except tt.Undecided as e:
            chk.ob(rule_t, str(row), False, "undecided: %s" % e, where=f.where())
            continue
        dec = ret[4][names.index("decision")]
        got = pt.render_option_decision(dec)
        ok, msg = pt.judge(row, got)
        n += 1
        chk.ob(rule_t, "tf=%(tf)s,tp=%(tp)s,rp=%(rp)s,rf=%(rf)s" % row, ok, msg, where=f.where(), fn=f.name,
               sample=dict(row, decision=got))
    chk.floor(rule_t, "rows", n, 16)
    # bucket routing: one iteration per (effect, outcome)
    exp = {"is_true": "true", "is_false": "false", "is_error": "error", "else": "residual"}
    m = 0
    for eff in ("Permit", "Forbid"):
        for oc in ("is_true", "is_false", "is_error", "else"):
            it, state = run(1, {}, outcome=oc, effect=eff)
            state["idmap"] = idmap
            try:
                ret, trace = it.run(arg_syms(f))
            except tt.Undecided as e:
                chk.ob(rule_b, "%s/%s" % (eff, oc), False, "undecided: %s" % e, where=f.where())
                continue
            sinks = []
            map_insert = False
            line = None
            for cal, args, ln, _ in trace:
                if cal.endswith("::insert") and args and args[0][0] == "res":
                    fld = idmap.get(args[0][3], "?")
                    carries_id = any(c.endswith("get_policy_id") for a in args[1:] for c in res_calls(a))
                    if fld == "residuals":
                        # key = this policy's id, value = this ResidualPolicy
                        map_insert = carries_id
                    else:
                        sinks.append((fld, carries_id))
                        line = ln
            want = "%s_%ss" % (exp[oc], eff.lower())
            ok = sinks == [(want, True)] and map_insert
            m += 1
            chk.ob(rule_b, "%s/%s" % (eff, oc), ok,
                   "residual policy with effect %s / %s goes to %s (required [%s] with its own id) and is %srecorded in `residuals` under its id" % (
                       eff, oc, sinks, want, "" if map_insert else "NOT "),
                   where=f.where(line), fn=f.name, key="%s:%s/%s" % (rule_b, eff, oc),
                   sample={"effect": eff, "outcome": oc, "sinks": sinks, "in_residuals": map_insert})
    chk.floor(rule_b, "(effect,outcome) leaves", m, 8)


def reason_table(chk, facts):
    rule = "C14.TABLE.reason"
    f = get_fn(chk, facts, rule, RESP + "::reason")
    if f is None:
        return
    cases = [("None", None, "None"), ("Some", 0, "true_permits"), ("Some", 1, "true_forbids")]
    n = 0
    for var, dec, want in cases:
        o = AtomOracle(variants={("arg1", "decision"): var},
                       discs={("arg1", "decision", "as Some", "0"): dec, ("arg1", "decision"): 1 if var == "Some" else 0})
        try:
            ret, trace = tt.Interp(f, o).run(arg_syms(f))
        except tt.Undecided as e:
            chk.ob(rule, "%s/%s" % (var, dec), False, "undecided: %s" % e, where=f.where())
            continue
        if ret[0] == "adt" and ret[2] == "None":
            got = "None"
        else:
            flds = {s[1] for s in syms(ret) if len(s) > 1}
            got = ",".join(sorted(flds))
        n += 1
        label = {None: "none", 0: "Allow", 1: "Deny"}[dec]
        chk.ob(rule, "decision=" + label, got == want,
               "reason() for decision %s iterates %s; required %s" % (label, got, want), where=f.where(), fn=f.name,
               sample={"decision": label, "source": got})
    chk.floor(rule, "rows", n, 3)


ALLOWED_POLICY_USES = ("ast::policy::Policy::effect", "ast::policy::Policy::id",
                       "ast::policy::Policy::annotations_arc", "ast::policy::Policy::annotations",
                       "ast::policy::Policy::annotation")


def views(chk, facts):
    """Every consumer of ResidualPolicy.policy only projects effect / id / annotations;
    whole-policy uses would present the *original* policy instead of the residual."""
    rule = "C14.FIELD-USE"
    n_reads = 0
    units = ["cedar_policy_core.lib", "cedar_policy.lib"]
    for u in units:
        for name in facts.unit_fns(u):
            gen, kind, root, ti, file, line = facts.fns.meta(name)
            if gen or "tpe" not in file:
                continue
            f = facts.fns[name]
            seeds = set()
            direct = []
            for b, dest, ln in flow.field_reads(f, "tpe::response::ResidualPolicy", "policy"):
                if dest is not None:
                    seeds.add(dest)
                else:
                    direct.append(ln)
            if not seeds and not direct:
                continue
            # derive(Clone/Debug) of ResidualPolicy itself legitimately touch every field
            if name.startswith("<" + RP + " as std::clone::Clone>") or name.startswith("<" + RP + " as std::fmt::Debug>"):
                continue
            tainted, sinks = flow.forward(f, seeds, extra_transparent=("Arc<T, A> as std::ops::Deref>::deref",))
            n_reads += 1
            bad = [(c, ln) for (b, c, i, ln) in sinks if not c.endswith(ALLOWED_POLICY_USES)]
            chk.ob(rule, short(name), not bad,
                   "ResidualPolicy.policy is used through %s%s" % (
                       sorted({short(c).split("::")[-1] for (_, c, _, _) in sinks}),
                       "" if not bad else "; whole-policy use(s) %s present the original policy instead of the residual" % [(short(c), l) for c, l in bad]),
                   where=f.where(bad[0][1] if bad else None), fn=name,
                   key="%s:%s:%s" % (rule, name, ",".join(sorted({c for c, _ in bad}))),
                   sample={"fn": short(name), "uses": sorted({short(c) for (_, c, _, _) in sinks})})
    chk.floor(rule, "functions reading ResidualPolicy.policy", n_reads, 3)
    # the conversion used by all views takes the condition from `residual`
    conv = "cedar_policy_core::tpe::response::<impl std::convert::From<" + RP + "> for cedar_policy_core::ast::policy::Policy>::from"
    f = get_fn(chk, facts, rule, conv)
    if f is not None:
        try:
            ret, trace = tt.Interp(f, AtomOracle()).run(arg_syms(f))
            ctor = [tr for tr in trace if tr[0].endswith("Policy::from_when_clause_annos")]
            ok = False
            detail = "no Policy::from_when_clause_annos call"
            if ctor:
                cond = ctor[0][1][1]
                ok = any(s[:2] == ("arg1", "residual") for s in syms(cond)) and not any(s[:2] == ("arg1", "policy") for s in syms(cond))
                detail = "condition argument derives from %s" % sorted(syms(cond))
            chk.ob(rule, "From<ResidualPolicy>::condition", ok, detail, where=f.where(), fn=f.name)
        except tt.Undecided as e:
            chk.ob(rule, "From<ResidualPolicy>::condition", False, "undecided: %s" % e, where=f.where())
    # policy_set()/API views go through that conversion
    for name, must in ((RESP + "::policy_set", ["policies", "convert::From<" + RP]),
                       ("cedar_policy::api::tpe::TpeResponse::residual_policies", None),):
        g = facts.fn(name)
        if g is None:
            if must is not None:
                chk.lost(rule, name)
            continue
        cs = [callee(t) for _, t in g.calls()]
        for cl in facts.closures_of(name):
            cs += [callee(t) for _, t in cl.calls()]
        if must:
            ok = all(any(m in c for c in cs) for m in must)
            chk.ob(rule, short(name), ok, "derives its policies through %s: %s" % (must, ok), where=g.where(), fn=name)


def same_residuals(chk, facts):
    """All views of a response present the same residuals: policies() is the whole `residuals` map, policy_set() adds every one
    of them unconditionally, and reauthorize evaluates exactly that policy set (not a selection of buckets)."""
    rule = "C14.VIEWS"
    from lib.slice import leaf_producers
    from lib import protocol, cfg
    pol = get_fn(chk, facts, rule, RESP + "::policies")
    if pol is not None:
        reads = any(isinstance(e, list) and e[0] == "f" and e[2] == "residuals" for _, s_ in pol.stmts() if s_[0] == "a" for p_ in shape._rv_places(s_[2]) for e in p_[1:])
        vals = any(callee(t).endswith("::values") for _, t in pol.calls())
        filt = [callee(t) for _, t in pol.calls() if callee(t).split("::")[-1] in ("filter", "filter_map", "take", "skip", "take_while", "skip_while", "step_by")]
        chk.ob(rule, "policies", reads and vals and not filt, "policies() iterates all values of `residuals`: field read %s, values() %s, filtering adaptors %s" % (reads, vals, filt),
               where=pol.where(), fn=pol.name)
    ps = get_fn(chk, facts, rule, RESP + "::policy_set")
    if ps is not None:
        adds = [(b, t) for b, t in ps.calls() if callee(t).endswith("PolicySet::add")]
        ok = bool(adds)
        det = "no PolicySet::add"
        for b, t in adds:
            lp = protocol.loop_of(ps, b)
            if lp is None:
                ok = False
                det = "add is not in a loop over the policies"
                continue
            head, some = lp
            skip = head in cfg.reachable(ps, some, cut_blocks={b})
            hb = ps.blocks[head]["t"]
            src = leaf_producers(ps, hb[2][0], extra_transparent=("::into_iter", "::iter")) if hb[0] == "call" and hb[2] else set()
            from_all = any(x.endswith("::policies") for x in src)
            ok &= (not skip) and from_all
            det = "every iteration over policies() adds to the set: %s; the loop iterates policies(): %s" % (not skip, from_all)
        chk.ob(rule, "policy_set", ok, det, where=ps.where(), fn=ps.name)
    for name, inner, what in ((RESP + "::reauthorize", "authorizer::Authorizer::is_authorized", "core reauthorize"),):
        f = get_fn(chk, facts, rule, name)
        if f is None:
            continue
        sites = [(b, t) for b, t in f.calls() if callee(t).endswith(inner)]
        if not sites:
            chk.ob(rule, "reauthorize", False, "reauthorize does not call %s" % inner, where=f.where(), fn=f.name)
            continue
        for b, t in sites:
            src = set()
            for o in t[2][1:]:
                lp_ = leaf_producers(f, o)
                if any("PolicySet" in f.locals[o[1][0]] for _ in [0] if o[0] in ("c", "m")):
                    src |= lp_
            ok = any(x.endswith(RESP.split("::")[-1] + "::policy_set") or x.endswith("::policy_set") for x in src) and not any(x.endswith("PolicySet::new") for x in src)
            chk.ob(rule, "reauthorize", ok, "the policy set evaluated by reauthorize is produced by %s%s" % (sorted(short(x) for x in src), "" if ok else " — not the response's own policy_set(): a selection of residuals is re-evaluated"),
                   where=f.where(t[1].get("l")), fn=f.name, key="%s:reauthorize" % rule, sample={"producers": sorted(src)})
    # the public wrapper delegates
    for name, inner in (("cedar_policy::api::tpe::TpeResponse::reauthorize", "tpe::response::Response::reauthorize"),
                        ("cedar_policy::api::tpe::TpeResponse::policy_set", "tpe::response::Response::policy_set"),
                        ("cedar_policy::api::tpe::TpeResponse::get_policy", "tpe::response::Response::get_residual_policy")):
        g = facts.fn(name)
        if g is None:
            chk.lost(rule, name)
            continue
        cs = [callee(t) for _, t in g.calls()]
        for cl in facts.closures_of(name):
            cs += [callee(t) for _, t in cl.calls()]
        ok = any(inner in c for c in cs)
        chk.ob(rule, short(name), ok, "%s delegates to %s: %s" % (short(name), inner, ok), where=g.where(), fn=name)


def run(chk, facts, tier):
    facts.load_crate("cedar_policy_core.lib")
    facts.load_crate("cedar_policy.lib")
    chk.explanation = (
        "Static decision of TPE response structure on the current MIR: (BUCKET) each (effect x residual kind) leaf of "
        "tpe::Response::new inserts the policy's own id into exactly the matching set and always records the residual policy under its id; "
        "(TABLE.decision) the 16-row table over bucket non-emptiness is sound w.r.t. all completions of residuals (a reported decision is the only "
        "possible one; a decision is owed when nothing is residual); (TABLE.reason) reason() reads true_permits for Allow, true_forbids for Deny; "
        "(FIELD-USE) every reader of ResidualPolicy.policy only projects effect/id/annotations, so all views present the residual, and the "
        "shared conversion takes its condition from `residual`; (VIEWS) policies() is the whole residual map, policy_set() adds every one of them, reauthorize evaluates exactly policy_set(); "
        "(CANERR) can_error_assuming_well_formed answers `cannot error` for a node only after asking every residual child (the licence for dropping sub-residuals). Does not decide the TPE simplifier's value-level correctness nor query enumeration.")
    chk.assumptions = ["MIR at mir-opt-level=0 reflects source control flow",
                       "Residual::is_true/is_false/is_error classify residuals correctly",
                       "std collections behave as documented"]
    response_new(chk, facts)
    reason_table(chk, facts)
    views(chk, facts)
    same_residuals(chk, facts)
    from rules import c14_canerr
    c14_canerr.check(chk, facts)
    c14_canerr.folds_guarded(chk, facts)
    c14_canerr.closure_computed(chk, facts)
    c14_canerr.per_policy_typecheck(chk, facts)
    from rules import c02_ops
    c02_ops.check_tpe(chk, facts)
    from rules import c14_query
    c14_query.check(chk, facts)
    # the API's views of a response (bucket accessors, lookups) are thin wrappers: none is wired to a sibling's target
    from rules import C19 as _c19
    _c19.sibling_delegates(chk, facts)
    from rules import shared_getters
    shared_getters.check(chk, facts, "C14.GETTER", ["cedar_policy_core::tpe::", "cedar_policy::api::tpe::"], 15)
    from rules import shared_pipe
    shared_pipe.check(chk, facts, "C14.PIPE", ["cedar_policy_core::tpe::is_authorized", "cedar_policy_core::tpe::policy_residual_map", "cedar_policy_core::tpe::response::Response::new", "cedar_policy_core::tpe::response::Response::reauthorize"], "every policy of the set / every residual")
