"""C03.ERRORS — no type error found by the typechecker is lost on its way out.

The typechecker accumulates errors in a `&mut Vec<ValidationError>` (and, one level up, a `&mut HashSet<..>`) that is
threaded through every typing function and closure. (thread) every such argument — to a typing function or to
push / extend — designates the function's own accumulator parameter (through reborrows and closure captures, resolved in
the enclosing function), or, in the function that creates the accumulator, the one vector it creates; (return) that
function stores this vector in every PolicyCheck::Fail / Irrelevant it builds; (collect) typecheck_policy extends its
accumulator with the errors of both the Fail and the Irrelevant outcome of every environment.
Decides where found errors go, not which errors are found.
"""
from lib import shape, cfg
from lib.facts import callee
from lib.rulelib import get_fn, short
from lib.accroot import resolve

TC = "cedar_policy_core::validator::typecheck::"
TYS = ("&mut std::vec::Vec<cedar_policy_core::validator::diagnostics::ValidationError>",
       "&mut std::collections::HashSet<cedar_policy_core::validator::diagnostics::ValidationError>")


def _drained(facts, g, l):
    """the local vector `l` of g is handed (by value or &mut) to extend / append on g's accumulator"""
    for b, t in g.calls():
        if callee(t).split("::")[-1] in ("extend", "append") and len(t[2]) >= 2 and t[2][0][0] in ("c", "m") and len(t[2][0][1]) == 1 \
                and g.locals[t[2][0][1][0]] in TYS:
            sink = resolve(facts, g, t[2][0][1][0])
            sg = facts.fns[sink[1]]
            if sink[0] == "param" and sg.locals[sink[2]] in TYS:
                for o in t[2][1:]:
                    if o[0] in ("c", "m") and len(o[1]) == 1 and resolve(facts, g, o[1][0]) == ("local", g.name, l):
                        return True
    return False


def check(chk, facts):
    rule = "C03.ERRORS"
    n = 0
    creators = {}
    for name in sorted(facts.fns.keys()):
        if not name.startswith(TC):
            continue
        f = facts.fns[name]
        for b, t in f.calls():
            for o in t[2]:
                if o[0] not in ("c", "m") or len(o[1]) != 1 or f.locals[o[1][0]] not in TYS:
                    continue
                r = resolve(facts, f, o[1][0])
                g = facts.fns[r[1]]
                chk.functions.add(f.name)
                c = callee(t)
                if r[0] == "param" and g.locals[r[2]] in TYS:
                    ok = True
                    det = "the accumulator parameter of %s" % short(g.name).split("::")[-1]
                elif r[0] == "local" and not any(g.locals[i] in TYS for i in range(1, g.nargs + 1)) and "{closure" not in g.name:
                    creators.setdefault(g.name, set()).add(r[2])
                    ok = True
                    det = "the vector created by %s" % short(g.name).split("::")[-1]
                elif r[0] == "local" and _drained(facts, g, r[2]):
                    ok = True
                    det = "a scratch vector of %s that is later drained into the accumulator" % short(g.name).split("::")[-1]
                else:
                    ok = False
                    det = "%s in %s — not the accumulator (errors reported there are dropped)" % (r[0], short(g.name).split("::")[-1])
                n += 1
                chk.ob(rule, "thread:%s->%s@L%s" % (short(name).split("typecheck::")[-1], c.split("::")[-1], t[1].get("l")), ok,
                       "error sink handed to %s designates %s" % (c.split("::")[-1], det), where=f.where(t[1].get("l")), fn=f.name,
                       key="%s:thread:%s:%s" % (rule, short(name), c.split("::")[-1]),
                       sample={"fn": short(name).split("typecheck::")[-1], "callee": c.split("::")[-1], "sink": [r[0], r[2]]} if n % 9 == 0 else None)
    chk.floor(rule, "error-sink hand-offs in the typechecker", n, 67)
    # the creator returns its vector in every failing outcome
    for gname, locs in sorted(creators.items()):
        g = facts.fns[gname]
        ok = len(locs) == 1
        acc = sorted(locs)[0]
        aggs = []
        for b, blk in enumerate(g.blocks):
            if blk["cl"]:
                continue
            for s in blk["st"]:
                if s[0] == "a" and s[2][0] == "agg" and s[2][1][0] == "adt" and str(s[2][1][1]).endswith("PolicyCheck"):
                    var = s[2][1][2]
                    holds = any(o[0] in ("c", "m") and resolve(facts, g, o[1][0])[2] == acc and len(o[1]) == 1 for o in s[2][2])
                    aggs.append((var, holds, s[3]))
        for var, holds, line in aggs:
            if var in ("Fail", "Irrelevant"):
                n += 1
                chk.ob(rule, "return:%s:%s@L%s" % (short(gname).split("::")[-1], var, line), ok and holds,
                       "PolicyCheck::%s carries the accumulated errors: %s" % (var, holds), where=g.where(line), fn=g.name, key="%s:return:%s" % (rule, var))
        chk.ob(rule, "return:%s:variants" % short(gname).split("::")[-1], {v for v, _, _ in aggs} >= {"Fail", "Irrelevant", "Success"},
               "the creator builds Success, Fail and Irrelevant outcomes: %s" % sorted({v for v, _, _ in aggs}), where=g.where(), fn=g.name)
    if not creators:
        chk.lost(rule, "the function creating the error accumulator (single_env_typechecking)")
    # typecheck_policy: both failing outcomes are collected
    f = get_fn(chk, facts, rule, TC + "Typechecker::typecheck_policy")
    if f is not None:
        L = shape.Labels(f, None, shape.variant_field_seed("validator::typecheck::PolicyCheck"))
        got = set()
        for b, t in f.calls():
            if callee(t).endswith("::extend") and t[2] and f.locals[t[2][0][1][0]] in TYS and resolve(facts, f, t[2][0][1][0])[0] == "param":
                got |= {x.split(".")[0] for x in L.operand_labels(t[2][1]) if "." in x}
        ok = {"Fail", "Irrelevant"} <= got
        n += 1
        chk.ob(rule, "collect:typecheck_policy", ok, "typecheck_policy extends its error set with the errors of outcomes %s (Fail and Irrelevant required)" % sorted(got), where=f.where(), fn=f.name)
