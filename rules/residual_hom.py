"""Residual reconstruction (HOM-b over the evaluator's residual-building exits). Built in a later step."""


def check(chk, facts, rule):
    return
