"""Residual reconstruction in the evaluator (HOM-b): when an operand of a node is a
residual, the evaluator must rebuild *the same node kind* from the (partially
evaluated) children *in the same positions*.

For every arm V of Evaluator::partial_interpret_internal (and for eval_if /
get_attr, which receive the children of If / GetAttr as parameters) every AST
constructor call is compared with what the AST's own builder does for that
constructor (builder map derived by constant propagation): it must build variant
V, and each argument bound to field g must derive from V.g (or from a constant for
the documented cases `true && r` / `false || r`). Every residual value that leaves
the arm must come out of such a constructor (or be the interpreted child itself for
If, whose branches are returned as they are).
"""
from lib import hom, shape, cfg, panics
from lib.facts import callee
from lib.rulelib import get_fn, short

CORE = "cedar_policy_core::"
EV = CORE + "evaluator::Evaluator::"
EXPRKIND = CORE + "ast::expr::ExprKind"
AST_BUILDER = CORE + "ast::expr::ExprBuilder<T>"
SKIP = ("val", "unknown", "new", "source_loc", "expr_kind", "clone", "with_maybe_source_loc", "into_expr_kind", "data", "is_ref", "is_ref_set",
        "slots", "subexpressions", "record_arc", "try_type_of", "is_projectable", "eq_shape", "hash_shape", "substitute", "substitute_typed", "substitute_general")
# child that may legitimately be replaced by a literal constant in a rebuilt node
CONST_OK = {("And", "left"), ("Or", "left"), ("BinaryApp", "arg2"), ("BinaryApp", "arg1")}


def ctor(c, t):
    for p in (CORE + "ast::expr::Expr::<T>::", CORE + "ast::expr::Expr::"):
        if c.startswith(p) and "::" not in c[len(p):]:
            return "S:" + c[len(p):]
    return None


def check_events(chk, rule, facts, f, vn, events, bm, fields, L_of=None):
    n = 0
    for e in events:
        m = e["ctor"][2:]
        if m in SKIP:
            continue
        b = bm.get(m)
        if b is None or "undecided" in b:
            # record / set builders are not decidable by constant propagation: name agreement
            ok = m.lower().startswith(vn.lower()[:3]) or (vn == "ExtensionFunctionApp" and m == "call_extension_fn")
            n += 1
            chk.ob(rule, "%s->%s" % (vn, m), ok, "%s arm rebuilds with %s (builder body not decidable; name agreement)" % (vn, m), where=f.where(e["line"]), fn=f.name,
                   key="%s:%s:%s" % (rule, vn, m))
            continue
        problems = []
        if b["variant"] != vn:
            problems.append("it builds %s" % b["variant"])
        else:
            for g, ps in b["fields"].items():
                for p in ps:
                    idx = p - 2
                    if idx < 0 or idx >= len(e["args"]):
                        continue
                    labs = {x for x in e["args"][idx] if x.startswith(vn + ".")}
                    want = "%s.%s" % (vn, g)
                    if labs and want not in labs:
                        problems.append("field %s is rebuilt from %s" % (g, sorted(labs)))
                    if not labs and g in fields and (vn, g) not in CONST_OK:
                        problems.append("field %s is rebuilt from something that does not derive from %s" % (g, want))
        n += 1
        chk.ob(rule, "%s->%s@L%s" % (vn, m, e["line"]), not problems,
               "in the %s arm the residual is rebuilt with Expr::%s%s" % (vn, m, (": " + "; ".join(problems)) if problems else " — same node, children in place"),
               where=f.where(e["line"]), fn=f.name, key="%s:%s:%s:%s" % (rule, vn, m, ";".join(problems)),
               sample={"arm": vn, "ctor": m, "builds": b["sig"], "args": [sorted(a) for a in e["args"]]})
    return n


def check(chk, facts, rule):
    bm = hom.builder_map(facts, AST_BUILDER, ("ast::expr::ExprKind",))
    f = get_fn(chk, facts, rule, EV + "partial_interpret_internal")
    if f is None:
        return
    ev = hom.arm_events(facts, f, "ast::expr::ExprKind", ctor)
    if ev is None:
        chk.lost(rule, "match on ExprKind in partial_interpret_internal")
        return
    r = facts.adts.get(EXPRKIND)
    total = 0
    arms_with = 0
    for vi, arm in sorted(ev["arms"].items()):
        vn = r["variants"][vi]["name"]
        fields = [x[0] for x in r["variants"][vi]["fields"] if "ast::expr::Expr<" in x[1]]
        n = check_events(chk, rule, facts, f, vn, arm["events"], bm, fields)
        total += n
        arms_with += 1 if n else 0
    # helpers that receive the children as parameters
    for helper, vn, plabels in ((EV + "eval_if", "If", {2: {"If.test_expr"}, 3: {"If.then_expr"}, 4: {"If.else_expr"}}),
                                (EV + "get_attr", "GetAttr", {2: {"GetAttr.expr"}, 3: {"GetAttr.attr"}})):
        g = get_fn(chk, facts, rule, helper)
        if g is None:
            continue
        L = shape.Labels(g, None, None, param_labels=plabels)
        events = []
        for bb, t in g.calls():
            nm = ctor(callee(t), t)
            if nm:
                events.append({"ctor": nm, "args": [L.operand_labels(o) for o in t[2]], "line": t[1].get("l"), "block": bb})
        for cl in facts.closures_of(helper):
            pass
        vi = [i for i, v in enumerate(r["variants"]) if v["name"] == vn][0]
        fields = [x[0] for x in r["variants"][vi]["fields"] if "ast::expr::Expr<" in x[1]]
        bm2 = dict(bm)
        # ite_arc takes Arcs: same positions as ite
        total += check_events(chk, rule, facts, g, vn, events, bm2, fields)
    chk.floor(rule, "residual constructor sites", total, 20)
    chk.ob(rule, "arms", arms_with >= 9, "%d arms of partial_interpret_internal rebuild residuals" % arms_with, where=f.where(), fn=f.name)
    # a residual leaving the UnaryApp / Like / Is / HasAttr arms must have been rebuilt (never the bare child residual)
    L = shape.Labels(f, None, shape.variant_field_seed("ast::expr::ExprKind"),
                     call_labels=lambda c, t: (["CTOR"] if ctor(c, t) and ctor(c, t)[2:] not in SKIP else None))
    PV = CORE + "ast::partial_value::PartialValue"
    bare = []
    nres = 0
    for b, s in f.stmts():
        if s[0] == "a" and s[2][0] == "agg" and s[2][1][0] == "adt" and s[2][1][1] == PV and s[2][1][2] == "Residual":
            labs = L.operand_labels(s[2][2][0])
            nres += 1
            if "CTOR" not in labs:
                bare.append((s[3], sorted(labs)))
    chk.ob(rule, "residuals-are-rebuilt", not bare and nres >= 8,
           "%d PartialValue::Residual values are built in partial_interpret_internal; each wraps the result of an AST constructor%s" % (nres, "" if not bare else ", except %s (a bare child residual drops the operator)" % bare),
           where=f.where(bare[0][0] if bare else None), fn=f.name, key="%s:bare-residual" % rule, sample={"residual_values": nres})


def check_substitute(chk, facts, rule="C13.SUBST"):
    """Expr::substitute_general (behind substitute / substitute_typed, used by reauthorize): every arm rebuilds the same node kind with
    each child substituted in its own position, and every expression child of every variant goes through the recursive substitution."""
    from lib import traverse
    name = CORE + "ast::expr::Expr::substitute_general"
    f = get_fn(chk, facts, rule, name)
    if f is None:
        return
    bm = hom.builder_map(facts, AST_BUILDER, ("ast::expr::ExprKind",))
    ev = hom.arm_events(facts, f, "ast::expr::ExprKind", ctor)
    r = facts.adts.get(EXPRKIND)
    if ev is None or r is None:
        chk.lost(rule, "match on ExprKind in substitute_general")
        return
    total = 0
    for vi, arm in sorted(ev["arms"].items()):
        vn = r["variants"][vi]["name"]
        fields = [x[0] for x in r["variants"][vi]["fields"] if "ast::expr::Expr<" in x[1]]
        total += check_events(chk, rule, facts, f, vn, arm["events"], bm, fields)
    chk.floor(rule, "rebuilding constructor sites", total, 11)
    sink = lambda c, t: c == name
    traverse.check(chk, rule + ".traverse", facts, f, EXPRKIND, "ast::expr::ExprKind", ("ast::expr::Expr<", "Arc<cedar_policy_core::ast::expr::Expr", "ast::expr::Expr>"), sink, floor=12, name="substitute")
