"""C18 — symbolic compilation: the operator tables of the two compilers.

Decides a structural necessary condition of 'compilation agrees with evaluation': for every binary and
unary operator, compile_app2 / compile_app1 of BOTH compilers (symcc::compiler, symccopt::compiler) build the
term with the factory function that denotes that operator, on the operand terms in their definitional
positions (set_member(elem = right, set = left); set_subset(sub = right, sup = left); overflow predicate and
arithmetic operation of the same kind under if_false), and the two compilers agree operator by operator
(sibling cross-check). It does not decide the term factory's constant folding, the symbolizer, or that
verification conditions reduce to constants — those are value-level and stay undecided.
"""
from lib import cfg, shape
from lib.facts import callee
from lib.rulelib import get_fn, short
from rules.c02_ops import own_region

S = "cedar_policy_symcc::symcc::"
FACT = S + "factory::"
COMPILERS = [("symcc", S + "compiler::"), ("symccopt", "cedar_policy_symcc::symccopt::compiler::")]
BOP = "cedar_policy_core::ast::ops::BinaryOp"
UOP = "cedar_policy_core::ast::ops::UnaryOp"

# operator -> {factory / helper function: operand positions (labels per argument), None = not constrained}
APP2 = {
    "Eq": {"eq": ("T1", "T2")},
    "Less": {"bvslt": ("T1", "T2")},
    "LessEq": {"bvsle": ("T1", "T2")},
    "Add": {"bvsaddo": ("T1", "T2"), "bvadd": ("T1", "T2"), "if_false": None},
    "Sub": {"bvssubo": ("T1", "T2"), "bvsub": ("T1", "T2"), "if_false": None},
    "Mul": {"bvsmulo": ("T1", "T2"), "bvmul": ("T1", "T2"), "if_false": None},
    "Contains": {"set_member": ("T2", "T1")},
    "ContainsAll": {"set_subset": ("T2", "T1")},
    "ContainsAny": {"set_intersects": ("T1", "T2")},
    "In": {"compile_in_ent": ("T1", "T2"), "compile_in_set": ("T1", "T2")},
    "HasTag": {"compile_has_tag": ("T1", "T2")},
    "GetTag": {"compile_get_tag": ("T1", "T2")},
}
SYMMETRIC = {"set_intersects", "eq"}
APP1 = {"Not": {"not"}, "Neg": {"bvnego", "bvneg", "if_false"}, "IsEmpty": {"set_is_empty"}}
WRAPPERS = ("some_of", "ext_datetime_val", "ext_duration_val", "option_get", "if_some", "direct_footprint", "none_of", "ite")


def table_of(facts, chk, rule, prefix, which):
    """operator -> {function: [tuple of label sets per arg]} read from compile_app2 of one compiler"""
    f = get_fn(chk, facts, rule, prefix + "compile_app2")
    r = facts.adts.get(BOP)
    if f is None or r is None:
        return None, None
    # operand provenance by parameter position (no local names): 2nd / 3rd parameter are the left / right operand
    if f.nargs < 3:
        chk.lost(rule, "operand parameters of %s::compile_app2" % which)
        return None, None
    sws = sorted(shape.variant_switches(f, "ast::BinaryOp"), key=lambda s: -len(s[2]))
    if not sws:
        chk.lost(rule, "match on BinaryOp in %s::compile_app2" % which)
        return None, None
    b, scrut, arms, other = sws[0]
    L = shape.Labels(f, None, None, param_labels={2: {"T1"}, 3: {"T2"}})
    out = {}
    for vi, tgt in sorted(arms.items()):
        vn = r["variants"][vi]["name"]
        region = own_region(f, "ast::BinaryOp", b, arms, vi)
        tab = {}
        for bb in sorted(region):
            t = f.blocks[bb]["t"]
            if t[0] != "call":
                continue
            c = callee(t)
            last = c.split("::")[-1]
            if "{closure" in c:
                continue
            if c.startswith(FACT) or c.startswith(prefix + "compile_") or c.startswith(S + "compiler::compile_"):
                if last in WRAPPERS and last != "if_false":
                    continue
                labs = tuple(frozenset(x for x in L.operand_labels(o) if x in ("T1", "T2")) for o in t[2][:2])
                tab.setdefault(last, []).append(labs)
        out[vn] = tab
    return f, out


def app2(chk, facts):
    rule = "C18.TABLE.app2"
    tables = {}
    for which, prefix in COMPILERS:
        f, tab = table_of(facts, chk, rule, prefix, which)
        if tab is None:
            continue
        tables[which] = tab
        n = 0
        for vn, want in sorted(APP2.items()):
            got = tab.get(vn)
            probs = []
            if got is None:
                probs.append("no arm")
            else:
                extra = sorted(set(got) - set(want))
                missing = sorted(set(want) - set(got))
                if extra:
                    probs.append("also builds %s" % extra)
                if missing:
                    probs.append("does not build %s" % missing)
                for fn_, pos in want.items():
                    if pos is None:
                        continue
                    for labs in got.get(fn_, []):
                        ok = len(labs) >= 2 and labs[0] == {pos[0]} and labs[1] == {pos[1]}
                        if not ok and fn_ in SYMMETRIC:
                            ok = len(labs) >= 2 and labs[0] == {pos[1]} and labs[1] == {pos[0]}
                        if not ok:
                            probs.append("%s takes (%s), required (%s, %s)" % (fn_, ", ".join("".join(sorted(x)) or "-" for x in labs), pos[0], pos[1]))
            n += 1
            chk.ob(rule, "%s:%s" % (which, vn), not probs, "%s compiler, %s: %s" % (which, vn, "; ".join(probs) if probs else "built with %s on the operands in their definitional positions" % sorted(want)),
                   where=f.where(), fn=f.name, key="%s:%s:%s:%s" % (rule, which, vn, ";".join(probs)), sample={"compiler": which, "op": vn, "functions": {k: [[sorted(x) for x in l] for l in v] for k, v in (got or {}).items()}})
        chk.floor(rule, "%s operators" % which, n, 12)
    if len(tables) == 2:
        rule2 = "C18.SIBLING"
        a, b = tables["symcc"], tables["symccopt"]
        for vn in sorted(set(a) | set(b)):
            same = a.get(vn) == b.get(vn)
            chk.ob(rule2, vn, same, "the two compilers build %s %s" % (vn, "identically" if same else "differently: symcc %s vs symccopt %s" % (
                {k: [[sorted(x) for x in l] for l in v] for k, v in (a.get(vn) or {}).items()}, {k: [[sorted(x) for x in l] for l in v] for k, v in (b.get(vn) or {}).items()})),
                key="%s:%s" % (rule2, vn))


def app1(chk, facts):
    rule = "C18.TABLE.app1"
    r = facts.adts.get(UOP)
    tabs = {}
    for which, prefix in COMPILERS:
        f = get_fn(chk, facts, rule, prefix + "compile_app1")
        if f is None or r is None:
            continue
        sws = sorted(shape.variant_switches(f, "ast::UnaryOp"), key=lambda s: -len(s[2]))
        if not sws:
            chk.lost(rule, "match on UnaryOp in %s::compile_app1" % which)
            continue
        b, scrut, arms, other = sws[0]
        cl = {g.name: g for g in facts.closures_of(f.name)}
        tab = {}
        for vi, tgt in sorted(arms.items()):
            vn = r["variants"][vi]["name"]
            region = own_region(f, "ast::UnaryOp", b, arms, vi)
            fns = set()
            bodies = [(f, region)]
            for bb in sorted(region):
                for s in f.blocks[bb]["st"]:
                    if s[0] == "a" and s[2][0] == "agg" and s[2][1][0] == "closure" and s[2][1][1] in cl:
                        bodies.append((cl[s[2][1][1]], None))
            for g, reg in bodies:
                for bb, t in g.calls():
                    if reg is not None and bb not in reg:
                        continue
                    c = callee(t)
                    if c.startswith(FACT) and c.split("::")[-1] not in WRAPPERS or c.split("::")[-1] == "if_false" and c.startswith(FACT):
                        fns.add(c.split("::")[-1])
            tab[vn] = fns
            want = APP1.get(vn)
            chk.ob(rule, "%s:%s" % (which, vn), fns == want, "%s compiler, %s: built with %s (required %s)" % (which, vn, sorted(fns), sorted(want or [])), where=f.where(), fn=f.name,
                   key="%s:%s:%s" % (rule, which, vn))
        tabs[which] = tab
    if len(tabs) == 2:
        for vn in sorted(set(tabs["symcc"]) | set(tabs["symccopt"])):
            same = tabs["symcc"].get(vn) == tabs["symccopt"].get(vn)
            chk.ob("C18.SIBLING", "unary:" + vn, same, "the two compilers build unary %s %s" % (vn, "identically" if same else "differently"), key="C18.SIBLING:unary:%s" % vn)


COMPILE = {
    # ExprKind variant -> (helper, [field feeding each argument position, None = not an expression field])
    "Lit": ("compile_prim", ["0"]), "Var": ("compile_var", ["0"]),
    "If": ("compile_if", ["test_expr", "then_expr", "else_expr"]), "And": ("compile_and", ["left", "right"]), "Or": ("compile_or", ["left", "right"]),
    "UnaryApp": ("compile_app1", ["op", "arg"]), "BinaryApp": ("compile_app2", ["op", "arg1", "arg2"]),
    "HasAttr": ("compile_has_attr", ["expr", "attr"]), "GetAttr": ("compile_get_attr", ["expr", "attr"]),
    "Like": ("compile_like", ["expr", "pattern"]), "Is": ("compile_is", ["expr", "entity_type"]),
    "Set": ("compile_set", ["0"]), "Record": ("compile_record", ["0"]), "ExtensionFunctionApp": ("compile_call", ["fn_name", "args"]),
}


def compile_arms(chk, facts):
    """compile(): every node kind is handed to its own helper with its children (compiled) in position."""
    from lib import hom
    rule = "C18.HOM.compile"
    r = facts.adts.get("cedar_policy_core::ast::expr::ExprKind")
    tabs = {}
    for which, prefix in COMPILERS:
        f = get_fn(chk, facts, rule, prefix + "compile")
        if f is None or r is None:
            continue

        def ctor(c, t, prefix=prefix):
            for p in (prefix, S + "compiler::"):
                if c.startswith(p + "compile_") and "{closure" not in c:
                    return c[len(p):]
            return None
        ev = hom.arm_events(facts, f, "ast::ExprKind", ctor)
        if ev is None:
            chk.lost(rule, "match on ExprKind in %s::compile" % which)
            continue
        tab = {}
        n = 0
        for vi, arm in sorted(ev["arms"].items()):
            vn = r["variants"][vi]["name"]
            if vn not in COMPILE:
                continue
            helper, fields = COMPILE[vn]
            evs = [e for e in arm["events"] if e["ctor"] == helper]
            others = sorted({e["ctor"] for e in arm["events"] if e["ctor"] != helper and e["ctor"] in {h for h, _ in COMPILE.values()}})
            probs = []
            if len(evs) != 1:
                probs.append("calls %s %d time(s)" % (helper, len(evs)))
            if others:
                probs.append("also calls %s" % others)
            pos = []
            for e in evs[:1]:
                for i, fld in enumerate(fields):
                    labs = {x for x in e["args"][i] if x.startswith(vn + ".")} if i < len(e["args"]) else set()
                    pos.append(sorted(labs))
                    if labs != {"%s.%s" % (vn, fld)}:
                        probs.append("argument %d is fed from %s, required %s.%s" % (i, sorted(labs), vn, fld))
            tab[vn] = pos
            n += 1
            chk.ob(rule, "%s:%s" % (which, vn), not probs, "%s compiler, %s -> %s%s" % (which, vn, helper, (": " + "; ".join(probs)) if probs else " with its children in position"),
                   where=f.where(evs[0]["line"] if evs else None), fn=f.name, key="%s:%s:%s:%s" % (rule, which, vn, ";".join(probs)))
        chk.floor(rule, "%s node kinds" % which, n, 14)
        tabs[which] = tab
    if len(tabs) == 2:
        for vn in sorted(set(tabs["symcc"]) | set(tabs["symccopt"])):
            same = tabs["symcc"].get(vn) == tabs["symccopt"].get(vn)
            chk.ob("C18.SIBLING", "node:" + vn, same, "the two compilers hand %s to its helper %s" % (vn, "identically" if same else "differently"), key="C18.SIBLING:node:%s" % vn)


def _bool_const(f, o, depth=6):
    """the boolean literal an operand is built from through some_of / into / from, else None"""
    from lib import panics
    defs = panics._def_sites(f)
    for _ in range(depth):
        if o[0] == "k":
            return o[1].get("v") if o[1].get("t") == "bool" else None
        ds = defs.get(o[1][0], [])
        if len(ds) != 1:
            return None
        kind, b, x = ds[0]
        if kind == "call":
            if callee(x).split("::")[-1] in ("some_of", "into", "from") and x[2]:
                o = x[2][0]
                continue
            return None
        if x[2][0] == "use":
            o = x[2][1]
            continue
        return None
    return None


def connectives(chk, facts):
    """compile_and / compile_or / compile_if: the guard selects the right branch, the short-circuit constant is the right one."""
    rule = "C18.TABLE.ite"
    want = {"compile_and": ("T1", "T2", 0), "compile_or": ("T1", 1, "T2"), "compile_if": ("T1", "T2", "T3")}
    tabs = {}
    for which, prefix in COMPILERS:
        for fn_, spec in want.items():
            f = facts.fn(prefix + fn_)
            if f is None:
                chk.lost(rule, prefix + fn_)
                continue
            chk.functions.add(f.name)
            val = {}
            for n, p in f.r["dbg"]:
                if len(p) == 1 and 1 <= p[0] <= f.nargs:
                    val[p[0]] = "T%d" % p[0]
            L = shape.Labels(f, None, lambda p, val=val: [val[p[0]]] if p[0] in val else [])
            ites = [(b, t) for b, t in f.calls() if callee(t) == FACT + "ite"]
            got = []
            for b, t in ites:
                row = []
                for o in t[2][:3]:
                    c = _bool_const(f, o)
                    labs = {x for x in L.operand_labels(o) if x in ("T1", "T2", "T3")}
                    row.append(c if c is not None and not labs else "".join(sorted(labs)))
                got.append(tuple(row))
            ok = len(got) == 1 and got[0] == spec
            tabs[(which, fn_)] = got
            chk.ob(rule, "%s:%s" % (which, fn_), ok, "%s::%s builds ite%s; required ite%s" % (which, fn_, got, (spec,)), where=f.where(ites[0][1][1].get("l") if ites else None), fn=f.name,
                   key="%s:%s:%s" % (rule, which, fn_), sample={"fn": fn_, "ite": [list(map(str, g)) for g in got]})
            # the guard is also the definedness condition: if_some(t1, ..)
            ifs = [(b, t) for b, t in f.calls() if callee(t) == FACT + "if_some"]
            okg = bool(ifs) and all({x for x in L.operand_labels(t[2][0]) if x in ("T1", "T2", "T3")} == {"T1"} for b, t in ifs)
            chk.ob(rule, "%s:%s:defined" % (which, fn_), okg, "%s::%s is undefined exactly when its first operand is (if_some on T1): %s" % (which, fn_, okg), where=f.where(), fn=f.name)


def _sat_predicates(f):
    """[(constant compared with, negated?)] for every factory eq(_, some_of(<bool>)) in f"""
    out = []
    L = shape.Labels(f, None, None, call_labels=lambda c, t: ["EQ"] if c.split("::")[-1] == "eq" and ("factory" in c or "term_factory" in c) else None)
    nots = [t for _, t in f.calls() if callee(t).split("::")[-1] == "not" and ("factory" in callee(t)) and "EQ" in L.operand_labels(t[2][0])]
    for b, t in f.calls():
        c = callee(t)
        if c.split("::")[-1] == "eq" and "factory" in c and len(t[2]) >= 2:
            k = _bool_const(f, t[2][1])
            if k is None:
                k = _bool_const(f, t[2][0])
            out.append((k, bool(nots)))
    return out


def authorizer(chk, facts):
    """The symbolic authorizer: allowed = (some permit is some(true)) and not (some forbid is some(true)); a singleton permit set
    allows iff the policy is some(true) — an erroring (none) policy is not satisfied, as in the concrete authorizer."""
    rule = "C18.AUTH"
    SY = "cedar_policy_symcc::"
    for mod in ("symcc::authorizer::", "symccopt::authorizer::"):
        f = facts.fn(SY + mod + "is_authorized")
        if f is None:
            chk.lost(rule, SY + mod + "is_authorized")
            continue
        chk.functions.add(f.name)
        eff = facts.adts.get("cedar_policy_core::ast::policy::Effect")
        # which effect feeds which side
        calls = [(b, t) for b, t in f.calls() if callee(t).endswith("authorizer::satisfied_policies")]
        side = {}
        for b, t in calls:
            o = t[2][0]
            v = None
            if o[0] == "k":
                v = o[1].get("v")
            else:
                for bb, s_ in f.stmts():
                    if s_[0] == "a" and s_[1] == o[1] and s_[2][0] == "agg" and s_[2][1][0] == "adt":
                        v = s_[2][1][2]
            side[t[3][0]] = v
        L = shape.Labels(f, None, lambda p: ["R%d" % p[0]] if p[0] in side else [])
        ands = [(b, t) for b, t in f.calls() if callee(t).split("::")[-1] == "and" and "factory" in callee(t)]
        nots = [(b, t) for b, t in f.calls() if callee(t).split("::")[-1] == "not" and "factory" in callee(t)]
        ok = False
        det = "no and(permits, not(forbids))"
        if len(ands) == 1 and len(nots) == 1:
            neg_src = {side.get(int(x[1:])) for x in L.operand_labels(nots[0][1][2][0]) if x.startswith("R")}
            a0 = {side.get(int(x[1:])) for x in L.operand_labels(ands[0][1][2][0]) if x.startswith("R")}
            ok = neg_src == {"Forbid"} and a0 == {"Permit"}
            det = "and(%s, not(%s))" % (sorted(map(str, a0)), sorted(map(str, neg_src)))
        chk.ob(rule, mod + "is_authorized", ok, "symbolic decision term is %s; required and(permits, not(forbids))" % det, where=f.where(), fn=f.name, key="%s:%sis_authorized" % (rule, mod))
        g = facts.fn(SY + mod + "satisfied_policies")
        if g is None:
            chk.lost(rule, SY + mod + "satisfied_policies")
            continue
        preds = []
        for body in [g] + facts.closures_of(g.name):
            preds += _sat_predicates(body)
        okp = preds == [(1, False)]
        chk.ob(rule, mod + "satisfied", okp, "a policy counts as satisfied iff its term equals some(true) (found %s)" % preds, where=g.where(), fn=g.name, key="%s:%ssatisfied" % (rule, mod))
    h = facts.fn(SY + "symccopt::compiled_policies::CompiledPolicy::into_compiled_policyset")
    if h is None:
        chk.lost(rule, "CompiledPolicy::into_compiled_policyset")
    else:
        chk.functions.add(h.name)
        preds = _sat_predicates(h)
        chk.ob(rule, "singleton", preds == [(1, False)], "a singleton permit set allows iff the policy's term equals some(true) — the same predicate as satisfied_policies (found %s)" % preds, where=h.where(), fn=h.name,
               key="%s:singleton" % rule)


def typed_sets(chk, facts):
    """SymEntityData::of_action_type: the ancestor function for ancestor type A maps an action to the set of its ancestors OF TYPE A:
    every typed set term is filtered by its own element type, and every function table agrees with its declared argument / result types."""
    from lib import xlabels
    rule = "C18.ENV"
    name = "cedar_policy_symcc::symcc::env::SymEntityData::of_action_type"
    f = get_fn(chk, facts, rule, name)
    if f is None:
        return
    n = 0
    for g, L in xlabels.bodies_with_labels(facts, f, None, param_labels={1: {"ACT"}, 2: {"ANCS"}}):
        for b, s_ in g.stmts():
            if s_[0] != "a" or s_[2][0] != "agg" or s_[2][1][0] != "adt":
                continue
            adt, var, names = s_[2][1][1], s_[2][1][2], s_[2][1][3]
            labs = {nm: {x for x in L.operand_labels(o) if x in ("ACT", "ANCS")} for nm, o in zip(names or [], s_[2][2])}
            if adt.endswith("term::Term") and var == "Set":
                if labs.get("elts"):
                    n += 1
                    ok = labs["elts"] == labs.get("elts_ty")
                    chk.ob(rule, "set@%s:L%s" % (g.name.split("::")[-1], s_[3]), ok, "a set term of element type <%s> is filled with elements selected by type <%s>" % ("/".join(sorted(labs.get("elts_ty", []))), "/".join(sorted(labs["elts"]))),
                           where=g.where(s_[3]), fn=g.name, key="%s:set:%s" % (rule, g.name.split("::")[-1]))
            if adt.endswith("function::Udf"):
                if labs.get("out") or labs.get("default"):
                    n += 1
                    ok = labs.get("out") == labs.get("default") and labs.get("arg", set()) <= labs.get("table", set()) | labs.get("arg", set()) and (not labs.get("table") or labs.get("out", set()) <= labs["table"])
                    chk.ob(rule, "udf@%s:L%s" % (g.name.split("::")[-1], s_[3]), ok, "function table: arg <%s>, out <%s>, default <%s>, entries <%s>" % tuple("/".join(sorted(labs.get(k, []))) for k in ("arg", "out", "default", "table")),
                           where=g.where(s_[3]), fn=g.name, key="%s:udf:%s" % (rule, g.name.split("::")[-1]))
    chk.floor(rule, "typed terms in of_action_type", n, 2)


def run(chk, facts, tier):
    facts.load_crate("cedar_policy_symcc.lib")
    facts.load_crate("cedar_policy_core.lib")
    chk.explanation = (
        "Static decision of one structural necessary condition of 'symbolic compilation agrees with evaluation' on the current MIR: (TABLE.app2 / TABLE.app1) in both compilers "
        "(symcc::compiler and symccopt::compiler) every binary and unary operator is compiled with the term-factory function that denotes it, on the operand terms in their "
        "definitional positions (set_member(right, left), set_subset(right, left), overflow predicate and arithmetic of the same kind); (SIBLING) the two compilers agree operator "
        "by operator. Declines the factory's constant folding, the symbolizer / concretizer and the reduction of verification conditions to constants (value-level).")
    chk.assumptions = ["the factory functions denote the SMT operations they are named after (set_member(elem, set), set_subset(sub, sup))", "MIR at mir-opt-level=0 reflects source control flow"]
    app2(chk, facts)
    app1(chk, facts)
    compile_arms(chk, facts)
    connectives(chk, facts)
    authorizer(chk, facts)
    typed_sets(chk, facts)
    from rules import c18_verify
    c18_verify.check(chk, facts)
    c18_verify.namesake(chk, facts)
    c18_verify.unsat_table(chk, facts)
