"""C20 — no panics: panic-site inventory with guard contexts, lint wall,
operator-dispatch guards, recursion-depth guards.

Decides: (PANIC) every panic-capable terminator in non-generated, non-derive
library MIR of cedar-policy-core, cedar-policy and cedar-policy-formatter is
covered by an entry of the frozen inventory with the same structural
fingerprint whose recorded dominating guards are all still present;
(LINTWALL) the workspace still denies the panic lints and every member opts in;
(DISPATCH) callers of operator helpers with an `unreachable!` arm constrain the
operator to the handled set; (DEPTH) recursive interpreters pass a stack-depth
guard before recursing. Declines: stack exhaustion beyond the guard, allocation
failure, panics inside third-party crates other than the listed APIs.
"""
import json
import os
import re

from lib import panics, cfg
from lib.facts import callee
from lib.rulelib import get_fn, short

ROOT = os.path.dirname(os.path.dirname(os.path.abspath(__file__)))
UNITS = ["cedar_policy_core.lib", "cedar_policy.lib", "cedar_policy_formatter.lib"]
REPO = os.environ.get("CEDAR_REPO", "/repo")


ARITH_ASSERTS = ("assert:overflow", "assert:remzero", "assert:divzero")


def interval_proved(f):
    """{(block, assert kind): True} for the arithmetic asserts of f that the interval analysis proves unreachable."""
    from lib import interval
    if len(f.blocks) > 400:
        return {}
    try:
        a = interval.Analysis(f, max_paths=512).run()
    except interval.Unsupported:
        return {}
    except Exception:
        return {}
    return {k: v for k, v in a.asserts.items() if v}


def current_sites(facts, units=UNITS):
    out = []
    stats = {"functions": 0, "derive_fns": 0, "generated_fns": 0}
    for u in units:
        facts.load_crate(u)
        for name in facts.unit_fns(u):
            gen, kind, root, ti, file, line = facts.fns.meta(name)
            if gen:
                stats["generated_fns"] += 1
                continue
            if panics.is_derive(facts.fns.fnmac(name)):
                stats["derive_fns"] += 1
                continue
            f = facts.fns[name]
            stats["functions"] += 1
            proved = None
            for s in panics.sites(f):
                if panics.is_derive(s["mac"]):
                    continue
                if s["kind"].startswith(ARITH_ASSERTS):
                    # discharged by idiom, re-proved on every run: interval abstract interpretation of the function proves
                    # that the overflow / zero-divisor assert cannot fire on any feasible path (lib/interval.py)
                    if proved is None:
                        proved = interval_proved(f)
                    if proved.get((s["block"], s["kind"][len("assert:"):])):
                        stats["asserts_discharged_by_intervals"] = stats.get("asserts_discharged_by_intervals", 0) + 1
                        continue
                s["fn"] = name
                s["guards"] = panics.guards(f, s["block"])
                out.append(s)
    return out, stats


def match_group(sites, entries):
    """Bipartite matching: site i may use entry j if entry.guards ⊆ site.guards.
    Entries have multiplicities. Returns list of unmatched site indices."""
    slots = []
    for j, e in enumerate(entries):
        g = frozenset(tuple(x) for x in e["guards"])
        for _ in range(e["count"]):
            slots.append(g)
    adj = []
    for s in sites:
        adj.append([k for k, g in enumerate(slots) if g <= s["guards"]])
    match_slot = {}

    def try_assign(i, seen):
        for k in adj[i]:
            if k in seen:
                continue
            seen.add(k)
            if k not in match_slot or try_assign(match_slot[k], seen):
                match_slot[k] = i
                return True
        return False
    # sites with fewer options first
    order = sorted(range(len(sites)), key=lambda i: len(adj[i]))
    unmatched = []
    for i in order:
        if not try_assign(i, set()):
            unmatched.append(i)
    return unmatched, len(slots)


def panic_inventory(chk, facts):
    rule = "C20.PANIC"
    p = os.path.join(ROOT, "tables", "panic_inventory.json")
    try:
        inv = json.load(open(p))
    except OSError:
        chk.lost(rule, "tables/panic_inventory.json")
        return
    by_fp = {}
    cfgname = getattr(facts, "config", "E")
    for e in inv["entries"]:
        # an entry is available in the build configurations it was confirmed in, with that configuration's multiplicity
        n = e.get("counts", {"E": e["count"]}).get(cfgname, 0)
        if n:
            by_fp.setdefault(e["fp"], []).append(dict(e, count=n))
    sites, stats = current_sites(facts)
    groups = {}
    for s in sites:
        groups.setdefault(panics.fingerprint(s), []).append(s)
    n_match = 0
    n_bad = 0
    for fp, ss in sorted(groups.items()):
        entries = by_fp.get(fp, [])
        unmatched, nslots = match_group(ss, entries)
        n_match += len(ss) - len(unmatched)
        for i in unmatched:
            s = ss[i]
            n_bad += 1
            if not entries:
                why = "no inventory entry has this fingerprint: a new panic-capable site"
            else:
                missing = []
                for e in entries:
                    g = frozenset(tuple(x) for x in e["guards"])
                    missing.append(sorted(g - s["guards"]))
                missing.sort(key=len)
                why = ("inventory knows %d site(s) with this fingerprint, but none whose recorded guards all still dominate this one "
                       "(closest entry lacks guard(s) %s): a guard was removed, or one more such site was added" % (nslots, missing[0][:3]))
            chk.ob(rule, "site:%s" % fp[:90], False,
                   "panic-capable site `%s` in %s — %s" % (fp, short(s["fn"]), why),
                   where="%s:%s" % (s["file"], s["line"]),
                   key="%s:%s:%s" % (rule, fp, ";".join("%s=%s" % g for g in sorted(s["guards"]))),
                   fn=s["fn"])
    kinds = {}
    for s in sites:
        kinds[s["kind"]] = kinds.get(s["kind"], 0) + 1
    chk.ob(rule, "inventory-cover", n_bad == 0,
           "%d panic-capable sites in %d hand-written functions (%d derive-generated and %d build-generated bodies exempt as classes); "
           "%d covered by the frozen inventory (%d entries), %d not covered" % (
               len(sites), stats["functions"], stats["derive_fns"], stats["generated_fns"], n_match, len(inv["entries"]), n_bad),
           sample={"sites_by_kind": kinds, "stats": stats})
    # a few concrete samples of covered sites
    for s in sites[:: max(1, len(sites) // 6)][:6]:
        chk.ob(rule, "covered:%s@%s" % (s["kind"], short(s["fn"])[-60:]), True, "covered", where="%s:%s" % (s["file"], s["line"]),
               sample={"fingerprint": panics.fingerprint(s), "guards": sorted(map(list, s["guards"]))[:6], "fn": short(s["fn"])})
    chk.floor(rule, "functions scanned", stats["functions"], 5000)
    chk.floor(rule, "sites found", len(sites), 400)
    chk.extra["panic_sites"] = len(sites)
    chk.extra["panic_sites_by_kind"] = kinds
    return sites


DENY = ["unwrap_used", "expect_used", "unreachable", "indexing_slicing", "string_slice", "panic", "todo", "unimplemented"]
MEMBERS = ["cedar-policy", "cedar-policy-core", "cedar-policy-formatter", "cedar-policy-cli"]


def lintwall(chk):
    rule = "C20.LINTWALL"
    try:
        txt = open(os.path.join(REPO, "Cargo.toml")).read()
    except OSError:
        chk.lost(rule, "Cargo.toml")
        return
    m = re.search(r"\[workspace\.lints\.clippy\](.*?)(\n\[|\Z)", txt, re.S)
    sect = m.group(1) if m else ""
    for l in DENY:
        mm = re.search(r"^\s*%s\s*=\s*(.+)$" % re.escape(l), sect, re.M)
        val = mm.group(1) if mm else None
        ok = val is not None and "deny" in val.split("#")[0] or (val is not None and "forbid" in val.split("#")[0])
        chk.ob(rule, "deny:" + l, bool(ok), "workspace clippy lint %s = %s (must be deny: each escape then needs a reasoned #[expect])" % (l, val),
               where="Cargo.toml", sample={"lint": l, "level": val})
    for mem in MEMBERS:
        try:
            t = open(os.path.join(REPO, mem, "Cargo.toml")).read()
        except OSError:
            chk.lost(rule, mem + "/Cargo.toml")
            continue
        mm = re.search(r"\[lints\]\s*\n\s*workspace\s*=\s*true", t)
        chk.ob(rule, "member:" + mem, bool(mm), "%s opts into the workspace lints: %s" % (mem, bool(mm)), where=mem + "/Cargo.toml")
    rel = re.search(r"\[profile\.release\](.*?)(\n\[|\Z)", txt, re.S)
    ok = bool(rel and re.search(r"overflow-checks\s*=\s*true", rel.group(1)))
    chk.ob(rule, "release-overflow-checks", ok, "release profile keeps overflow-checks = true (raw arithmetic is a panic, not a wrong value): %s" % ok, where="Cargo.toml")


def dispatch(chk, facts):
    """Callers of binary_relation / binary_arith restrict `op` to the set the callee handles."""
    rule = "C20.GUARD.dispatch"
    n = 0
    for helper in ("cedar_policy_core::evaluator::binary_relation", "cedar_policy_core::evaluator::binary_arith"):
        h = get_fn(chk, facts, rule, helper)
        if h is None:
            continue
        # variants of `op` that reach the unreachable! arm
        bad_vals = None
        for s in panics.sites(h):
            if s["kind"] == "panic" and s["detail"].startswith("unreachable"):
                for d, taken in panics.guards(h, s["block"]):
                    if d.startswith("disc:BinaryOp"):
                        bad_vals = set(taken.split(","))
        if bad_vals is None:
            chk.ob(rule, "callee:" + short(helper), True, "no unreachable! arm on `op` in %s: nothing to guard" % short(helper), where=h.where(), fn=helper)
            continue
        adt = facts.adts.get("cedar_policy_core::ast::ops::BinaryOp")
        nvar = len(adt["variants"]) if adt else 0
        handled = {str(i) for i in range(nvar)} - bad_vals
        for u in ("cedar_policy_core.lib",):
            for name in facts.unit_fns(u):
                gen, kind, root, ti, file, line = facts.fns.meta(name)
                if gen or not file.endswith(("evaluator.rs",)):
                    continue
                f = facts.fns[name]
                for b, t in f.calls():
                    if callee(t) != helper:
                        continue
                    gs = panics.guards(f, b)
                    ok = False
                    seen = None
                    for d, taken in gs:
                        if d.startswith("disc:BinaryOp"):
                            tv = set(taken.split(","))
                            seen = tv
                            if "else" not in tv and tv <= handled:
                                ok = True
                    n += 1
                    names = [v["name"] for v in adt["variants"]] if adt else []
                    chk.ob(rule, "%s<-%s" % (helper.split("::")[-1], short(name)[-50:]), ok,
                           "call of %s is dominated by a switch restricting op to %s; handled set is %s" % (
                               helper.split("::")[-1], sorted(seen) if seen else None, sorted(handled)),
                           where=f.where(t[1].get("l")), fn=name,
                           sample={"caller": short(name), "op_values": sorted(seen) if seen else None,
                                   "handled": [names[int(i)] for i in sorted(handled, key=int)] if names else sorted(handled)})
    chk.floor(rule, "guarded call sites", n, 4)


DEPTH = [
    ("cedar_policy_core::evaluator::Evaluator::partial_interpret", "evaluator::stack_size_check", "Evaluator::partial_interpret_internal"),
    ("cedar_policy_core::evaluator::RestrictedEvaluator::partial_interpret", "evaluator::stack_size_check", "RestrictedEvaluator::partial_interpret_internal"),
    ("cedar_policy_core::tpe::evaluator::Evaluator::interpret", "evaluator::stack_size_check", "tpe::evaluator::Evaluator::interpret"),
    ("cedar_policy_core::validator::typecheck::SingleEnvTypechecker::typecheck", "stacker::remaining_stack", "SingleEnvTypechecker::typecheck"),
]


def depth(chk, facts):
    """The recursive call (direct, or through closures of the same function) is only
    reachable after the stack guard has been consulted and passed."""
    rule = "C20.DEPTH"
    n = 0
    for fn_name, guard, rec in DEPTH:
        f = get_fn(chk, facts, rule, fn_name)
        if f is None:
            continue
        gblocks = [b for b, t in f.calls() if callee(t).endswith(guard)]
        if not gblocks:
            chk.ob(rule, short(fn_name), False, "no call of %s in %s" % (guard, short(fn_name)), where=f.where(), fn=fn_name)
            continue
        # every recursion site (call of `rec`, or construction of a closure that calls it) must be dominated by the guard
        sites = []
        for b, t in f.calls():
            if callee(t).endswith(rec):
                sites.append((b, t[1].get("l")))
        clos = {c.name for c in facts.closures_of(fn_name) if any(callee(t).endswith(rec) for _, t in c.calls())}
        for b, s in f.stmts():
            if s[0] == "a" and s[2][0] == "agg" and s[2][1][0] == "closure" and s[2][1][1] in clos:
                sites.append((b, s[3]))
        bad = [(b, l) for b, l in sites if not any(cfg.dominates(f, g, b) and g != b for g in gblocks)]
        # and the guard's failure edge must leave without recursing: the guard result feeds a switch
        n += 1
        chk.ob(rule, short(fn_name), bool(sites) and not bad,
               "%d recursion site(s) in %s, all dominated by the %s guard: %s" % (len(sites), short(fn_name), guard.split("::")[-1], not bad),
               where=f.where(bad[0][1] if bad else None), fn=fn_name,
               sample={"fn": short(fn_name), "guard": guard, "recursion_sites": len(sites)})
    chk.floor(rule, "guarded recursive interpreters", n, 4)
    g = get_fn(chk, facts, rule, "cedar_policy_core::evaluator::stack_size_check")
    if g is not None:
        cs = [callee(t) for _, t in g.calls()]
        ok = any(c.endswith("stacker::remaining_stack") for c in cs) and any(
            s[0] == "a" and s[2][0] == "agg" and s[2][1][0] == "adt" and s[2][1][2] == "Err" for _, s in g.stmts()) or any("recursion_limit" in c for c in cs)
        chk.ob(rule, "stack_size_check", ok, "stack_size_check consults stacker::remaining_stack and can fail with a recursion-limit error: %s" % ok,
               where=g.where(), fn=g.name)


def _root_local(f, operand, depth=8):
    """Local a reference operand ultimately points into (through refs, copies, deref-like calls)."""
    defs = panics._def_sites(f)
    o = operand
    for _ in range(depth):
        if o[0] not in ("c", "m"):
            return None
        l = o[1][0]
        if 1 <= l <= f.nargs:
            return l
        ds = defs.get(l, [])
        if len(ds) != 1:
            return l
        kind, b, x = ds[0]
        if kind == "st":
            rv = x[2]
            if rv[0] in ("ref", "addr"):
                o = ["c", [rv[1][0]]]
                if not [e for e in rv[1][1:] if e != "*"]:
                    continue
                return rv[1][0]
            if rv[0] in ("use", "cast"):
                o = rv[1] if rv[0] == "use" else rv[2]
                continue
            return l
        c = callee(x)
        if c.endswith(("::deref", "::deref_mut", "::as_ref", "::as_mut", "::as_slice", "::as_mut_slice", "::borrow", "::as_str")) and x[2]:
            o = x[2][0]
            continue
        return l
    return None


def index_len(chk, facts):
    """Idiom re-proved on every run: when an index is derived from a length, it is the length of the
    container being indexed (or of what the container was sized with)."""
    rule = "C20.INDEX.len"
    from lib import shape
    n = 0
    held = 0
    try:
        exc = json.load(open(os.path.join(ROOT, "tables", "index_len_exceptions.json")))
    except OSError:
        exc = {}
    used = {}
    for u in UNITS:
        facts.load_crate(u)
        for name in facts.unit_fns(u):
            gen, kind, root, ti, file, line = facts.fns.meta(name)
            if gen or panics.is_derive(facts.fns.fnmac(name)):
                continue
            f = facts.fns[name]
            idx_sites = [(b, t) for b, t in f.calls() if (t[1].get("o") or "") in ("std::ops::Index::index", "std::ops::IndexMut::index_mut")
                         and ("Vec<" in callee(t) or "[T]" in callee(t) or "impl std::ops::Index<I> for str" in callee(t) or "String" in callee(t))]
            if not idx_sites:
                continue

            def cl(c, t, f=f):
                if c.endswith(("::len", "::count")) and t[2]:
                    r = _root_local(f, t[2][0])
                    return ["LEN:_%s" % r] if r is not None else None
                return None
            L = shape.Labels(f, None, None, call_labels=cl)
            for b, t in idx_sites:
                if len(t[2]) < 2:
                    continue
                I = {x for x in L.operand_labels(t[2][1]) if x.startswith("LEN:")}
                if not I:
                    continue
                croot = _root_local(f, t[2][0])
                C = {x for x in L.operand_labels(t[2][0]) if x.startswith("LEN:")}
                if croot is not None:
                    C.add("LEN:_%s" % croot)
                    C |= {x for x in L.lab.get(croot, set()) if x.startswith("LEN:")}
                ok = I <= C
                n += 1
                if not ok and name in exc and used.get(name, 0) < exc[name]["count"]:
                    used[name] = used.get(name, 0) + 1
                    held += 1
                    chk.ob(rule, "%s@L%s" % (short(name)[-50:], t[1].get("l")), True,
                           "index bounded by the length of another value; reviewed exception: %s" % exc[name]["why"], where=f.where(t[1].get("l")), fn=name,
                           sample={"fn": short(name), "exception": exc[name]["why"]})
                    continue
                held += ok
                if not ok or n <= 6:
                    chk.ob(rule, "%s@L%s" % (short(name)[-50:], t[1].get("l")), ok,
                           "index derives from length(s) %s; the indexed container is sized by %s%s" % (sorted(I), sorted(C), "" if ok else
                                                                                                       " — a length of a DIFFERENT value bounds this index (out-of-bounds when the two lengths differ)"),
                           where=f.where(t[1].get("l")), fn=name, key="%s:%s" % (rule, name), sample={"fn": short(name), "index_lengths": sorted(I), "container_lengths": sorted(C)})
    chk.ob(rule, "summary", held == n, "%d length-derived index sites; %d index a container sized by the same length" % (n, held), sample={"sites": n, "held": held})
    chk.floor(rule, "length-derived index sites", n, 3)


UNICODE_CLASSES = ("\\d", "\\w", "\\s", "\\p{", "\\D", "\\W")


def regex_digits(chk, facts):
    """`capture.parse::<int>().unwrap()` is infallible only if the regex admits ASCII digits only."""
    rule = "C20.REGEX.digits"
    n = 0
    for u in UNITS:
        facts.load_crate(u)
        for name in facts.unit_fns(u):
            gen, kind, root, ti, file, line = facts.fns.meta(name)
            if gen or panics.is_derive(facts.fns.fnmac(name)):
                continue
            f = facts.fns[name]
            parse_unwraps = [s for s in panics.sites(f) if s["kind"] in ("unwrap", "expect") and "str>::parse" in s["detail"]]
            if not parse_unwraps:
                continue
            base = f.root or name
            bodies = [facts.fns[base]] + facts.closures_of(base) if base in facts.fns else [f]
            statics = set()
            for g in bodies:
                for _, s in g.stmts():
                    if s[0] == "a":
                        for o in (s[2][2] if s[2][0] == "agg" else [s[2][1]] if s[2][0] in ("use",) else []):
                            if isinstance(o, list) and o[0] == "k" and "static" in o[1]:
                                statics.add(o[1]["static"])
            for st in sorted(statics):
                rec = facts.statics.get(st)
                if not rec or "regex::Regex" not in rec["ty"]:
                    continue
                init = facts.fn(st + "::{closure#0}")
                pat = None
                if init is not None:
                    for _, t in init.calls():
                        for o in t[2]:
                            if o[0] == "k" and "s" in o[1]:
                                pat = o[1]["s"]
                    for _, s in init.stmts():
                        if s[0] == "a" and s[2][0] == "use" and s[2][1][0] == "k" and "s" in s[2][1][1] and pat is None:
                            pat = s[2][1][1]["s"]
                if pat is None:
                    continue
                bad = [c for c in ("\\d", "\\w", "\\p{", "\\pN") if c.replace("\\\\", "\\") in pat] if False else [c for c in ("\\d", "\\w", "\\p{") if c in pat]
                ascii_only = "(?-u" in pat
                n += 1
                chk.ob(rule, "%s<-%s" % (short(base)[-40:], st.split("::")[-1]), not bad or ascii_only,
                       "%s unwraps integer parses of captures of %s = /%s/; %s" % (short(base), st.split("::")[-1], pat,
                                                                                 "all digit classes are ASCII" if (not bad or ascii_only) else
                                                                                 "class %s also matches non-ASCII digits, on which str::parse fails and the unwrap panics" % bad),
                       where=f.where(parse_unwraps[0]["line"]), fn=name, key="%s:%s:%s" % (rule, base, st), sample={"fn": short(base), "regex": st.split("::")[-1], "pattern": pat})
    chk.floor(rule, "regex-guarded integer parses", n, 3)


def run(chk, facts, tier):
    chk.explanation = (
        "Static panic-freedom discipline on the current MIR of cedar-policy-core, cedar-policy and cedar-policy-formatter: "
        "(PANIC) every panic-capable terminator (panic!/unreachable!/assert!, unwrap/expect, Index, listed panicking std/chrono APIs, and "
        "Assert terminators for bounds / overflow / division) in hand-written code is matched (maximum bipartite matching per structural "
        "fingerprint: kind, producer of the unwrapped value / container and index type / message literal, no line numbers or function names) "
        "against the frozen inventory, and the dominating conditional guards recorded for the inventory entry must all still dominate the site — "
        "so a new site or a removed guard is reported; derive-generated and build-generated (LALRPOP/prost) bodies are exempt as classes; "
        "(LINTWALL) the workspace still denies the eight panic lints, members opt in, release keeps overflow checks; (DISPATCH) callers of "
        "binary_relation/binary_arith restrict `op` to the handled set; (DEPTH) recursive interpreters consult the stack guard before recursing. "
        "Decides these clauses; it does not prove each inventoried invariant, nor stack/allocation exhaustion.")
    chk.assumptions = ["each inventoried site carries an upstream #[expect(clippy::...)] justification enforced by the lint wall (LINTWALL)",
                       "MIR at mir-opt-level=0 reflects source control flow; debug assertions are compiled out (release semantics)",
                       "third-party crates do not panic on the values passed, except the APIs listed in lib/panics.py STD_PANICKY"]
    panic_inventory(chk, facts)
    lintwall(chk)
    facts.load_crate("cedar_policy_core.lib")
    dispatch(chk, facts)
    depth(chk, facts)
    index_len(chk, facts)
    regex_digits(chk, facts)
    # the inventoried `expect`s of template linking rely on the AST and the JSON copy of a policy naming the same slots: the JSON
    # conversion accepts a slot only in its own role (C06.GUARD.slot, shared)
    from rules import c06_slot_guard
    c06_slot_guard.check(chk, facts)
