"""C13 — partial evaluation with unknowns: decision tables, determining-policy
bounds, definitely-errored source, reauthorization coverage, residual
reconstruction in the evaluator.

Declines: that a residual is equivalent to the original under every
substitution (quantifies over substitutions).
"""
from lib import tt
from lib.rulelib import AtomOracle, arg_syms, closures_in, get_fn, res_calls, short, syms, walk, rows
from lib.facts import callee
from rules import partial_tables as pt
from rules import residual_hom

PR = "cedar_policy_core::authorizer::partial_response::PartialResponse"
MOD = "cedar_policy_core::authorizer::partial_response::"


def decision(chk, facts):
    rule = "C13.TABLE.decision"
    f = get_fn(chk, facts, rule, PR + "::decision")
    if f is None:
        return
    n = 0
    for row in pt.rows16():
        o = AtomOracle(empties={("arg1", "satisfied_forbids"): not row["tf"],
                                ("arg1", "satisfied_permits"): not row["tp"],
                                ("arg1", "residual_permits"): not row["rp"],
                                ("arg1", "residual_forbids"): not row["rf"]})
        try:
            ret, trace = tt.Interp(f, o).run(arg_syms(f))
        except tt.Undecided as e:
            chk.ob(rule, str(row), False, "undecided: %s" % e, where=f.where(), fn=f.name)
            continue
        got = pt.render_option_decision(ret)
        ok, msg = pt.judge(row, got)
        n += 1
        chk.ob(rule, "tf=%(tf)s,tp=%(tp)s,rp=%(rp)s,rf=%(rf)s" % row, ok, msg, where=f.where(), fn=f.name,
               sample=dict(row, decision=got))
    chk.floor(rule, "rows", n, 16)


SRC = {"definitely_satisfied_permits": "SP", "definitely_satisfied_forbids": "SF",
       "residual_permits": "RP", "residual_forbids": "RF", "nontrivial_permits": "RP", "nontrivial_forbids": "RF"}


def determining(chk, facts):
    """must ⊆ actual ⊆ may, as expressions over buckets, for every emptiness row.
    actual determining set of a completion: the true forbids if any forbid is true,
    else the true permits. Over all completions:
      must may only contain buckets that are determining in EVERY completion;
      may must contain every bucket that is determining in SOME completion."""
    rule = "C13.TABLE.determining"
    for fname in ("must_be_determining", "may_be_determining"):
        f = get_fn(chk, facts, rule, PR + "::" + fname)
        if f is None:
            continue
        n = 0
        for row in rows(["sf_empty", "rf_empty"]):
            o = AtomOracle(empties={("arg1", "satisfied_forbids"): row["sf_empty"],
                                    ("arg1", "residual_forbids"): row["rf_empty"]})
            try:
                ret, trace = tt.Interp(f, o).run(arg_syms(f))
            except tt.Undecided as e:
                chk.ob(rule, "%s:%s" % (fname, row), False, "undecided: %s" % e, where=f.where(), fn=f.name)
                continue
            got = set()
            unknown = []
            for c in res_calls(ret):
                last = c.split("::")[-1]
                if last in SRC:
                    got.add(SRC[last])
                elif c.startswith(PR):
                    unknown.append(last)
            sf = not row["sf_empty"]
            rf = not row["rf_empty"]
            # buckets known empty contribute nothing
            eff = set(got)
            if not sf:
                eff.discard("SF")
            if not rf:
                eff.discard("RF")
            if fname == "must_be_determining":
                if sf:
                    allowed = {"SF"}                 # a true forbid always determines; permits never do
                elif rf:
                    allowed = set()                  # a residual forbid may or may not fire: nothing is certain
                else:
                    allowed = {"SP"}                 # no forbid can fire: true permits always determine
                ok = eff <= allowed and not unknown
                msg = "must_be_determining draws from %s (effective %s); only %s is determining in every completion" % (sorted(got), sorted(eff), sorted(allowed))
            else:
                if sf:
                    required = {"SF"} | ({"RF"} if rf else set())
                else:
                    required = {"SP", "RP"} | ({"RF"} if rf else set())
                # RP is required only if non-empty, but the function cannot know: it must include the bucket
                ok = required <= got and not unknown
                msg = "may_be_determining draws from %s; every bucket that can determine in some completion is required: %s" % (sorted(got), sorted(required))
            n += 1
            chk.ob(rule, "%s:sf_empty=%s,rf_empty=%s" % (fname, row["sf_empty"], row["rf_empty"]), ok, msg,
                   where=f.where(), fn=f.name, sample={"fn": fname, "row": row, "sources": sorted(got)})
        chk.floor(rule, fname + " rows", n, 4)
    # each source iterates its own bucket with its own effect
    for nm, field, eff in (("residual_permits", "residual_permits", "Permit"), ("residual_forbids", "residual_forbids", "Forbid"),
                           ("definitely_satisfied_permits", "satisfied_permits", "Permit"),
                           ("definitely_satisfied_forbids", "satisfied_forbids", "Forbid")):
        g = get_fn(chk, facts, rule, PR + "::" + nm)
        if g is None:
            continue
        try:
            ret, trace = tt.Interp(g, AtomOracle()).run(arg_syms(g))
        except tt.Undecided as e:
            chk.ob(rule, "source:" + nm, False, "undecided: %s" % e, where=g.where())
            continue
        its = [a for c, a, _, _ in trace if c.endswith(("::iter", "::keys", "::values", "into_iter"))]
        buckets = {s[1] for a in its for s in syms(("tup", a)) if len(s) > 1}
        effs = set()
        for c in closures_in(ret):
            cf = facts.fn(c)
            if cf is None:
                continue
            for _, s in cf.stmts():
                if s[0] == "a" and s[2][0] == "agg" and s[2][1][0] == "adt" and s[2][1][1].endswith("policy::Effect"):
                    effs.add(s[2][1][2])
        chk.ob(rule, "source:" + nm, buckets == {field} and effs == {eff},
               "%s iterates %s with effect %s; required {%s}/{%s}" % (nm, sorted(buckets), sorted(effs), field, eff),
               where=g.where(), fn=g.name, sample={"fn": nm, "buckets": sorted(buckets), "effects": sorted(effs)})


def errored(chk, facts):
    rule = "C13.ERRORED"
    f = get_fn(chk, facts, rule, PR + "::definitely_errored")
    if f is not None:
        try:
            ret, trace = tt.Interp(f, AtomOracle()).run(arg_syms(f))
            got = {s[1] for s in syms(ret) if len(s) > 1}
            fl = [x[1] for x in walk(ret) if x[0] == "fnitem"]
            ok = got == {"false_permits", "false_forbids"} and any(x.endswith("did_error") for x in fl)
            chk.ob(rule, "sources", ok, "definitely_errored reads %s filtered through %s; required false_permits+false_forbids through did_error" % (
                sorted(got), [short(x) for x in fl]), where=f.where(), fn=f.name, sample={"fields": sorted(got), "filter": [short(x) for x in fl]})
        except tt.Undecided as e:
            chk.ob(rule, "sources", False, "undecided: %s" % e, where=f.where())
    g = get_fn(chk, facts, rule, MOD + "did_error")
    if g is not None:
        for var, idx, want in (("NoError", 0, "None"), ("Error", 1, "Some")):
            class O(AtomOracle):
                def discriminant(self, path, adt, idx=idx):
                    if adt.endswith("ErrorState"):
                        return idx
                    return None
            try:
                ret, _ = tt.Interp(g, O()).run(arg_syms(g))
                got = ret[2] if ret[0] == "adt" else repr(ret)[:40]
                chk.ob(rule, "did_error:" + var, got == want, "did_error(%s) = %s, required %s" % (var, got, want), where=g.where(), fn=g.name,
                       sample={"state": var, "result": got})
            except tt.Undecided as e:
                chk.ob(rule, "did_error:" + var, False, "undecided: %s" % e, where=g.where())


def reauthorize(chk, facts):
    rule = "C13.REAUTH"
    want = {"all_permit_residuals": {"satisfied_permits", "false_permits", "residual_permits"},
            "all_forbid_residuals": {"satisfied_forbids", "false_forbids", "residual_forbids"}}
    for nm, buckets in want.items():
        f = get_fn(chk, facts, rule, PR + "::" + nm)
        if f is None:
            continue
        try:
            ret, trace = tt.Interp(f, AtomOracle()).run(arg_syms(f))
        except tt.Undecided as e:
            chk.ob(rule, nm, False, "undecided: %s" % e, where=f.where())
            continue
        its = [a for c, a, _, _ in trace if c.endswith(("::iter", "into_iter"))]
        got = {s[1] for a in its for s in syms(("tup", a)) if len(s) > 1}
        # residual expression paired with each bucket: closures reading true_expr / false_expr
        pair = {}
        for c in closures_in(ret):
            cf = facts.fn(c)
            if cf is None:
                continue
            for _, s in cf.stmts():
                if s[0] == "a" and s[2][0] == "ref":
                    for e in s[2][1][1:]:
                        if isinstance(e, list) and e[0] == "f" and e[2] in ("true_expr", "false_expr"):
                            pair[c] = e[2]
        chk.ob(rule, nm, got == buckets, "%s chains buckets %s; all three of %s must be fed back" % (nm, sorted(got), sorted(buckets)),
               where=f.where(), fn=f.name, sample={"fn": nm, "buckets": sorted(got), "const_exprs": sorted(pair.values())})
        # which constant goes with which bucket: order of map() calls follows order of iter() calls
        seq = []
        for c, a, _, r in trace:
            if c.endswith("Iterator::map") and a and a[0][0] == "res" and a[0][1].endswith("::iter"):
                b = {s[1] for s in syms(a[0]) if len(s) > 1}
                cl = closures_in(a[1]) if len(a) > 1 else []
                seq.append((sorted(b), [pair.get(x) for x in cl]))
        for b, consts in seq:
            if not b:
                continue
            bn = b[0]
            if bn.startswith("satisfied"):
                ok = consts == ["true_expr"]
            elif bn.startswith("false"):
                ok = consts == ["false_expr"]
            else:
                ok = consts == [None]
            chk.ob(rule, "%s:%s" % (nm, bn), ok, "bucket %s is re-materialised with %s" % (bn, consts), where=f.where(), fn=f.name)
    f = get_fn(chk, facts, rule, PR + "::all_residual_policies")
    if f is not None:
        cs = [callee(t) for _, t in f.calls()]
        ok = any(c.endswith("all_permit_residuals") for c in cs) and any(c.endswith("all_forbid_residuals") for c in cs)
        chk.ob(rule, "all_residual_policies", ok, "re-authorisation policy set = permit residuals + forbid residuals: %s" % ok, where=f.where(), fn=f.name)
    f = get_fn(chk, facts, rule, PR + "::reauthorize")
    if f is not None:
        class O(AtomOracle):
            def res_discriminant(self, v, adt):
                if adt.endswith("ControlFlow"):
                    return 0
                return None
        try:
            ret, trace = tt.Interp(f, O()).run(arg_syms(f))
            names = [c for c, _, _, _ in trace]
            ok_ps = any(c.endswith("all_residual_policies") for c in names)
            ok_rq = any(c.endswith("concretize_request") for c in names)
            core = [(c, a) for c, a, _, _ in trace if c.endswith("is_authorized_core_internal")]
            ok_core = False
            detail = ""
            if core:
                a = core[0][1]
                # evaluator arg derives from Evaluator::new(concretized request, entities arg) with an unknowns mapper over `mapping`
                ev = a[1]
                ok_core = any(c.endswith("Evaluator::new") for c in res_calls(ev)) and any(c.endswith("with_unknowns_mapper") for c in res_calls(ev)) \
                    and any(c.endswith("concretize_request") for c in res_calls(ev)) and ("arg4",) in syms(ev) \
                    and any(c.endswith("all_residual_policies") for c in res_calls(a[3])) \
                    and any(c.endswith("concretize_request") for c in res_calls(a[2]))
                detail = "evaluator from %s" % sorted({short(c).split("::")[-1] for c in res_calls(ev)})
            chk.ob(rule, "reauthorize", ok_ps and ok_rq and ok_core,
                   "reauthorize evaluates all residual policies against the concretised request and the given entities with the mapping installed (%s)" % detail,
                   where=f.where(), fn=f.name, sample={"calls": [short(c).split("::")[-1] for c in names][:14]})
        except tt.Undecided as e:
            chk.ob(rule, "reauthorize", False, "undecided: %s" % e, where=f.where())


def run(chk, facts, tier):
    facts.load_crate("cedar_policy_core.lib")
    chk.explanation = (
        "Static decision of partial-authorization structure on the current MIR: (TABLE.decision) the 16-row table of PartialResponse::decision is sound "
        "for every completion of residual policies and yields a decision when nothing is residual; (TABLE.determining) must_be_determining only draws "
        "from buckets determining in every completion and may_be_determining from every bucket determining in some, each source iterating its own bucket with "
        "its own effect; (ERRORED) definitely_errored = false buckets filtered by ErrorState::Error; (REAUTH) reauthorize feeds all six buckets back "
        "(true/false with the constant expressions, residuals as is) and evaluates them against the concretised request with the mapping installed; "
        "(RESIDUAL) every residual-building exit of the evaluator rebuilds the same node kind from the same children in order. "
        "(PROJECTABLE) is_projectable quantifies over every sub-expression and accepts only node kinds whose evaluator arm has no error source of its own "
        "(derived from the arm's MIR region), so attributes discarded by projecting a residual record cannot hide an error. "
        "Does not decide equivalence of residuals under substitution.")
    chk.assumptions = ["MIR at mir-opt-level=0 reflects source control flow", "std collections behave as documented"]
    decision(chk, facts)
    determining(chk, facts)
    errored(chk, facts)
    reauthorize(chk, facts)
    residual_hom.check(chk, facts, "C13.RESIDUAL")
    from rules import c13_projectable
    c13_projectable.check(chk, facts)
    residual_hom.check_substitute(chk, facts)
    from rules import c13_shortcircuit
    c13_shortcircuit.check(chk, facts)
    c13_shortcircuit.residual_guard_kept(chk, facts)
    c13_shortcircuit.store_mode_kept(chk, facts)
    c13_shortcircuit.residual_sticky(chk, facts)
    # every policy is evaluated and every residual is fed back: no dropping step in the authorizer loop or in reauthorize
    from rules import shared_pipe
    shared_pipe.check(chk, facts, "C13.PIPE", ["cedar_policy_core::authorizer::Authorizer::is_authorized_core_internal",
                                               "cedar_policy_core::authorizer::partial_response::PartialResponse::reauthorize"], "every policy of the set / every residual policy")
    from rules import c13_ops
    c13_ops.check(chk, facts)
