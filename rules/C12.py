"""C12 — the formatter prints every part of the syntax tree (one structural necessary condition).

Decides: (TRAVERSE) in the `Doc` impl of every CST node type the formatter handles, every child of the node (every
field of every variant that holds another CST node) reaches a printing call — `to_doc` of the child or one of the
formatter's own helpers — inside that impl or its closures (label provenance seeded by field projections on the CST
type, carried across closure captures and iterator items). A child that is never handed on cannot appear in the output,
so the output cannot parse to a structurally identical policy. (SIBLING.token) the two n-ary connectives print their own
operator: the `||` impl writes "||" and never "&&", the `&&` impl the converse.
It does not decide line breaking, comment placement, idempotence or totality — those depend on program x width and stay
undecided by this technique; nor does it rely on the formatter's internal self-check (a sufficient, not a necessary, condition).
"""
import re

from lib import xlabels
from lib.facts import callee

CST = "cedar_policy_core::parser::cst::"
# children that are deliberately not handed on, each with its reason
EXEMPT = {
    "Literal.Str.0": "a string literal is printed through Display of the literal as a whole (RcDoc::as_string)",
    "Ref.Ref.path": "record-style entity references are not valid policy syntax: to_doc answers None for them",
    "Ref.Ref.rinits": "record-style entity references are not valid policy syntax: to_doc answers None for them",
    "VariableDef.unused_type_name": "`principal: Type` is not valid policy syntax; the field exists only for error reporting",
}
# struct types printed inside the impl of their wrapper
INNER = {"Policy": ["PolicyImpl"], "Expr": ["ExprImpl", "ExprData"]}


def seed(p):
    out = []
    var = None
    for e in p[1:]:
        if isinstance(e, list) and e[0] == "d":
            var = str(e[1])
        elif isinstance(e, list) and e[0] == "f":
            if str(e[3]).startswith(CST):
                out.append("%s.%s%s" % (str(e[3])[len(CST):], (var + "." if var else ""), e[2] or e[1]))
            var = None
    return out


def kids_of(facts, X):
    adt = facts.adts.get(CST + X)
    if not adt:
        return None
    kids = []
    for v in adt["variants"]:
        for fl in v["fields"]:
            if "parser::Node<" in fl[1] or "cst::" in fl[1]:
                kids.append("%s.%s%s" % (X, (v["name"] + "." if adt["akind"] == "enum" else ""), fl[0]))
    return kids


GRAMMAR_ONLY = {"=": "a single `=` is lexed by the parser only to report `did you mean ==`; no parseable policy contains it",
                "\\?[_a-zA-Z][_a-zA-Z0-9]*": "slots other than ?principal / ?resource are lexed by the parser only to be rejected"}


def lexer_tables(chk):
    """The formatter re-lexes the policy text with its own lexer (to attach comments to tokens). Whatever token the parser's
    lexer accepts in a parseable policy the formatter's lexer must accept as the same token, and both must skip the same
    whitespace and comments — otherwise formatting fails, or comments are attached to the wrong token, on parseable text.
    Source-level table comparison: grammar.lalrpop's `match` block against the #[token] / #[regex] attributes of token.rs."""
    import os
    from lib import grammar
    from lib.factsbuild import REPO
    rule = "C12.LEXER"
    g = grammar.load()
    path = os.path.join(REPO, "cedar-policy-formatter/src/pprint/token.rs")
    try:
        t = open(path).read()
    except OSError:
        chk.lost(rule, "cedar-policy-formatter/src/pprint/token.rs")
        return
    src = open(os.path.join(REPO, grammar.PATH)).read()
    ftoks = set(re.findall(r'#\[token\("((?:[^"\\]|\\.)*)"\)\]', t))
    fregs = []
    for m in re.finditer(r'#\[regex\((?:r#"(.*?)"#|r"((?:[^"\\]|\\.)*)"|"((?:[^"\\]|\\.)*)")\s*,\s*([^\]]*)\]', t):
        fregs.append((m.group(1) or m.group(2) or m.group(3), "skip" if "logos::skip" in m.group(4) else "token"))
    glits = set(g["literals"]) | set(g["aliases"].values())
    gregs = set(g["regex"].values())
    mm = re.search(r"\nmatch\s*\{(.*?)\n\}\n", src, re.S)
    gskips = set(re.findall(r'r"((?:[^"\\]|\\.)*)"\s*=>\s*\{\s*\}', mm.group(1))) if mm else set()
    gregs |= {x for x in re.findall(r'r#"(.*?)"#\s*=>\s*[A-Z_]+', mm.group(1))} if mm else set()
    n = 0
    missing = sorted(x for x in glits if x not in ftoks and x not in GRAMMAR_ONLY)
    n += 1
    chk.ob(rule, "literal-tokens", not missing and len(glits) >= 40, "every literal token of the parser's lexer (%d) is a token of the formatter's lexer; missing: %s" % (len(glits), missing or "none"),
           where="cedar-policy-formatter/src/pprint/token.rs", key=rule + ":literals", sample={"grammar_literals": len(glits), "formatter_tokens": len(ftoks)})
    ftok_regs = {r_ for r_, k in fregs if k == "token"}
    missing = sorted(x for x in gregs if x not in ftok_regs and x not in GRAMMAR_ONLY)
    n += 1
    chk.ob(rule, "pattern-tokens", not missing and len(gregs) >= 3, "every pattern token of the parser's lexer %s is a pattern of the formatter's lexer %s; missing: %s" % (sorted(gregs), sorted(ftok_regs), missing or "none"),
           where="cedar-policy-formatter/src/pprint/token.rs", key=rule + ":patterns", sample={"grammar": sorted(gregs), "formatter": sorted(ftok_regs)})
    strip = lambda x: re.sub(r"[*+]$", "", x)
    fskips = {strip(r_) for r_, k in fregs if k == "skip"}
    gsk = {strip(x) for x in gskips}
    n += 1
    chk.ob(rule, "skipped", fskips == gsk and len(gsk) == 2, "both lexers skip the same whitespace and comment patterns: parser %s, formatter %s" % (sorted(gskips), sorted(r_ for r_, k in fregs if k == "skip")),
           where="cedar-policy-formatter/src/pprint/token.rs", key=rule + ":skips", sample={"parser": sorted(gskips), "formatter": sorted(r_ for r_, k in fregs if k == "skip")})
    chk.floor(rule, "lexer table rows", n, 3)


def run(chk, facts, tier):
    facts.load_crate("cedar_policy_formatter.lib")
    facts.load_crate("cedar_policy_core.lib")
    chk.explanation = (
        "Static decision of one structural necessary condition of 'the formatter's output parses to structurally identical policies' on the current MIR: (TRAVERSE) in the Doc impl of "
        "every CST node type, every child node of every variant reaches a printing call (the child's to_doc or a formatter helper) inside the impl or its closures, with four reviewed "
        "exemptions (whole-literal Display, syntax that is not valid in policies); (SIBLING.token) the `||` and `&&` impls print their own operator. Declines line breaking, comment "
        "placement, idempotence and totality (program x width; value-level) and does not use the formatter's internal self-check.")
    chk.assumptions = ["label provenance is flow-insensitive per body, across closure captures and iterator items", "MIR at mir-opt-level=0 reflects source control flow"]
    rule = "C12.TRAVERSE"
    impls = sorted(n for n in facts.fns.keys() if n.endswith("pprint::doc::Doc>::to_doc") and n.startswith("<"))
    n = 0
    types = 0
    seen_types = set()
    texts = {}
    for name in impls:
        f = facts.fns[name]
        ty = name.split(" as ")[0][1:]
        m = re.search(r"cst::([A-Za-z]+)", ty)
        if not m:
            continue
        X = m.group(1)
        kids = kids_of(facts, X)
        if kids is None:
            chk.lost(rule, "the CST type %s printed by %s" % (X, name[:80]))
            continue
        for inner in INNER.get(X, []):
            kids += kids_of(facts, inner) or []
        if X in seen_types and not kids:
            continue
        seen_types.add(X)
        types += 1
        chk.functions.add(f.name)
        reached = set()
        lits = set()
        for g, L in xlabels.bodies_with_labels(facts, f, seed):
            for b, t in g.calls():
                c = callee(t)
                if c.endswith("::to_doc") or "pprint::doc::" in c or "pprint::utils::" in c:
                    for o in t[2]:
                        reached |= {x for x in L.operand_labels(o) if "." in x}
                if c.endswith("RcDoc::<'a, A>::text") or c.split("::")[-1] == "text":
                    for o in t[2]:
                        if o[0] == "k" and "s" in o[1]:
                            lits.add(o[1]["s"])
            for b, s in g.stmts():
                pass
        texts[X] = lits
        for k in kids:
            if k in EXEMPT:
                chk.ob(rule, k, True, "child %s is not handed on: %s (reviewed)" % (k, EXEMPT[k]), where=f.where(), fn=f.name, key="%s:%s" % (rule, k))
                n += 1
                continue
            n += 1
            chk.ob(rule, k, k in reached, "child %s of the CST node reaches a printing call in the Doc impl of %s: %s" % (k, X, k in reached), where=f.where(), fn=f.name,
                   key="%s:%s" % (rule, k), sample={"node": X, "child": k} if n % 5 == 0 else None)
    chk.floor(rule, "CST node types with a Doc impl", types, 23)
    chk.floor(rule, "CST children", n, 59)
    rule2 = "C12.SIBLING.token"
    for X, own, other in (("Or", "||", "&&"), ("And", "&&", "||")):
        if X not in texts:
            chk.lost(rule2, "the Doc impl of cst::%s" % X)
            continue
        chk.ob(rule2, X, own in texts[X] and other not in texts[X], "the %s impl writes the operator texts %s (its own: %r)" % (X, sorted(texts[X]), own), key="%s:%s" % (rule2, X),
               sample={"node": X, "texts": sorted(texts[X])})
    lexer_tables(chk)
