"""C11.RECORD — the two record typecheckers behind request-context and entity-attribute validation.

Type::typecheck_restricted_expr (context / Request::new) and
typecheck_restricted_expr_against_schematype (entity attributes, tags) decide whether a
record value conforms to a declared record type. Structural necessary conditions,
checked on both:
  undeclared: every key of the VALUE is looked up in the DECLARED attributes, and the
              not-found edge reaches acceptance only through a test of the type's
              open-attributes flag that actually discriminates;
  required:   every DECLARED key is looked up in the VALUE, and the not-found edge reaches
              acceptance only through a test of the attribute's `required` flag;
  recursive:  the result of the recursive typecheck of an attribute value is honoured.
"""
from lib import cfg, protocol, shape, xlabels
from lib.facts import callee
from lib.rulelib import short

TARGETS = [
    # (file, fn, adt suffix of the type, open-flag label prefix, required-flag field, recursive callee suffix, result kind)
    ("cedar-policy-core/src/validator/types.rs", "cedar_policy_core::validator::types::Type::typecheck_restricted_expr",
     "validator::types::Type", "is_required", "Type::typecheck_restricted_expr", "bool"),
    ("cedar-policy-core/src/entities/conformance.rs", "cedar_policy_core::entities::conformance::typecheck_restricted_expr_against_schematype",
     "schema_types::SchemaType", "required", "conformance::typecheck_restricted_expr_against_schematype", "unit"),
]
LOOKUPS = ("get_attr", "get", "contains_key")


def _accept(g, is_main, kind):
    """Blocks that commit to accepting: Ok(true) for Result<bool>, Ok(..) for Result<()>."""
    out = set()
    for b, s in g.stmts():
        if s[0] == "a" and s[1] == [0] and s[2][0] == "agg" and s[2][1][0] == "adt" and s[2][1][2] == "Ok":
            if kind == "bool":
                o = s[2][2][0] if s[2][2] else None
                if o and o[0] == "k" and str(o[1].get("v")) in ("0", "false", "False"):
                    continue
            out.add(b)
    return out


def _flag_switches(g, L, label_pred, field=None):
    """Switch blocks whose operand derives from the flag (by label, or by reading the named field)."""
    out = set()
    flagged = set()
    if field:
        for b, s in g.stmts():
            if s[0] == "a" and s[2][0] == "use" and s[2][1][0] in ("c", "m"):
                p = s[2][1][1]
                if any(isinstance(e, list) and e[0] == "f" and e[2] == field for e in p[1:]) and len(s[1]) == 1:
                    flagged.add(s[1][0])
        for _ in range(3):
            for b, s in g.stmts():
                if s[0] == "a" and len(s[1]) == 1 and s[2][0] in ("use", "un") :
                    o = s[2][1] if s[2][0] == "use" else s[2][2]
                    if isinstance(o, list) and o and o[0] in ("c", "m") and len(o[1]) == 1 and o[1][0] in flagged:
                        flagged.add(s[1][0])
    for b, blk in enumerate(g.blocks):
        if blk["cl"] or blk["t"][0] != "sw":
            continue
        op = blk["t"][1]
        if op[0] not in ("c", "m"):
            continue
        if field and len(op[1]) == 1 and op[1][0] in flagged:
            out.add(b)
        if label_pred and any(label_pred(x) for x in L.operand_labels(op)):
            out.add(b)
    return out


def _not_found_targets(g, b):
    """Targets of the not-found edge of the lookup in block b (Option::None arm or the false edge)."""
    t = g.blocks[b]["t"]
    sws, _ret = protocol.result_switches(g, t[3][0])
    out = []
    for sb, kind, arms, oth in sws:
        if kind == "disc" and 0 in arms:
            out.append(arms[0])
    if not out:
        for sb, m in protocol.bool_edges(g, b):
            out.append(m[False])
    return out


def check(chk, facts):
    rule = "C11.RECORD"
    n = 0
    for file, fname, adt, reqfield, rec_callee, kind in TARGETS:
        f = facts.fn(fname)
        if f is None:
            chk.lost(rule, fname)
            continue
        chk.functions.add(fname)
        seed = shape.variant_field_seed(adt)
        bl = xlabels.bodies_with_labels(facts, f, seed,
                                        call_labels=lambda c, t: (["VALUE"] if c.endswith("::as_record_pairs") else None))
        is_attrs = lambda x: x == "Record.attrs"
        is_open = lambda x: x.startswith("Record.open_")
        und = []      # (g, block, term) lookups of a value key in the declared attributes
        req = []      # lookups of a declared key in the value
        rec = []
        for g, L in bl:
            for b, t in g.calls():
                c = callee(t)
                last = c.split("::")[-1]
                if last in LOOKUPS and len(t[2]) >= 2:
                    a0 = L.operand_labels(t[2][0])
                    a1 = L.operand_labels(t[2][1])
                    r_attrs, r_value = any(map(is_attrs, a0)), "VALUE" in a0
                    k_attrs, k_value = any(map(is_attrs, a1)), "VALUE" in a1
                    if r_attrs and k_value and not r_value:
                        und.append((g, L, b, t))
                    if r_value and k_attrs and not r_attrs:
                        req.append((g, L, b, t))
                if c.endswith(rec_callee) and "Record.attrs" in set().union(*[L.operand_labels(o) for o in t[2]]):
                    rec.append((g, L, b, t))
        nm = fname.split("::")[-1]
        # ---- undeclared
        probs = []
        if not und:
            probs.append("no key of the value is looked up in the declared attributes: an undeclared attribute cannot be detected")
        for g, L, b, t in und:
            acc = _accept(g, g is f, kind)
            lp = protocol.loop_of(g, b)
            if lp:
                acc = acc | {lp[0]}
            opens = _flag_switches(g, L, is_open)
            nf = _not_found_targets(g, b)
            if not nf:
                probs.append("the lookup at L%s is never branched on" % t[1].get("l"))
            for tgt in nf:
                if cfg.reachable(g, tgt, cut_blocks=opens) & acc:
                    probs.append("an attribute missing from the declared type is accepted without testing the open-attributes flag (lookup at L%s)" % t[1].get("l"))
                else:
                    # the flag test discriminates: one of its edges cannot reach acceptance
                    disc = False
                    for ob in opens & cfg.reachable(g, tgt):
                        sw = g.blocks[ob]["t"]
                        edges = [bb for _, bb in sw[2]] + [sw[3]]
                        reach = [bool(cfg.reachable(g, e) & acc) for e in edges if not g.blocks[e]["t"][0] == "unr"]
                        if any(reach) and not all(reach):
                            disc = True
                    if not disc:
                        probs.append("the open-attributes test after the lookup at L%s does not discriminate (both outcomes accept, or none)" % t[1].get("l"))
        n += 1
        chk.ob(rule, "%s:undeclared" % nm, not probs,
               "%s: %s" % (nm, "; ".join(probs) if probs else "%d lookup(s) of value keys in the declared attributes; not-found is accepted only when the type is open" % len(und)),
               where=f.where(und[0][3][1].get("l") if und else None), fn=f.name, key="%s:%s:undeclared:%s" % (rule, nm, ";".join(sorted({p.split(" (lookup")[0].split(" at L")[0] for p in probs}))),
               sample={"fn": short(fname), "lookups": [(short(callee(t)), t[1].get("l")) for _, _, _, t in und]})
        # ---- required
        probs = []
        if not req:
            probs.append("no declared attribute is looked up in the value: a missing required attribute cannot be detected")
        for g, L, b, t in req:
            acc = _accept(g, g is f, kind)
            lp = protocol.loop_of(g, b)
            start = 0
            if lp:
                acc = acc | {lp[0]}
                start = lp[1]
            reqs = _flag_switches(g, L, None, field=reqfield)
            nf = _not_found_targets(g, b)
            if not nf:
                probs.append("the lookup at L%s is never branched on" % t[1].get("l"))
            for tgt in nf:
                if cfg.reachable(g, tgt, cut_blocks=reqs) & acc:
                    probs.append("a declared attribute missing from the value is accepted without testing `%s` (lookup at L%s)" % (reqfield, t[1].get("l")))
            if cfg.reachable(g, start, cut_blocks=reqs | {b}) & acc:
                probs.append("an iteration over the declared attributes reaches acceptance without the lookup at L%s and without testing `%s`" % (t[1].get("l"), reqfield))
        n += 1
        chk.ob(rule, "%s:required" % nm, not probs,
               "%s: %s" % (nm, "; ".join(probs) if probs else "%d lookup(s) of declared keys in the value; not-found is accepted only for optional attributes" % len(req)),
               where=f.where(req[0][3][1].get("l") if req else None), fn=f.name, key="%s:%s:required:%s" % (rule, nm, ";".join(sorted({p.split(" (lookup")[0].split(" at L")[0] for p in probs}))),
               sample={"fn": short(fname), "lookups": [(short(callee(t)), t[1].get("l")) for _, _, _, t in req]})
        # ---- recursive result honoured
        probs = []
        if not rec:
            probs.append("attribute values are not typechecked recursively against the declared attribute type")
        for g, L, b, t in rec:
            acc = _accept(g, g is f, kind)
            lp = protocol.loop_of(g, b)
            if lp:
                acc = acc | {lp[0]}
            if kind == "bool":
                ok, det = protocol.honor_bool(g, b, True, acc)
            else:
                ok, det = protocol.honor_result(g, b, acc)
            if not ok:
                probs.append("recursive check at L%s: %s" % (t[1].get("l"), det))
        n += 1
        chk.ob(rule, "%s:recursive" % nm, not probs,
               "%s: %s" % (nm, "; ".join(probs) if probs else "%d recursive attribute typecheck(s), each honoured" % len(rec)),
               where=f.where(rec[0][3][1].get("l") if rec else None), fn=f.name, key="%s:%s:recursive" % (rule, nm),
               sample={"fn": short(fname), "recursive_calls": len(rec)})
    chk.floor(rule, "record typecheck obligations", n, 6)
