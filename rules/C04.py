"""C04 — hierarchy membership = parent reachability: protocol clauses.

Decides: (MUSTPASS.tc) no Entities value is returned without the closure step its
TCComputation mode prescribes (DAG enforcement on); (TOUCHED) every entity whose
cached ancestors are edited, and every added entity, is queued for repair, and the
sweep that extends the queue looks at the *transitive* ancestors; (STRIP) every
descendant of a removed / replaced entity is stripped of the link and of all
inherited ancestors, unconditionally; (OWN) nobody else edits the hierarchy cache;
(CONST) the public API always asks for ComputeNow; (FIELD-USE) membership reads
both edge sets. Declines the correctness of compute_tc / repair_tc as algorithms.
"""
from lib import cfg, shape, panics
from lib.facts import callee
from lib.rulelib import get_fn, short

ENT = "cedar_policy_core::entities::Entities::"
TC = "cedar_policy_core::entities::TCComputation"
ENTITY = "cedar_policy_core::ast::entity::Entity::"


def vidx(facts, adt, name):
    r = facts.adts.get(adt)
    if not r:
        return None
    for i, v in enumerate(r["variants"]):
        if v["name"] == name:
            return i
    return None


def rets(f):
    return cfg.return_blocks(f)


def mustpass_tc(chk, facts):
    rule = "C04.MUSTPASS.tc"
    n = 0
    for fname, compute in (("from_entities", ("transitive_closure::compute_tc",)), ("add_entities", ("transitive_closure::repair_tc",)),
                           ("upsert_entities", ("transitive_closure::repair_tc",)), ("remove_entities", ("transitive_closure::repair_tc",))):
        f = get_fn(chk, facts, rule, ENT + fname)
        if f is None:
            continue
        sws = [s for s in shape.variant_switches(f, "entities::TCComputation")]
        if len(sws) != 1:
            chk.lost(rule, "%s: match on TCComputation" % fname, "found %d switches" % len(sws))
            continue
        b, scrut, arms, other = sws[0]
        param_ok = len(scrut) == 1 and 1 <= scrut[0] <= f.nargs
        for mode, callees, need_true in (("ComputeNow", compute, True), ("EnforceAlreadyComputed", ("transitive_closure::enforce_tc_and_dag",), False)):
            vi = vidx(facts, TC, mode)
            tgt = arms.get(vi)
            if tgt is None:
                chk.ob(rule, "%s:%s" % (fname, mode), False, "no arm for %s" % mode, where=f.where(), fn=f.name)
                continue
            K = []
            flag_ok = True
            for bb, t in f.calls():
                c = callee(t)
                if c.endswith(tuple(callees)):
                    K.append(bb)
                    if need_true:
                        last = t[2][-1]
                        if not (last[0] == "k" and last[1].get("v") == 1):
                            flag_ok = False
            ok = bool(K) and cfg.must_pass(f, tgt, rets(f), set(K))
            n += 1
            chk.ob(rule, "%s:%s" % (fname, mode), ok and flag_ok and param_ok,
                   "%s: on mode %s every path to a return crosses %s: %s%s; the mode switched on is the parameter: %s" % (
                       fname, mode, [c.split("::")[-1] for c in callees], ok,
                       ("" if not need_true else "; enforce_dag argument is the constant true: %s" % flag_ok), param_ok),
                   where=f.where(), fn=f.name, key="%s:%s:%s" % (rule, fname, mode),
                   sample={"fn": fname, "mode": mode, "closure_calls": len(K)})
    f = get_fn(chk, facts, rule, ENT + "try_validate")
    if f is not None:
        K = [bb for bb, t in f.calls() if callee(t).endswith("enforce_tc_and_dag")]
        ok = bool(K) and cfg.must_pass(f, 0, rets(f), set(K))
        n += 1
        chk.ob(rule, "try_validate", ok, "try_validate crosses enforce_tc_and_dag on every path: %s" % ok, where=f.where(), fn=f.name)
    chk.floor(rule, "mode obligations", n, 9)


ALLOWED_GUARD_CALLS = ("::next", "HashMap::<K, V, S, A>::remove", "HashMap::<K, V, S, A>::get", "Entity::is_descendant_of",
                       "PartialEq>::ne", "PartialEq>::eq", "ops::Try>::branch", "Option::<T>::as_ref", "::validate_entity",
                       "update_entity_map", "PartialEq<&B> for &A>::ne", "PartialEq<&B> for &A>::eq")


def guard_report(f, block):
    """-> (unknown guards, described guards)"""
    unknown = []
    desc = []
    for d, taken in cfg.guard_edges(f, block):
        cd = panics.cond_desc(f, d)
        desc.append((cd, [v for v, _ in taken]))
        core = cd.split("<", 1)[-1] if cd.startswith("disc:") else cd
        if cd.startswith("disc:TCComputation"):
            continue
        if not any(x in core for x in ALLOWED_GUARD_CALLS):
            unknown.append((cd, [v for v, _ in taken]))
    return unknown, desc


def touched_and_strip(chk, facts):
    rule_t = "C04.PAIR.touched"
    rule_s = "C04.STRIP"
    nt = ns = 0
    for fname in ("add_entities", "upsert_entities", "remove_entities"):
        f = get_fn(chk, facts, rule_t, ENT + fname)
        if f is None:
            continue
        # the set handed to repair_tc
        rep = [(bb, t) for bb, t in f.calls() if callee(t).endswith("transitive_closure::repair_tc")]
        if len(rep) != 1:
            chk.lost(rule_t, "%s: repair_tc call" % fname)
            continue
        L = shape.Labels(f, None, None, call_labels=lambda c, t: (
            ["SET"] if c.endswith("HashSet::<T>::new") else
            ["ancestors"] if c.endswith("Entity::ancestors") else
            ["parents"] if c.endswith("Entity::parents") else
            ["uid"] if c.endswith("Entity::uid") else None))
        set_ok = "SET" in L.operand_labels(rep[0][1][2][0])
        chk.ob(rule_t, "%s:repair-set" % fname, set_ok, "repair_tc receives the locally built touched set: %s" % set_ok, where=f.where(rep[0][1][1].get("l")), fn=f.name)
        inserts = [(bb, t) for bb, t in f.calls() if callee(t).endswith("HashSet::<T, S, A>::insert") and "SET" in L.operand_labels(t[2][0])]
        # (1) every entity put into the map is queued
        for bb, t in f.calls():
            if callee(t).endswith("entities::update_entity_map"):
                dom = [ib for ib, it in inserts if cfg.dominates(f, ib, bb) and "uid" in L.operand_labels(it[2][1])]
                nt += 1
                chk.ob(rule_t, "%s:added-entity-queued" % fname, bool(dom),
                       "each entity written to the store is first inserted (by uid) into the touched set: %s" % bool(dom),
                       where=f.where(t[1].get("l")), fn=f.name, key="%s:%s:added" % (rule_t, fname))
        # (2) every cache edit on an entity is preceded by queuing that entity, and is not subject to extra conditions
        edits = [(bb, t) for bb, t in f.calls() if callee(t).endswith(("Entity::remove_indirect_ancestor", "Entity::remove_parent", "Entity::remove_all_indirect_ancestors"))]
        for bb, t in edits:
            dom = [ib for ib, it in inserts if cfg.dominates(f, ib, bb)]
            nt += 1
            chk.ob(rule_t, "%s:%s@L%s" % (fname, callee(t).split("::")[-1], t[1].get("l")), bool(dom),
                   "the entity whose cached ancestors are edited is queued for repair before the edit: %s" % bool(dom),
                   where=f.where(t[1].get("l")), fn=f.name, key="%s:%s:%s" % (rule_t, fname, callee(t).split("::")[-1]))
            unknown, desc = guard_report(f, bb)
            ns += 1
            chk.ob(rule_s, "%s:%s@L%s" % (fname, callee(t).split("::")[-1], t[1].get("l")), not unknown,
                   "stripping is conditional only on the entity being a descendant of the removed/replaced one (and loop/lookup structure); extra condition(s): %s" % (unknown or "none"),
                   where=f.where(t[1].get("l")), fn=f.name, key="%s:%s:%s:%s" % (rule_s, fname, callee(t).split("::")[-1], ";".join(u[0] for u in unknown)),
                   sample={"fn": fname, "edit": callee(t).split("::")[-1], "guards": [d[0][:70] for d in desc]})
        if fname in ("upsert_entities", "remove_entities"):
            # inherited ancestors are stripped too: a remove_indirect_ancestor fed from the old entity's ancestors()
            inh = [(bb, t) for bb, t in edits if callee(t).endswith("remove_indirect_ancestor") and "ancestors" in L.operand_labels(t[2][1])]
            direct = [(bb, t) for bb, t in edits if callee(t).endswith("remove_indirect_ancestor") and "ancestors" not in L.operand_labels(t[2][1])]
            ns += 1
            chk.ob(rule_s, "%s:inherited-ancestors" % fname, bool(inh) and bool(direct),
                   "descendants lose both the link to the removed/replaced entity (%d site) and every ancestor inherited through it (%d site fed from its ancestors())" % (len(direct), len(inh)),
                   where=f.where(), fn=f.name)
        if fname in ("add_entities", "upsert_entities"):
            # (3) the sweep extending the queue compares against the transitive ancestors
            sw = [(bb, t) for bb, t in f.calls() if callee(t).endswith("::is_disjoint")]
            ok = False
            det = "no is_disjoint / is_descendant_of sweep found"
            for bb, t in sw:
                labs = set()
                for o in t[2]:
                    labs |= L.operand_labels(o)
                ok = "SET" in labs and "ancestors" in labs and "parents" not in labs
                det = "sweep compares the touched set with %s" % sorted(labs - {"SET", "uid"})
            nt += 1
            chk.ob(rule_t, "%s:descendant-sweep" % fname, ok,
                   "%s; every stored entity with a touched *transitive* ancestor must be re-queued (direct parents alone miss deeper descendants)" % det,
                   where=f.where(sw[0][1][1].get("l") if sw else None), fn=f.name, key="%s:%s:sweep" % (rule_t, fname),
                   sample={"fn": fname, "sweep": det})
            # and the re-queue insert is only conditional on that comparison
            for ib, it in inserts:
                if sw and cfg.dominates(f, sw[0][0], ib):
                    unknown, desc = guard_report(f, ib)
                    unknown = [u for u in unknown if "is_disjoint" not in u[0]]
                    nt += 1
                    chk.ob(rule_t, "%s:sweep-insert" % fname, not unknown, "re-queueing is conditional only on the sweep test; extra: %s" % (unknown or "none"),
                           where=f.where(it[1].get("l")), fn=f.name)
    chk.floor(rule_t, "touched obligations", nt, 11)
    chk.floor(rule_s, "strip obligations", ns, 7)


MUTATORS = ("Entity::remove_indirect_ancestor", "Entity::remove_parent", "Entity::remove_all_indirect_ancestors",
            "Entity::add_indirect_ancestor", "Entity::add_parent", "TCNode>::add_edge_to", "TCNode<cedar_policy_core::ast::entity::EntityUID>>::add_edge_to")
ALLOWED_MUTATOR_FILES = ("cedar-policy-core/src/entities.rs", "cedar-policy-core/src/transitive_closure.rs", "cedar-policy-core/src/ast/entity.rs",
                         "cedar-policy-core/src/tpe/entities.rs", "cedar-policy-core/src/entities/json/entities.rs",
                         # builds free-standing Entity values from loader answers before any store exists (entity-manifest feature)
                         "cedar-policy-core/src/validator/entity_manifest/loader.rs")


def own(chk, facts):
    rule = "C04.OWN"
    n = 0
    callers = {}
    writers = {}
    for u in ("cedar_policy_core.lib", "cedar_policy.lib"):
        facts.load_crate(u)
        for name in facts.unit_fns(u):
            gen, kind, root, ti, file, line = facts.fns.meta(name)
            if gen or panics.is_derive(facts.fns.fnmac(name)):
                continue
            f = facts.fns[name]
            for bb, t in f.calls():
                c = callee(t)
                if c.endswith(MUTATORS) and ("ast::entity::Entity" in c or "TCNode" in c):
                    callers.setdefault(file, []).append((name, t[1].get("l"), c.split("::")[-1]))
            # direct writes to the cache fields / the store map
            for bb, s in f.stmts():
                if s[0] == "a" and len(s[1]) > 1:
                    for e in s[1][1:]:
                        if isinstance(e, list) and e[0] == "f" and ((e[2] in ("parents", "indirect_ancestors") and e[3].endswith("ast::entity::Entity")) or
                                                                    (e[2] == "entities" and e[3].endswith("entities::Entities"))):
                            writers.setdefault(file, []).append((name, s[3], e[2]))
                if s[0] == "a" and s[2][0] == "ref" and s[2][2]:
                    for e in s[2][1][1:]:
                        if isinstance(e, list) and e[0] == "f" and ((e[2] in ("parents", "indirect_ancestors") and e[3].endswith("ast::entity::Entity")) or
                                                                    (e[2] == "entities" and e[3].endswith("entities::Entities"))):
                            writers.setdefault(file, []).append((name, s[3], "&mut " + e[2]))
    for file, occ in sorted(callers.items()):
        ok = file in ALLOWED_MUTATOR_FILES
        n += len(occ)
        chk.ob(rule, "mutator-callers:" + file, ok, "%d call(s) of hierarchy-cache mutators in %s (%s); owners are %s" % (
            len(occ), file, sorted({o[2] for o in occ}), [x.split("/")[-1] for x in ALLOWED_MUTATOR_FILES]),
            where="%s:%s" % (file, occ[0][1]), key="%s:caller:%s" % (rule, file), sample={"file": file, "calls": len(occ)})
    for file, occ in sorted(writers.items()):
        ok = file in ("cedar-policy-core/src/entities.rs", "cedar-policy-core/src/ast/entity.rs")
        chk.ob(rule, "field-writers:" + file, ok, "%d mutable access(es) to Entity.parents / Entity.indirect_ancestors / Entities.entities in %s" % (len(occ), file),
               where="%s:%s" % (file, occ[0][1]), key="%s:writer:%s" % (rule, file), sample={"file": file, "accesses": len(occ)})
    chk.floor(rule, "mutator call sites", n, 9)
    # fields are private, so the inventory above is total over other crates
    for adt, fields in (("cedar_policy_core::entities::Entities", ("entities",)), ("cedar_policy_core::ast::entity::Entity", ("parents", "indirect_ancestors"))):
        r = facts.adts.get(adt)
        if r is None:
            chk.lost(rule, adt)
            continue
        for fl in r["variants"][0]["fields"]:
            if fl[0] in fields:
                chk.ob(rule, "private:%s.%s" % (adt.split("::")[-1], fl[0]), not fl[2], "field %s.%s is private: %s" % (adt.split("::")[-1], fl[0], not fl[2]))


def api_const(chk, facts):
    rule = "C04.CONST"
    facts.load_crate("cedar_policy.lib")
    targets = ("entities::Entities::from_entities", "entities::Entities::add_entities", "entities::Entities::upsert_entities",
               "entities::Entities::remove_entities", "entities::json::entities::EntityJsonParser::new", "EntityJsonParser::<'e, 's, S>::new")
    n = 0
    CN = vidx(facts, TC, "ComputeNow")
    for name in facts.unit_fns("cedar_policy.lib"):
        gen, kind, root, ti, file, line = facts.fns.meta(name)
        if gen or not file.endswith("cedar-policy/src/api.rs"):
            continue
        f = facts.fns[name]
        defs = None
        for bb, t in f.calls():
            c = callee(t)
            if not c.endswith(targets) or not c.startswith("cedar_policy_core::"):
                continue
            # find the TCComputation argument: a local whose type is TCComputation
            mode = None
            for o in t[2]:
                if o[0] in ("c", "m") and len(o[1]) == 1 and f.locals[o[1][0]].endswith("entities::TCComputation"):
                    if defs is None:
                        defs = panics._def_sites(f)
                    ds = defs.get(o[1][0], [])
                    if len(ds) == 1 and ds[0][0] == "st" and ds[0][2][2][0] == "agg":
                        mode = ds[0][2][2][1][2]
                    else:
                        mode = "non-constant"
            if mode is None:
                continue
            n += 1
            chk.ob(rule, "%s->%s@L%s" % (short(name)[-40:], c.split("::")[-1], t[1].get("l")), mode == "ComputeNow",
                   "public API call of %s passes TCComputation::%s (must be ComputeNow: the library computes and checks the closure)" % (c.split("::")[-2] + "::" + c.split("::")[-1], mode),
                   where=f.where(t[1].get("l")), fn=name, key="%s:%s:%s" % (rule, name, c.split("::")[-1]),
                   sample={"caller": short(name), "callee": c.split("::")[-1], "mode": mode})
    chk.floor(rule, "API call sites passing a TCComputation", n, 15)


def field_use(chk, facts):
    rule = "C04.FIELD-USE"
    for fn_name in ("is_descendant_of", "ancestors"):
        f = get_fn(chk, facts, rule, ENTITY + fn_name)
        if f is None:
            continue
        read = set()
        bodies = [f] + facts.closures_of(ENTITY + fn_name)
        for g in bodies:
            for bb, s in g.stmts():
                if s[0] == "a":
                    for p in shape._rv_places(s[2]):
                        for var, fld, adt in shape.place_fields(p):
                            if adt.endswith("ast::entity::Entity"):
                                read.add(fld)
        ok = {"parents", "indirect_ancestors"} <= read
        chk.ob(rule, fn_name, ok, "Entity::%s reads fields %s; membership must consult both direct parents and the cached indirect ancestors" % (fn_name, sorted(read)),
               where=f.where(), fn=f.name, sample={"fn": fn_name, "fields": sorted(read)})
    g = get_fn(chk, facts, rule, "cedar_policy_core::evaluator::Evaluator::eval_in")
    if g is not None:
        cs = set()
        for b in [g] + facts.closures_of(g.name):
            cs |= {callee(t) for _, t in b.calls()}
        ok = any(c.endswith("Entity::is_descendant_of") for c in cs)
        chk.ob(rule, "eval_in", ok, "`in` is decided through Entity::is_descendant_of (plus uid equality): %s" % ok, where=g.where(), fn=g.name)


def run(chk, facts, tier):
    facts.load_crate("cedar_policy_core.lib")
    chk.explanation = (
        "Static decision of the entity-store protocol on the current MIR: (MUSTPASS.tc) in from/add/upsert/remove_entities every path to a return on mode ComputeNow crosses "
        "compute_tc/repair_tc with DAG enforcement on, on EnforceAlreadyComputed crosses enforce_tc_and_dag (cut-reachability), try_validate likewise; (PAIR.touched) every entity "
        "written to the store and every entity whose cached ancestors are edited is first inserted into the set handed to repair_tc, and the sweep that re-queues stored entities "
        "compares against their transitive ancestors; (STRIP) stripping of a removed/replaced entity's link and of all ancestors inherited through it is conditional only on being "
        "its descendant; (OWN) only the owner modules call the hierarchy-cache mutators or touch the cache fields, which are private; (CONST) every public API call passes "
        "ComputeNow; (FIELD-USE) membership reads both edge sets; (TC) the closure and acyclicity checks are complete in structure: compute_tc always runs the SCC closure, repair_tc recomputes exactly the nodes to fix, "
        "enforce_tc visits every (entity, parent, grandparent) triple and a missing edge is an error, the self-loop checks visit every node. Does not decide that compute_tc/repair_tc compute reachability.")
    chk.assumptions = ["compute_tc / repair_tc / enforce_tc_and_dag are correct algorithms (history- and graph-quantified; declined)",
                       "MIR at mir-opt-level=0 reflects source control flow"]
    mustpass_tc(chk, facts)
    touched_and_strip(chk, facts)
    own(chk, facts)
    api_const(chk, facts)
    field_use(chk, facts)
    from rules import c04_tc
    c04_tc.check(chk, facts)
