"""C01 — authorization combination logic: default-deny, forbid-overrides,
skip-on-error, reasons/errors content, purity.

Decides the combination logic *given* per-policy outcomes; that the evaluator
computes the right outcome is C02's matter and is not claimed here.
"""
from lib import tt
from lib.rulelib import (AtomOracle, adts_in, arg_syms, closures_in, get_fn, has_res, res_calls,
                         rows, short, syms, walk)
from lib.facts import callee
from lib import purity, hom

CORE = "cedar_policy_core::authorizer::"
PR = CORE + "partial_response::PartialResponse"
FROM = CORE + "partial_response::<impl std::convert::From<" + PR + "> for " + CORE + "Response>::from"
NEW = PR + "::new"
INTERNAL = CORE + "Authorizer::is_authorized_core_internal"

FIELDS = ["satisfied_permits", "false_permits", "residual_permits",
          "satisfied_forbids", "false_forbids", "residual_forbids", "errors"]


def param_map(chk, facts):
    """PartialResponse::new: which parameter feeds which field (by provenance)."""
    rule = "C01.PARAMMAP"
    f = get_fn(chk, facts, rule, NEW)
    if f is None:
        return None
    try:
        ret, _ = tt.Interp(f, AtomOracle()).run(arg_syms(f))
    except tt.Undecided as e:
        chk.ob(rule, "new", False, "undecided: %s" % e, where=f.where(), fn=f.name)
        return None
    if ret[0] != "adt" or not ret[1].endswith("PartialResponse"):
        chk.ob(rule, "new", False, "return value is not a PartialResponse literal: %r" % (ret[:3],), where=f.where())
        return None
    adt = facts.adts.get(ret[1])
    names = [fl[0] for fl in adt["variants"][0]["fields"]] if adt else []
    m = {}
    for i, v in enumerate(ret[4]):
        nm = names[i] if i < len(names) else str(i)
        ss = syms(v)
        if nm in FIELDS:
            ok = len(ss) == 1 and list(ss)[0][0].startswith("arg") and len(list(ss)[0]) == 1
            chk.ob(rule, "field:" + nm, ok, "field %s is built from exactly one parameter: %s" % (nm, sorted(ss)),
                   where=f.where(), fn=f.name, sample={"field": nm, "from": sorted(map(list, ss))})
            if ok:
                m[int(list(ss)[0][0][3:])] = nm
    chk.floor(rule, "bucket fields fed by a parameter", len(m), 7)
    return m


def bucket(chk, facts, pmap):
    """is_authorized_core_internal: (outcome, effect) -> sink bucket, by walking the
    unique path each atom assignment determines (one loop iteration)."""
    rule = "C01.BUCKET"
    f = get_fn(chk, facts, rule, INTERNAL)
    if f is None or pmap is None:
        return
    outcomes = ["ok_true", "ok_false", "ok_residual", "err"]
    effects = ["Permit", "Forbid"]
    expected = {
        ("ok_true", "Permit"): {("satisfied_permits", None)},
        ("ok_true", "Forbid"): {("satisfied_forbids", None)},
        ("ok_false", "Permit"): {("false_permits", "NoError")},
        ("ok_false", "Forbid"): {("false_forbids", "NoError")},
        ("ok_residual", "Permit"): {("residual_permits", None)},
        ("ok_residual", "Forbid"): {("residual_forbids", None)},
        ("err", "Permit"): {("false_permits", "Error"), ("errors", "PolicyEvaluationError")},
        ("err", "Forbid"): {("false_forbids", "Error"), ("errors", "PolicyEvaluationError")},
    }
    n = 0
    for oc in outcomes:
        for eff in effects:
            nexts = {"n": 0}

            def res_disc(v, adt, oc=oc, eff=eff, nexts=nexts):
                c = v[1]
                if c.endswith("::next") and adt.endswith("Option"):
                    # first iteration yields a policy, second ends the loop
                    return 1 if v[3] == nexts.setdefault("first", v[3]) else 0
                if c.endswith("partial_evaluate") and adt.endswith("Result"):
                    return 1 if oc == "err" else 0
                if c.endswith("partial_evaluate") and adt.endswith("Either"):
                    return 1 if oc == "ok_residual" else 0
                if c.endswith("Policy::effect") and adt.endswith("Effect"):
                    return 0 if eff == "Permit" else 1
                return None

            def res_bool(v, oc=oc):
                if v[0] == "res" and v[1].endswith("partial_evaluate"):
                    return 1 if oc == "ok_true" else 0
                return None

            # helpers of the authorizer module are seen through (bounded inlining); the evaluator stays opaque
            orc = hom.InlineOracle(facts, 2, allow=("cedar_policy_core::authorizer::",))
            orc._res_disc = res_disc
            orc._res_bool = res_bool
            it = tt.Interp(f, orc)
            try:
                ret, trace = it.run(arg_syms(f))
            except tt.Undecided as e:
                chk.ob(rule, "%s/%s" % (oc, eff), False, "undecided: %s" % e, where=f.where(), fn=f.name)
                continue
            # final constructor call tells which Vec is which bucket
            ctor = [tr for tr in trace if tr[0] == NEW]
            if len(ctor) != 1:
                chk.ob(rule, "%s/%s" % (oc, eff), False, "expected one PartialResponse::new call on the path, found %d" % len(ctor), where=f.where())
                continue
            vec_bucket = {}
            for k, a in enumerate(ctor[0][1]):
                if a[0] == "res" and a[1].endswith("Vec::<T>::new"):
                    vec_bucket[a[3]] = pmap.get(k + 1, "param%d" % (k + 1))
            got = set()
            id_ok = True
            line = None
            for cal, args, ln, _res in trace:
                if cal.endswith("Vec::<T, A>::push") and args and args[0][0] == "res":
                    bname = vec_bucket.get(args[0][3], "?")
                    payload = args[1]
                    tag = None
                    for adt, var in adts_in(payload):
                        if adt.endswith("ErrorState") or adt.endswith("AuthorizationError"):
                            tag = var
                    got.add((bname, tag))
                    line = ln
                    if not any(c.endswith("Policy::id") for c in res_calls(payload)):
                        id_ok = False
            exp = expected[(oc, eff)]
            n += 1
            chk.ob(rule, "%s/%s" % (oc, eff), got == exp and id_ok,
                   "policy with outcome %s and effect %s is recorded in %s (required: %s)%s" % (
                       oc, eff, sorted(map(str, got)), sorted(map(str, exp)), "" if id_ok else "; a pushed record does not carry this policy's id"),
                   where=f.where(line), fn=f.name,
                   key="%s:%s/%s" % (rule, oc, eff),
                   sample={"outcome": oc, "effect": eff, "sinks": sorted(map(list, got))})
    chk.floor(rule, "(outcome,effect) leaves", n, 8)


def decision_table(chk, facts):
    rule = "C01.TABLE.decision"
    f = get_fn(chk, facts, rule, FROM)
    if f is None:
        return
    n = 0
    for row in rows(["sp_empty", "sf_empty"]):
        o = AtomOracle(empties={("arg1", "satisfied_permits"): row["sp_empty"],
                                ("arg1", "satisfied_forbids"): row["sf_empty"]})
        try:
            ret, trace = tt.Interp(f, o).run(arg_syms(f))
        except tt.Undecided as e:
            chk.ob(rule, str(row), False, "undecided: %s" % e, where=f.where(), fn=f.name)
            continue
        ctor = [tr for tr in trace if tr[0].endswith("authorizer::Response::new")]
        if len(ctor) != 1 or not has_res(ret, "Response::new"):
            chk.ob(rule, str(row), False, "the result is not built by exactly one Response::new", where=f.where())
            continue
        dec = ctor[0][1][0]
        got = dec[2] if dec[0] == "adt" else repr(dec)
        want = "Allow" if (not row["sp_empty"]) and row["sf_empty"] else "Deny"
        n += 1
        chk.ob(rule, "sp_empty=%s,sf_empty=%s" % (row["sp_empty"], row["sf_empty"]), got == want,
               "decision is %s, the statement requires %s (Allow iff some permit satisfied and no forbid satisfied)" % (got, want),
               where=f.where(ctor[0][2]), fn=f.name,
               sample={"satisfied_permits_empty": row["sp_empty"], "satisfied_forbids_empty": row["sf_empty"], "decision": got})
        # reasons and errors provenance (same for all rows; check on each)
        reasons, errors = ctor[0][1][1], ctor[0][1][2]
        r_ok = has_res(reasons, "PartialResponse::must_be_determining") and not has_res(reasons, "may_be_determining")
        cl = closures_in(reasons)
        clos_ok = True
        for c in cl:
            cf = facts.fn(c)
            if cf is None:
                clos_ok = False
                continue
            cs = [callee(t) for _, t in cf.calls()]
            if not (any(x.endswith("Policy::id") for x in cs) and all(x.endswith(("Policy::id", "Clone>::clone")) for x in cs)):
                clos_ok = False
        chk.ob(rule, "reasons-source/%s" % n, r_ok and clos_ok and bool(cl),
               "reasons = ids of must_be_determining(): %s; mapping closure only projects Policy::id: %s" % (r_ok, clos_ok),
               where=f.where(ctor[0][2]), fn=f.name)
        e_ok = has_res(errors, "PartialResponse::errors") and syms(errors) == {("arg1",)}
        chk.ob(rule, "errors-source/%s" % n, e_ok, "errors = PartialResponse::errors(p) collected: %s" % e_ok,
               where=f.where(ctor[0][2]), fn=f.name)
    chk.floor(rule, "rows", n, 4)


def reason_table(chk, facts):
    rule = "C01.TABLE.reason"
    f = get_fn(chk, facts, rule, PR + "::must_be_determining")
    if f is None:
        return
    n = 0
    for row in rows(["sf_empty", "rf_empty"]):
        o = AtomOracle(empties={("arg1", "satisfied_forbids"): row["sf_empty"],
                                ("arg1", "residual_forbids"): row["rf_empty"]})
        try:
            ret, trace = tt.Interp(f, o).run(arg_syms(f))
        except tt.Undecided as e:
            chk.ob(rule, str(row), False, "undecided: %s" % e, where=f.where(), fn=f.name)
            continue
        src = {c.split("::")[-1] for c in res_calls(ret) if "definitely_satisfied" in c or "residual" in c or "may_be" in c}
        if not row["sf_empty"]:
            want = {"definitely_satisfied_forbids"}
        elif row["rf_empty"]:
            want = {"definitely_satisfied_permits"}
        else:
            # a possibly-true forbid: only the (empty) set of satisfied forbids is a sound
            # under-approximation; this row is unreachable from concrete authorization
            want = {"definitely_satisfied_forbids"}
        n += 1
        chk.ob(rule, "sf_empty=%s,rf_empty=%s" % (row["sf_empty"], row["rf_empty"]), src == want,
               "reasons come from %s, required %s" % (sorted(src), sorted(want)), where=f.where(), fn=f.name,
               sample={"satisfied_forbids_empty": row["sf_empty"], "residual_forbids_empty": row["rf_empty"], "source": sorted(src)})
    chk.floor(rule, "rows", n, 4)
    # the two sources iterate the right bucket with the right effect
    for nm, field, eff in (("definitely_satisfied_permits", "satisfied_permits", "Permit"),
                           ("definitely_satisfied_forbids", "satisfied_forbids", "Forbid")):
        g = get_fn(chk, facts, rule, PR + "::" + nm)
        if g is None:
            continue
        try:
            ret, trace = tt.Interp(g, AtomOracle()).run(arg_syms(g))
        except tt.Undecided as e:
            chk.ob(rule, nm, False, "undecided: %s" % e, where=g.where())
            continue
        its = [a for c, a, _, _ in trace if c.endswith("::iter") or c.endswith("::keys") or c.endswith("into_iter")]
        fields = {s for a in its for s in syms(("tup", a))}
        buckets = {s[1] for s in fields if len(s) > 1 and s[1] in FIELDS}
        effs = set()
        for c in closures_in(ret):
            cf = facts.fn(c)
            if cf is None:
                continue
            for _, s in cf.stmts():
                if s[0] == "a" and s[2][0] == "agg" and s[2][1][0] == "adt" and s[2][1][1].endswith("policy::Effect"):
                    effs.add(s[2][1][2])
        chk.ob(rule, nm, buckets == {field} and effs == {eff},
               "%s iterates bucket(s) %s with effect(s) %s; required {%s} with {%s}" % (nm, sorted(buckets), sorted(effs), field, eff),
               where=g.where(), fn=g.name, sample={"fn": nm, "buckets": sorted(buckets), "effects": sorted(effs)})


def errors_source(chk, facts):
    rule = "C01.ERRORS"
    f = get_fn(chk, facts, rule, PR + "::errors")
    if f is None:
        return
    try:
        ret, trace = tt.Interp(f, AtomOracle()).run(arg_syms(f))
    except tt.Undecided as e:
        chk.ob(rule, "errors", False, "undecided: %s" % e, where=f.where())
        return
    got = {s[1] for s in syms(ret) if len(s) > 1}
    want = {"residual_forbids", "residual_permits", "errors"}
    chk.ob(rule, "sources", got == want,
           "errors() is built from fields %s; required exactly %s (evaluation errors recorded by the authorizer, plus residuals-as-errors; never the satisfied/false buckets)" % (sorted(got), sorted(want)),
           where=f.where(), fn=f.name, sample={"fields": sorted(got)})
    # the mapping closure must wrap into PolicyEvaluationError carrying the id it was given
    ok = False
    for c in closures_in(ret):
        cf = facts.fn(c)
        if cf is None:
            continue
        for _, s in cf.stmts():
            if s[0] == "a" and s[2][0] == "agg" and s[2][1][0] == "adt" and s[2][1][2] == "PolicyEvaluationError":
                ok = True
    chk.ob(rule, "residual-as-error", ok, "residual policies are reported as PolicyEvaluationError: %s" % ok, where=f.where(), fn=f.name)


def entry_chain(chk, facts):
    """The concrete entry points are the partial response, concretised — nothing else."""
    rule = "C01.ENTRY"
    chain = [
        (CORE + "Authorizer::is_authorized", ["Authorizer::is_authorized_core", "PartialResponse::concretize"]),
        (CORE + "Authorizer::is_authorized_core", ["Authorizer::is_authorized_core_internal", "Evaluator::new"]),
        (PR + "::concretize", ["Into<U>>::into"]),
        ("cedar_policy::api::Authorizer::is_authorized", ["cedar_policy_core::authorizer::Authorizer::is_authorized"]),
    ]
    for name, must in chain:
        f = get_fn(chk, facts, rule, name)
        if f is None:
            continue
        try:
            ret, trace = tt.Interp(f, AtomOracle()).run(arg_syms(f))
        except tt.Undecided as e:
            chk.ob(rule, short(name), False, "undecided (entry point is expected to be branch-free): %s" % e, where=f.where())
            continue
        cs = res_calls(ret)
        ok = all(any(c.endswith(m) for c in cs) for m in must)
        chk.ob(rule, short(name), ok, "result is derived from %s; required to pass through %s" % ([short(c) for c in cs][:8], must),
               where=f.where(), fn=f.name, sample={"fn": short(name), "derives_from": [short(c) for c in cs][:8]})
    # the Into used by concretize resolves to the From checked above
    g = facts.fn(PR + "::concretize")
    if g is not None:
        gs = [t[1].get("g", "") for _, t in g.calls() if callee(t).endswith("Into<U>>::into")]
        ok = any("PartialResponse" in x and "authorizer::Response" in x for x in gs)
        chk.ob(rule, "concretize-into-Response", ok, "concretize() converts PartialResponse into Response (generic args %s)" % gs, where=g.where(), fn=g.name)


def reason_container(chk, facts):
    """Reasons are a set (order-free); errors is the only ordered container built from map iteration."""
    rule = "C01.ORDER"
    r = facts.adts.get("cedar_policy_core::authorizer::Diagnostics")
    if r is None:
        chk.lost(rule, "cedar_policy_core::authorizer::Diagnostics")
        return
    fields = {fl[0]: fl[1] for fl in r["variants"][0]["fields"]}
    chk.ob(rule, "Diagnostics.reason", "HashSet<" in fields.get("reason", ""),
           "Diagnostics.reason has type %s (must be an unordered set: hash-map iteration order cannot leak)" % fields.get("reason"),
           sample=fields)


def run(chk, facts, tier):
    facts.load_crate("cedar_policy_core.lib")
    facts.load_crate("cedar_policy.lib")
    chk.explanation = (
        "Static decision of the combination logic of authorization on the current MIR: "
        "(BUCKET) every (evaluation outcome x effect) leaf of is_authorized_core_internal is walked by constant "
        "propagation over the outcome atoms and must push the policy id into exactly the bucket the statement prescribes "
        "(errors: false bucket with ErrorState::Error and one PolicyEvaluationError, never a satisfied bucket); "
        "(PARAMMAP) PartialResponse::new feeds each field from the like-named parameter; (TABLE.decision) the 4-row truth table of "
        "From<PartialResponse> for Response equals 'Allow iff some permit satisfied and no forbid satisfied'; (TABLE.reason) reasons come "
        "from satisfied forbids when any, else satisfied permits, and the two sources iterate the right bucket with the right effect; "
        "(ERRORS) errors() draws only from recorded errors and residuals; (ENTRY) public entry points are exactly partial response + concretize; "
        "(PURE) no function reachable from the entry points touches mutable global state, time, randomness, environment or files; "
        "(ORDER) reasons are an unordered set; (CONDITION / SCOPE) a policy's condition is principal-scope && (action-scope && (resource-scope && body | true)) and each scope constraint "
        "denotes the expression the language gives it on the constraint's own variable. Decides these clauses, not the evaluator's per-policy outcome (C02).")
    chk.assumptions = [
        "MIR at mir-opt-level=0 reflects the source's control flow",
        "per-policy outcome (satisfied / false / residual / error) is computed correctly by Evaluator::partial_evaluate (C02)",
        "std/hashbrown/linked-hash-map collections behave as documented",
    ]
    pmap = param_map(chk, facts)
    bucket(chk, facts, pmap)
    decision_table(chk, facts)
    reason_table(chk, facts)
    errors_source(chk, facts)
    entry_chain(chk, facts)
    reason_container(chk, facts)
    purity.check_pure(chk, facts, "C01.PURE",
                      ["cedar_policy_core::authorizer::Authorizer::is_authorized",
                       "cedar_policy::api::Authorizer::is_authorized"])
    from rules import c01_condition
    c01_condition.check(chk, facts)
    # 'does not depend on calls made earlier': the only state the library keeps between authorization calls is the FFI's
    # pre-parse cache; its ownership / replace-on-register discipline is shared with C19
    from rules import C19 as c19
    c19.cache_ownership(chk, facts)
    # the bucket partition is also what a partial response re-authorises from (partial_response.rs is one of C01's anchors): every
    # bucket of both effects is fed back, the satisfied ones as `true` - a satisfied forbid left out turns Deny into Allow (C13.REAUTH, shared)
    from rules import C13 as c13
    c13.reauthorize(chk, facts)
    from rules import shared_getters
    shared_getters.check(chk, facts, "C01.GETTER", ["cedar_policy_core::authorizer::", "cedar_policy::api::"], 20)
    # every policy of the set is considered: the authorizer's loop runs over policies() itself, nothing is filtered out
    from lib import pipeline
    from lib.slice import leaf_producers
    f_ = facts.fns.get("cedar_policy_core::authorizer::Authorizer::is_authorized_core_internal")
    if f_ is None:
        chk.lost("C01.PIPE", "Authorizer::is_authorized_core_internal")
    else:
        drops, _coll = pipeline.audit(f_, facts.closures_of(f_.name))
        srcs = set()
        for b_, t_ in f_.calls():
            if t_[1].get("mac") == "Desugaring" and callee(t_).endswith("IntoIterator>::into_iter"):
                srcs |= {x.split("::")[-1] for x in leaf_producers(f_, t_[2][0], extra_transparent=("::collect", "::collect_vec", "::iter", "::into_iter", "::rev", "::sorted", "::sorted_by_key", "::peekable")) if x.startswith("call:")}
        chk.ob("C01.PIPE", "all-policies", not drops and srcs == {"policies"},
               "the authorizer's loop runs over PolicySet::policies() itself (loop sources: %s) with no dropping adaptor (%s)" % (sorted(srcs), [d for d, _ in drops] or "none"),
               where=f_.where(drops[0][1] if drops else None), fn=f_.name, key="C01.PIPE:all-policies:%s" % ",".join(sorted({d for d, _ in drops})), sample={"sources": sorted(srcs)})
    from rules import shared_roles
    shared_roles.check(chk, facts, "C01.ROLES",
                       ["cedar_policy::api::Request::new", "cedar_policy_core::ast::request::Request::new", "cedar_policy_core::ast::request::Request::new_with_unknowns",
                        "cedar_policy_core::ast::request::Request::new_unchecked", "cedar_policy_core::evaluator::Evaluator::new"],
                       ("ast::request::Request::new", "ast::Request::new"), ("ast::request::Request", "evaluator::Evaluator"),
                       ("cedar_policy_core::ast::request::Request::",), 20)
