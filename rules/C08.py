"""C08 — template linking and policy-set edits: protocol clauses.

Decides: (ATOMIC) a failed policy-set operation changes nothing: no error return
is reachable after a mutation of `self` unless a compensating write on the same
field lies on every such path; (GUARD.ids) insertion in link / add_static /
add_template happens only under both id-collision tests; (PAIR) successful
operations update the link index together with the link map; (BINDING) linking
constructs a policy only under the Ok of check_binding, which tests both
directions (unbound and extra slots); (EQ) equality of templates / policies, on
which merge's collision detection relies, compares every semantic field;
(LINK.fields) a link's effect and annotations are read from its template.
Declines "behaves like the substituted static policy on every request" (C02) and
history quantification beyond per-operation atomicity.
"""
from lib import cfg, shape, protocol, tt, panics
from lib.facts import callee
from lib.rulelib import AtomOracle, arg_syms, get_fn, short, syms, res_calls

AST_PS = "cedar_policy_core::ast::policy_set::PolicySet::"
API_PS = "cedar_policy::api::PolicySet::"
MUTATORS = ("::insert", "::remove", "::push", "::extend", "::clear", "::retain", "::swap_remove", "::shift_remove", "::pop", "::append",
            "::pop_front", "::pop_back", "::truncate", "::drain", "::insert_full")
CORE_MUT = tuple(AST_PS + m for m in ("add", "add_static", "add_template", "link", "unlink", "remove_static", "remove_template", "merge_policyset"))
READONLY_RECV = ("::get", "::contains_key", "::entry", "::iter", "::keys", "::values", "::len", "::is_empty", "::get_mut")


def self_labels(f):
    def seed(p):
        if p[0] == 1:
            for e in p[1:]:
                if isinstance(e, list) and e[0] == "f":
                    return ["self." + (e[2] or str(e[1]))]
        return []
    return shape.Labels(f, None, seed)


def err_blocks(f):
    out = set()
    for b, s in f.stmts():
        if s[0] == "a" and s[1] == [0] and s[2][0] == "agg" and s[2][1][0] == "adt" and s[2][1][2] == "Err":
            out.add(b)
    for b, t in f.calls():
        if "FromResidual" in callee(t) and t[3] == [0]:
            out.add(b)
    return out


CORE_MUT_NAMES = ("add", "add_static", "add_template", "link", "unlink", "remove_static", "remove_template", "merge_policyset")


def is_core_mut(c):
    # seen from cedar-policy the type is printed through its re-export (cedar_policy_core::ast::PolicySet)
    return c.startswith("cedar_policy_core::ast::") and any(c.endswith("PolicySet::" + m) for m in CORE_MUT_NAMES)


RECV_THROUGH = ("::entry", "::or_default", "::or_insert_with", "::or_insert", "::into_mut", "::get_mut", "::deref_mut", "::as_mut", "::make_mut",
                "::values_mut", "::iter_mut", "ops::Try>::branch", "::unwrap", "::expect", "::borrow_mut", "DerefMut>::deref_mut")


def recv_root(f, operand, depth=10, seen=None):
    """Fields of `self` (arg 1) that the receiver operand refers to, tracing references, copies,
    entry()/get_mut()-style calls and tuple packing backwards."""
    seen = seen if seen is not None else set()
    out = set()
    if operand[0] not in ("c", "m") or depth < 0:
        return out
    p = operand[1]
    l = p[0]
    if l == 1:
        for e in p[1:]:
            if isinstance(e, list) and e[0] == "f":
                return {"self." + (e[2] or str(e[1]))}
        return {"self"}
    if l in seen:
        return out
    seen.add(l)
    for kind, b, x in panics._def_sites(f).get(l, []):
        if kind == "st":
            rv = x[2]
            if rv[0] in ("ref", "addr"):
                out |= recv_root(f, ["c", rv[1]], depth - 1, seen)
            elif rv[0] in ("use", "cast"):
                o = rv[1] if rv[0] == "use" else rv[2]
                out |= recv_root(f, o, depth - 1, seen)
            elif rv[0] == "agg":
                for o in rv[2]:
                    out |= recv_root(f, o, depth - 1, seen)
        else:
            c = callee(x)
            if c.endswith(RECV_THROUGH) and x[2]:
                out |= recv_root(f, x[2][0], depth - 1, seen)
    return out


def _same_value(f, operand, local, depth=6):
    """The operand is `local`, or a reference / copy of it."""
    if operand[0] not in ("c", "m") or depth < 0:
        return False
    l = operand[1][0]
    if l == local:
        return True
    ds = panics._def_sites(f).get(l, [])
    if len(ds) != 1 or ds[0][0] != "st":
        return False
    rv = ds[0][2][2]
    if rv[0] in ("ref", "addr"):
        return _same_value(f, ["c", rv[1]], local, depth - 1)
    if rv[0] == "use":
        return _same_value(f, rv[1], local, depth - 1)
    return False


def mutation_points(f, L=None):
    """(block after which self is changed, description, fields, line, fallible)"""
    pts = []
    for b, t in f.calls():
        c = callee(t)
        if not t[2]:
            continue
        recv = recv_root(f, t[2][0])
        if not recv:
            continue
        if is_core_mut(c):
            # fallible mutation: self changes only on the success edge
            sws, returned = protocol.result_switches(f, t[3][0])
            done = False
            for sb, kind, arms, oth in sws:
                if 0 in arms:
                    pts.append((arms[0], "success of " + c.split("::")[-1], recv, t[1].get("l"), True, b))
                    done = True
            if not done:
                # e.g. `.is_ok()`: the boolean's true edge
                for b2, t2 in f.calls():
                    if callee(t2).endswith(("Result::<T, E>::is_ok", "Result::<T, E>::is_err")) and t2[2] and t2[2][0][0] in ("c", "m"):
                        src = panics.producer(f, t2[2][0])
                        if src == "call:" + c:
                            for sb, m in protocol.bool_edges(f, b2):
                                pts.append((m[callee(t2).endswith("is_ok")], "success of " + c.split("::")[-1], recv, t[1].get("l"), True, b))
                                done = True
            if not done:
                pts.append((t[4], "call of " + c.split("::")[-1], recv, t[1].get("l"), True, b))
        elif c.endswith(MUTATORS) and not c.endswith(READONLY_RECV) and ("std::collections" in c or "linked_hash" in c or "std::vec" in c or "hashbrown" in c or "Entry" in c):
            if t[4] is None:
                continue
            start = t[4]
            if c.endswith(("::remove", "::pop", "::swap_remove", "::shift_remove", "::pop_front", "::pop_back")):
                # removing something absent changes nothing: effective on the Some edge when the result is matched
                sws, returned = protocol.result_switches(f, t[3][0])
                somes = [arms[1] for sb, kind, arms, oth in sws if 1 in arms and kind == "disc"]
                # `.ok_or(..)?` / `?` on the Option: the Continue edge is the one where something was removed
                somes += [arms[0] for sb, kind, arms, oth in sws if 0 in arms and kind == "cf"]
                # `.is_some()` / `.is_none()` on the removed value
                for b2, t2 in f.calls():
                    c2 = callee(t2)
                    if c2.endswith(("Option::<T>::is_some", "Option::<T>::is_none")) and t2[2] and t2[2][0][0] in ("c", "m"):
                        if _same_value(f, t2[2][0], t[3][0]):
                            for sb, m in protocol.bool_edges(f, b2):
                                somes.append(m[c2.endswith("is_some")])
                if somes:
                    for sm in somes:
                        pts.append((sm, c.split("::")[-1] + "(found) on " + ",".join(sorted(recv)), recv, t[1].get("l"), False, b))
                    continue
            pts.append((start, c.split("::")[-1] + " on " + ",".join(sorted(recv)), recv, t[1].get("l"), False, b))
    return pts


def atomic(chk, facts):
    rule = "C08.ATOMIC"
    n = 0
    fns = [AST_PS + m for m in ("add", "add_static", "add_template", "link", "unlink", "remove_static", "remove_template", "merge_policyset")] + \
          [API_PS + m for m in ("add", "add_template", "link", "unlink", "remove_static", "remove_template", "merge")]
    for name in fns:
        f = get_fn(chk, facts, rule, name)
        if f is None:
            continue
        errs = err_blocks(f)
        pts = mutation_points(f)
        if not errs:
            chk.ob(rule, short(name), True, "%s has no error return" % short(name), where=f.where(), fn=name)
            continue
        bad = []
        comp = []
        removes = [(cb, flds) for start, desc, flds, line, fall, cb in pts if desc.startswith(("remove", "pop", "swap_remove", "shift_remove"))]
        for start, desc, fields, line, fallible, cb in pts:
            # an insert that restores what a dominating remove on the same field took out is a compensation, not a mutation
            if desc.startswith(("insert", "push", "extend")) and any(cfg.dominates(f, rb, cb) and rb != cb and (rf & fields) for rb, rf in removes):
                if cfg.reachable(f, start) & errs and not (cfg.reachable(f, start) & protocol.ok_blocks(f)):
                    comp.append(("restoring " + desc, line))
                    continue
            r = cfg.reachable(f, start)
            hit = r & errs
            if not hit:
                continue
            # compensation: every path from the mutation to an error return re-writes the same field
            cblocks = set()
            for b2, t2 in f.calls():
                if b2 in r and callee(t2).endswith(("::insert", "::extend", "::push")) and t2[2]:
                    if recv_root(f, t2[2][0]) & fields:
                        cblocks.add(b2)
            if cblocks and cfg.must_pass(f, start, hit, cblocks):
                comp.append((desc, line))
            else:
                bad.append((desc, line, sorted(hit)[:3]))
        n += 1
        chk.ob(rule, short(name), not bad,
               "%d mutation point(s) of self, %d error return(s); %s%s" % (
                   len(pts), len(errs),
                   "no error return is reachable after a mutation" if not bad and not comp else "",
                   ("compensated: %s; " % comp if comp else "") + ("error return reachable after %s without compensation — a failed operation changes the set" % bad if bad else "")),
               where=f.where(bad[0][1] if bad else None), fn=name, key="%s:%s" % (rule, name),
               sample={"fn": short(name), "mutations": [(d, l) for _, d, _, l, _, _ in pts][:8], "compensated": comp})
    chk.floor(rule, "operations", n, 12)


def id_guards(chk, facts):
    """Insertion of a new id happens only when the id is absent from BOTH maps."""
    rule = "C08.GUARD.ids"
    n = 0
    for name, fields in ((AST_PS + "link", {"self.links", "self.templates"}), (AST_PS + "add_static", {"self.links", "self.templates"}),
                         (AST_PS + "add_template", {"self.links", "self.templates"})):
        f = get_fn(chk, facts, rule, name)
        if f is None:
            continue
        L = self_labels(f)
        pts = [p for p in mutation_points(f)]
        tested_all = True
        detail = []
        for start, desc, flds, line, fall, cb in pts:
            # dominating guards: which self fields were tested (entry Vacant / contains_key false)
            tested = set()
            for d, taken in cfg.guard_edges(f, start):
                t = f.blocks[d]["t"]
                o = t[1]
                labs = set()
                if o[0] in ("c", "m"):
                    labs = {x for x in L.place_labels(o[1]) if x.startswith("self.")}
                    # discriminant switch: labels of the scrutinee
                    ds = panics._def_sites(f).get(o[1][0], [])
                    if len(ds) == 1 and ds[0][0] == "st" and ds[0][2][2][0] == "disc":
                        labs |= {x for x in L.place_labels(ds[0][2][2][1]) if x.startswith("self.")}
                tested |= labs
            missing = fields - tested
            detail.append((desc, sorted(tested)))
            if missing:
                tested_all = False
        n += 1
        chk.ob(rule, short(name), tested_all and bool(pts),
               "every write in %s is guarded by tests on both id maps (links and templates): %s" % (short(name), detail[:4]),
               where=f.where(), fn=name, key="%s:%s" % (rule, name), sample={"fn": short(name), "writes": detail[:4]})
    chk.floor(rule, "operations", n, 3)


def pair_index(chk, facts):
    """Success paths that insert a link also touch template_to_links_map (and vice versa on removal)."""
    rule = "C08.PAIR.index"
    spec = {
        AST_PS + "link": ({"self.links"}, {"self.template_to_links_map"}),
        AST_PS + "add": ({"self.links"}, {"self.template_to_links_map"}),
        AST_PS + "add_static": ({"self.links", "self.templates"}, {"self.template_to_links_map"}),
        AST_PS + "add_template": ({"self.templates"}, {"self.template_to_links_map"}),
        AST_PS + "unlink": ({"self.links"}, {"self.template_to_links_map"}),
        AST_PS + "remove_template": ({"self.templates"}, {"self.template_to_links_map"}),
        AST_PS + "remove_static": ({"self.links", "self.templates"}, {"self.template_to_links_map"}),
        API_PS + "add": ({"self.ast"}, {"self.policies"}),
        API_PS + "add_template": ({"self.ast"}, {"self.templates"}),
        API_PS + "link": ({"self.ast"}, {"self.policies"}),
        API_PS + "unlink": ({"self.ast"}, {"self.policies"}),
        API_PS + "remove_static": ({"self.ast"}, {"self.policies"}),
        API_PS + "remove_template": ({"self.ast"}, {"self.templates"}),
    }
    n = 0
    for name, (prim, idx) in spec.items():
        f = get_fn(chk, facts, rule, name)
        if f is None:
            continue
        oks = protocol.ok_blocks(f)
        pts = mutation_points(f)
        touched_on_ok = set()
        for start, desc, flds, line, fall, cb in pts:
            if cfg.reachable(f, start) & oks or start in oks:
                touched_on_ok |= flds
        need = prim | idx
        # labels are merged for tuple matches; require every needed field to be written on some success path
        ok = need <= touched_on_ok
        n += 1
        chk.ob(rule, short(name), ok, "fields written on success paths: %s; required together: %s" % (sorted(touched_on_ok), sorted(need)),
               where=f.where(), fn=name, key="%s:%s" % (rule, name), sample={"fn": short(name), "written": sorted(touched_on_ok)})
    chk.floor(rule, "operations", n, 12)
    index_monotone(chk, facts)


def merge_collisions(chk, facts):
    """merge_policyset looks for every kind of id collision before it changes anything, whatever `rename_duplicates` says:
    templates of `other` against links of self and links of `other` against templates of self (cross-kind), besides the same-kind scans."""
    from lib.slice import leaf_producers
    rule = "C08.GUARD.ids"
    f = get_fn(chk, facts, rule, AST_PS + "merge_policyset")
    if f is None:
        return
    pts = mutation_points(f)
    first_mut = {start for start, desc, flds, line, fall, cb in pts if flds & {"self.links", "self.templates", "self.template_to_links_map"}}
    oks = protocol.ok_blocks(f)
    # the renaming switch is the function's only bool parameter
    bools = [i for i in range(1, f.nargs + 1) if f.locals[i] == "bool"]
    rn = bools[0] if len(bools) == 1 else None
    for what, suffix in (("templates of other vs links of self", "PolicySet::get"), ("links of other vs templates of self", "PolicySet::get_template")):
        sites = [(b, t) for b, t in f.calls() if callee(t).endswith(suffix)]
        heads = set()
        gated = []
        for b, t in sites:
            lp = protocol.loop_of(f, b)
            if lp:
                heads.add(lp[0])
                for d, taken in cfg.guard_edges(f, lp[0]):
                    sw = f.blocks[d]["t"]
                    if sw[1][0] in ("c", "m") and rn is not None and ("param:%d" % rn) in leaf_producers(f, sw[1]):
                        gated.append(d)
        ok = bool(heads) and not gated and cfg.must_pass(f, 0, first_mut | oks, heads)
        chk.ob(rule, "merge:" + suffix.split("::")[-1], ok, "merge_policyset scans %s before any change and on every path (%s)%s" % (what, bool(heads) and cfg.must_pass(f, 0, first_mut | oks, heads) if heads else False,
               " — but only when rename_duplicates is set" if gated else ""), where=f.where(sites[0][1][1].get("l") if sites else None), fn=f.name, key="%s:merge:%s" % (rule, suffix.split("::")[-1]))
    # with renaming off, any collision found is an error
    errs = [b for b, s_ in f.stmts() if s_[0] == "a" and s_[2][0] == "agg" and s_[2][1][0] == "adt" and s_[2][1][2] == "Err"]
    chk.ob(rule, "merge:occupied", bool(errs), "without renaming a collision is reported as an error: %s" % bool(errs), where=f.where(), fn=f.name)


def fresh_ids(chk, facts):
    """A `fresh` id handed out while renaming is unoccupied as a template id *and* as a link id in *both* policy sets: the id returned
    by get_fresh_id has been put to both sets' occupancy test, and that test looks at both tables."""
    from lib.slice import leaf_producers
    rule = "C08.GUARD.ids"
    g = get_fn(chk, facts, rule, AST_PS + "policy_id_is_bound")
    if g is not None:
        flds = set()
        for b, t in g.calls():
            if callee(t).split("::")[-1] == "contains_key" and t[2]:
                for x in leaf_producers(g, t[2][0]):
                    for fld in ("templates", "links"):
                        if str(x).endswith(fld) or ("." + fld) in str(x):
                            flds.add(fld)
        chk.ob(rule, "bound:tables", flds == {"templates", "links"}, "an id is occupied when it is a key of `templates` or of `links`: tables consulted %s" % sorted(flds),
               where=g.where(), fn=g.name, sample={"tables": sorted(flds)})
    f = get_fn(chk, facts, rule, AST_PS + "get_fresh_id")
    if f is not None:
        rets = set(cfg.return_blocks(f))
        asked = {}
        for b, t in f.calls():
            if callee(t).endswith("PolicySet::policy_id_is_bound") and t[2]:
                for x in leaf_producers(f, t[2][0]):
                    if str(x) in ("param:1", "param:2"):
                        asked.setdefault(str(x), set()).add(b)
        ok = all(asked.get(p_) and cfg.must_pass(f, 0, rets, asked[p_]) for p_ in ("param:1", "param:2"))
        chk.ob(rule, "fresh:both-sets", ok,
               "get_fresh_id returns an id only after asking both policy sets whether it is occupied (as a template or as a link): %s" % {k: sorted(v) for k, v in asked.items()}
               if ok else "get_fresh_id can return an id without the full occupancy test (policy_id_is_bound) of %s: a `fresh` id may collide with a template or link of that set"
               % [n_ for p_, n_ in (("param:1", "self"), ("param:2", "other")) if not (asked.get(p_) and cfg.must_pass(f, 0, rets, asked[p_]))],
               where=f.where(), fn=f.name, sample={"asked": {k: sorted(v) for k, v in asked.items()}})


def removal_guards(chk, facts):
    """No link exists without its template: remove_template takes the template out only when its link set is known and empty, and
    only for an id that is not a link; unlink only for an id that is not a template."""
    rule = "C08.GUARD.ids"
    f = get_fn(chk, facts, rule, AST_PS + "remove_template")
    if f is not None:
        rem = [(b, t) for b, t in f.calls() if callee(t).endswith("::remove") and "LinkedHashMap" in callee(t) and
               any(isinstance(e, list) and e[0] == "f" and e[2] == "templates" for e in (t[2][0][1][1:] if t[2][0][0] in ("c", "m") else []))]
        if not rem:
            from lib.slice import leaf_producers
            rem = [(b, t) for b, t in f.calls() if callee(t).endswith("::remove") and "LinkedHashMap" in callee(t) and any(x.endswith("templates") for x in leaf_producers(f, t[2][0]))]
        ok = bool(rem)
        det = []
        for b, t in rem:
            descs = [(panics.cond_desc(f, d), [v for v, _ in taken]) for d, taken in cfg.guard_edges(f, b)]
            empty = any("is_empty" in dsc and tk == ["else"] for dsc, tk in descs)
            known = any("Option" in dsc and ("::get" in dsc) and tk == [1] for dsc, tk in descs)
            notlink = any("contains_key" in dsc and tk == [0] for dsc, tk in descs)
            ok &= empty and known and notlink
            det.append("link set empty: %s, link set known: %s, id not a link: %s" % (empty, known, notlink))
        chk.ob(rule, "remove_template", ok, "the template is removed only when %s" % (det or ["no removal found"]), where=f.where(), fn=f.name, key="%s:remove_template" % rule)
    g = get_fn(chk, facts, rule, AST_PS + "unlink")
    if g is not None:
        rem = [(b, t) for b, t in g.calls() if callee(t).endswith("::remove") and "LinkedHashMap" in callee(t)]
        ok = False
        for b, t in rem[:1]:
            descs = [(panics.cond_desc(g, d), [v for v, _ in taken]) for d, taken in cfg.guard_edges(g, b)]
            ok = any("contains_key" in dsc and tk == [0] for dsc, tk in descs)
        chk.ob(rule, "unlink", ok, "a policy is unlinked only when its id is not a template id: %s" % ok, where=g.where(), fn=g.name, key="%s:unlink" % rule)


def index_monotone(chk, facts):
    """The link index never forgets a link: an overwriting insert into template_to_links_map happens only for a template that is
    provably new (under the Vacant entry of `templates`), or writes back the set it just removed (merge); links of an existing
    template are added to its set (entry().or_default().insert)."""
    rule = "C08.PAIR.index"
    n = 0
    for name in facts.unit_fns("cedar_policy_core.lib"):
        if not name.startswith(AST_PS) or "closure" in name:
            continue
        f = facts.fns[name]
        L = shape.Labels(f, None, self_field_seed if "self_field_seed" in globals() else None,
                         call_labels=lambda c, t: ["OLDSET"] if c.split("::")[-1] in ("remove", "get", "get_mut") and "LinkedHashMap" in c else None)
        for b, t in f.calls():
            c = callee(t)
            if not (c.endswith("LinkedHashMap::<K, V, S>::insert") or c.endswith("LinkedHashMap<K, V, S>::insert") or ("LinkedHashMap" in c and c.endswith("::insert"))):
                continue
            recv_fields = {e[2] for p_ in [t[2][0][1]] if t[2][0][0] in ("c", "m") for e in p_[1:] if isinstance(e, list) and e[0] == "f"}
            if "template_to_links_map" not in recv_fields:
                # receiver may be a reference local: follow one step
                from lib.slice import leaf_producers
                if not any(x.endswith("template_to_links_map") for x in leaf_producers(f, t[2][0])):
                    continue
            writes_back = len(t[2]) > 2 and "OLDSET" in L.operand_labels(t[2][2])
            vacancy = False
            for d, taken in cfg.guard_edges(f, b):
                sw = f.blocks[d]["t"]
                if sw[1][0] not in ("c", "m"):
                    continue
                for bb, s_ in f.stmts():
                    if s_[0] == "a" and s_[1] == sw[1][1] and s_[2][0] == "disc":
                        base = s_[2][1][0]
                        ty = f.locals[base] if isinstance(base, int) else ""
                        # Entry::Vacant and Option::Some both have discriminant 1: the site must be reachable through that arm only
                        if ("VacantEntry" in ty or "Entry<" in ty) and "Template" in ty and [v for v, _ in taken] == [1]:
                            vacancy = True
            n += 1
            chk.ob(rule, "index-insert@%s" % short(name).split("::")[-1], writes_back or vacancy,
                   "%s overwrites the link set of a template %s" % (short(name).split("::")[-1], "that is new (under the Vacant entry of `templates`)" if vacancy else
                                                               ("with the set it just took out and extended" if writes_back else "that may already have links: earlier links are forgotten by the index")),
                   where=f.where(t[1].get("l")), fn=name, key="%s:index-insert:%s" % (rule, name))
    chk.floor(rule, "overwriting index inserts", n, 4)


def binding(chk, facts):
    rule = "C08.BINDING"
    T = "cedar_policy_core::ast::policy::Template::"
    f = get_fn(chk, facts, rule, T + "check_binding")
    if f is not None:
        n = 0
        for ub in (True, False):
            for ex in (True, False):
                state = {"n": 0}

                class O(AtomOracle):
                    def call(self, cal, args, term, interp):
                        if cal.endswith("::is_empty"):
                            # first emptiness test = unbound slots, second = extra values, in source order
                            state["n"] += 1
                            ls = state.setdefault("order", [])
                            return tt.I(1 if (ub if len(ls) == 0 and not ls.append("unbound") else ex) else 0)
                        return AtomOracle.call(self, cal, args, term, interp)

                    def res_discriminant(self, v, adt):
                        # loops that fill the two collections are not part of the decision: zero iterations
                        if v[0] == "res" and v[1].endswith("::next") and adt.endswith("Option"):
                            return 0
                        return AtomOracle.res_discriminant(self, v, adt)
                try:
                    ret, trace = tt.Interp(f, O()).run(arg_syms(f))
                except tt.Undecided as e:
                    chk.ob(rule, "check_binding:%s,%s" % (ub, ex), False, "undecided: %s" % e, where=f.where(), fn=f.name)
                    continue
                got = ret[2] if ret[0] == "adt" else repr(ret)[:40]
                want = "Ok" if (ub and ex) else "Err"
                n += 1
                chk.ob(rule, "check_binding:unbound_empty=%s,extra_empty=%s" % (ub, ex), got == want,
                       "check_binding returns %s; required %s (Ok iff exactly the template's slots are bound)" % (got, want), where=f.where(), fn=f.name,
                       sample={"unbound_empty": ub, "extra_empty": ex, "result": got})
        # both directions are looked at: unbound slots can only be found by enumerating the template's slots, extra values only by
        # enumerating the given values (whatever the membership test looks like: contains_key, any, a nested loop, a set difference)
        L = shape.Labels(f, None, None, param_labels={1: {"template"}, 2: {"values"}})
        ITER = ("::iter", "::into_iter", "::keys", "::into_keys", "::iter_mut", "::drain")
        it_src = set()
        for b, t in f.calls():
            if callee(t).endswith(ITER) and t[2]:
                it_src |= L.operand_labels(t[2][0]) & {"template", "values"}
        for g in facts.closures_of(f.name):
            for b, t in g.calls():
                c = callee(t)
                if c.endswith(ITER) and ("HashMap" in c or "hash_map" in c):
                    it_src.add("values")
                elif c.endswith(ITER):
                    it_src.add("template")
        both = {"template", "values"} <= it_src
        chk.ob(rule, "check_binding:both-directions", both,
               "check_binding enumerates both the template's slots (to find unbound ones) and the given values (to find extra ones): iterates over %s" % sorted(it_src),
               where=f.where(), fn=f.name)
        chk.floor(rule, "rows", n, 4)
    for nm in ("link", "try_as_policy"):
        g = get_fn(chk, facts, rule, T + nm)
        if g is None:
            continue
        cb = protocol.calls_matching(g, "Template::check_binding")
        ok = bool(cb)
        det = "no check_binding call"
        if cb:
            ok, det = protocol.honor_result(g, cb[0][0])
            # a Policy is constructed only after the check
            ctor = [b for b, t in g.calls() if callee(t).endswith(("Policy::new",))]
            dom_ok = all(cfg.dominates(g, cb[0][0], b) for b in ctor)
            # or: constructed inside a closure that is only applied through `.map` on the check's Ok value
            clos = [c for c in facts.closures_of(g.name) if any(callee(t).endswith("Policy::new") for _, t in c.calls())]
            via_map = False
            for b2, t2 in g.calls():
                if callee(t2).endswith("Result::<T, E>::map") and t2[2] and panics.producer(g, t2[2][0]).endswith("Template::check_binding"):
                    via_map = True
            n_sites = len(ctor) + len(clos)
            ok = (ok or via_map) and dom_ok and n_sites >= 1 and (not clos or via_map)
            det += "; %d policy construction site(s), all after / under the Ok of the check (via Result::map: %s)" % (n_sites, via_map)
        chk.ob(rule, "Template::" + nm, ok, "Template::%s: %s" % (nm, det), where=g.where(), fn=g.name)


def equality(chk, facts):
    """PartialEq of the types merge compares must consult every semantic field."""
    rule = "C08.EQ"
    IGNORED = {"loc", "source_loc"}
    n = 0
    for adt in ("cedar_policy_core::ast::policy::TemplateBodyImpl", "cedar_policy_core::ast::policy::Template",
                "cedar_policy_core::ast::policy::Policy", "cedar_policy_core::ast::policy::StaticPolicy"):
        r = facts.adts.get(adt)
        if r is None:
            chk.lost(rule, adt)
            continue
        eqs = [nme for nme in facts.fns if nme == "<" + adt + " as std::cmp::PartialEq>::eq"]
        if len(eqs) != 1:
            chk.lost(rule, "PartialEq for " + adt, "found %d" % len(eqs))
            continue
        f = facts.fns[eqs[0]]
        read = set()
        for g in [f] + facts.closures_of(f.name):
            for b, s in g.stmts():
                if s[0] == "a":
                    for p in shape._rv_places(s[2]):
                        for var, fld, a in shape.place_fields(p):
                            if a == adt:
                                read.add(fld)
            for b, t in g.calls():
                for o in t[2]:
                    if o[0] in ("c", "m"):
                        for var, fld, a in shape.place_fields(o[1]):
                            if a == adt:
                                read.add(fld)
        fields = [fl[0] for fl in r["variants"][0]["fields"]]
        missing = [x for x in fields if x not in read and x not in IGNORED]
        n += 1
        chk.ob(rule, adt.split("::")[-1], not missing,
               "PartialEq of %s compares fields %s%s" % (adt.split("::")[-1], sorted(read), "" if not missing else "; ignores %s — policies/templates differing only there compare equal, so merge misses the id collision" % missing),
               where=f.where(), fn=f.name, key="%s:%s:%s" % (rule, adt, ",".join(missing)), sample={"type": adt.split("::")[-1], "compared": sorted(read), "all": fields})
    chk.floor(rule, "types", n, 4)


def link_fields(chk, facts):
    """A link's effect / annotations / condition come from its template; its slot values from the link."""
    rule = "C08.LINK.fields"
    P = "cedar_policy_core::ast::policy::Policy::"
    for nm, want in (("effect", "template"), ("annotations", "template"), ("annotation", "template"), ("condition", "template"), ("env", "values"),
                     ("annotations_arc", "template")):
        f = facts.fn(P + nm)
        if f is None:
            continue
        read = set()
        for b, s in f.stmts():
            if s[0] == "a":
                for p in shape._rv_places(s[2]):
                    for var, fld, a in shape.place_fields(p):
                        if a.endswith("ast::policy::Policy"):
                            read.add(fld)
        chk.ob(rule, "Policy::" + nm, read == {want}, "Policy::%s reads field(s) %s of the policy; required {%s}" % (nm, sorted(read), want), where=f.where(), fn=f.name,
               sample={"fn": nm, "reads": sorted(read)})
    # evaluation pairs condition() with env() of the same policy
    for ev in ("cedar_policy_core::evaluator::Evaluator::evaluate", "cedar_policy_core::evaluator::Evaluator::partial_evaluate"):
        g = get_fn(chk, facts, rule, ev)
        if g is None:
            continue
        it = tt.Interp(g, AtomOracle(res_disc=lambda v, a: 0 if a.endswith("ControlFlow") else None))
        try:
            ret, trace = it.run(arg_syms(g))
        except tt.Undecided:
            trace = it.trace   # the calls made before the first undecided branch
        ok = False
        if trace is not None:
            for c, a, l, r in trace:
                if c.endswith(("Evaluator::interpret", "Evaluator::partial_interpret")) and len(a) >= 3:
                    ok = any(x.endswith("Policy::condition") for x in res_calls(a[1])) and any(x.endswith("Policy::env") for x in res_calls(a[2])) \
                        and syms(a[1]) == {("arg2",)} and syms(a[2]) == {("arg2",)}
        chk.ob(rule, ev.split("::")[-1], ok, "%s interprets p.condition() under p.env() of the same policy: %s" % (ev.split("::")[-1], ok), where=g.where(), fn=g.name)


def views(chk, facts):
    """Authorization considers exactly the policies of the set: policies() is the whole `links` map (no filter), lookups read the
    map they are named after, is_empty looks at both maps, and the authorizer iterates policies()."""
    rule = "C08.VIEW"
    PS = "cedar_policy_core::ast::policy_set::PolicySet"
    FILTERS = ("filter", "filter_map", "take", "skip", "take_while", "skip_while", "step_by")

    def reads(g):
        out = set()
        for _, s_ in g.stmts():
            if s_[0] == "a":
                for p_ in shape._rv_places(s_[2]):
                    for e in p_[1:]:
                        if isinstance(e, list) and e[0] == "f" and e[3].endswith("policy_set::PolicySet"):
                            out.add(e[2])
        return out
    spec = [("policies", {"links"}, "values", True), ("into_policies", {"links"}, "into_iter", True), ("all_templates", {"templates"}, "values", True),
            ("get", {"links"}, "get", True), ("get_template", {"templates"}, "get", True), ("get_template_arc", {"templates"}, "get", True),
            ("is_empty", {"links", "templates"}, "is_empty", True)]
    for meth, fields, via, nofilter in spec:
        g = get_fn(chk, facts, rule, PS + "::" + meth)
        if g is None:
            continue
        cs = [callee(t).split("::")[-1] for _, t in g.calls()]
        fl = [c for c in cs if c in FILTERS]
        got = reads(g)
        ok = got == fields and via in cs and not fl
        chk.ob(rule, meth, ok, "PolicySet::%s reads %s through %s%s (required: %s, unfiltered)" % (meth, sorted(got), via if via in cs else cs, (" with " + str(fl)) if fl else "", sorted(fields)),
               where=g.where(), fn=g.name, key="%s:%s" % (rule, meth))
    # the authorizer evaluates policies()
    a = facts.fn("cedar_policy_core::authorizer::Authorizer::is_authorized_core_internal") or facts.fn("cedar_policy_core::authorizer::Authorizer::is_authorized_core")
    if a is None:
        for n in facts.fns.index:
            if n.startswith("cedar_policy_core::authorizer::Authorizer::") and "closure" not in n:
                g = facts.fns[n]
                if any(callee(t) == PS + "::policies" for _, t in g.calls()):
                    a = g
    if a is None:
        chk.lost(rule, "the authorizer's loop over PolicySet::policies")
    else:
        uses = sorted({callee(t).split("::")[-1] for _, t in a.calls() if callee(t).startswith(PS + "::")})
        chk.ob(rule, "authorizer", uses == ["policies"], "%s reads the policy set through %s (required: policies() only)" % (short(a.name), uses), where=a.where(), fn=a.name)


def wrapper_tables(chk, facts):
    """The API's policy set keeps two shadow tables beside the core set. When it is rebuilt from a core set (protobuf decode,
    From<ast::PolicySet>, TPE's policy_set()), `templates` lists the core set's templates() — the ones with slots, not
    all_templates(), which also holds the bodies of static policies — and `policies` lists its policies()."""
    rule = "C08.VIEW"
    f = get_fn(chk, facts, rule, "cedar_policy::api::PolicySet::from_ast")
    if f is None:
        return
    L = shape.Labels(f, None, None, call_labels=lambda c, t: (["V:" + c.split("::")[-1]] if c.startswith("cedar_policy_core::ast::") and "PolicySet::" in c else None))
    adt = facts.adts.get("cedar_policy::api::PolicySet")
    aggs = [s_ for _, s_ in f.stmts() if s_[0] == "a" and s_[2][0] == "agg" and s_[2][1][0] == "adt" and str(s_[2][1][1]) == "cedar_policy::api::PolicySet"]
    if not adt or len(aggs) != 1:
        chk.lost(rule, "the PolicySet literal of api::PolicySet::from_ast")
        return
    names = [fl[0] for fl in adt["variants"][0]["fields"]]
    want = {"templates": {"templates"}, "policies": {"policies"}}
    for i, o in enumerate(aggs[0][2][2]):
        nm = names[i] if i < len(names) else str(i)
        if nm not in want:
            continue
        labs = {x[2:] for x in L.operand_labels(o) if x.startswith("V:")}
        chk.ob(rule, "from_ast:" + nm, labs == want[nm], "api PolicySet::from_ast fills its `%s` table from the core set's %s (must be exactly %s())" % (nm, sorted(labs), sorted(want[nm])[0]),
               where=f.where(aggs[0][3]), fn=f.name, key="%s:from_ast:%s" % (rule, nm), sample={"table": nm, "from": sorted(labs)})


def run(chk, facts, tier):
    facts.load_crate("cedar_policy_core.lib")
    facts.load_crate("cedar_policy.lib")
    chk.explanation = (
        "Static decision of the policy-set edit protocol on the current MIR: (ATOMIC) in the 8 core and 7 API edit operations no error return is reachable after a mutation of "
        "self unless every such path re-writes the same field (compensation), where calls of the core operations count as mutations only on their success edge; (GUARD.ids) "
        "writes in link/add_static/add_template are guarded by tests on both id maps; (PAIR.index) success paths write the primary maps together with the link index / the API "
        "shadow maps; (BINDING) check_binding's 4-row table is Ok iff no unbound and no extra slot, tests both directions, and Template::link constructs a policy only after it; "
        "(EQ) PartialEq of template/policy types compares every field but source locations (merge's collision detection relies on it); (LINK.fields) effect, annotations and "
        "condition of a link are read from its template and evaluated under its own slot environment; (VIEW) policies() is the whole link map, lookups read the map they are named after "
        "and the authorizer reads the set through policies() only. Declines equivalence with the substituted static policy (C02) and multi-operation histories.")
    chk.assumptions = ["std / linked-hash-map collection mutators are recognised by name (insert, remove, push, ...)", "MIR at mir-opt-level=0 reflects source control flow"]
    atomic(chk, facts)
    id_guards(chk, facts)
    pair_index(chk, facts)
    merge_collisions(chk, facts)
    fresh_ids(chk, facts)
    removal_guards(chk, facts)
    binding(chk, facts)
    equality(chk, facts)
    link_fields(chk, facts)
    views(chk, facts)
    wrapper_tables(chk, facts)
