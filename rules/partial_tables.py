"""Specification of partial decisions over bucket non-emptiness flags, derived
from the concrete decision rule (not copied from the code).

Flags: tf = some forbid definitely true, tp = some permit definitely true,
rp = some permit residual, rf = some forbid residual. A completion turns each
residual into true / false / error independently. The concrete decision is
Deny if any forbid is true, else Allow if any permit is true, else Deny.
"""
import itertools


def possible_decisions(tf, tp, rp, rf):
    out = set()
    # enumerate what residual permits / forbids may become (any one can become true or not)
    for rp_true in ([False, True] if rp else [False]):
        for rf_true in ([False, True] if rf else [False]):
            forbid = tf or rf_true
            permit = tp or rp_true
            out.add("Allow" if (permit and not forbid) else "Deny")
    return out


def rows16():
    for tf, tp, rp, rf in itertools.product([False, True], repeat=4):
        yield {"tf": tf, "tp": tp, "rp": rp, "rf": rf}


def judge(row, got):
    """got: 'Allow' | 'Deny' | 'None'. Returns (ok, message)."""
    poss = possible_decisions(row["tf"], row["tp"], row["rp"], row["rf"])
    if got in ("Allow", "Deny"):
        ok = poss == {got}
        return ok, "reports %s; decisions possible over all completions: %s" % (got, sorted(poss))
    if got == "None":
        # soundness allows None anywhere, but with no residuals a decision is owed
        if not row["rp"] and not row["rf"]:
            return False, "reports no decision although nothing is residual (decision owed: %s)" % sorted(poss)
        return True, "reports no decision; possible: %s%s" % (sorted(poss), " (inexact but sound)" if len(poss) == 1 else "")
    return False, "unrecognised result %r" % (got,)


def render_option_decision(v):
    """Abstract value of an Option<Decision> aggregate -> 'Allow'|'Deny'|'None'|repr."""
    if v[0] == "adt" and v[1].endswith("Option"):
        if v[2] == "None":
            return "None"
        if v[2] == "Some" and v[4] and v[4][0][0] == "adt":
            return v[4][0][2]
    return repr(v)[:80]
