"""C05 — policy text round trip: printer structure only.

Decides: (ONE-PRINTER) Display of AST expressions / policies goes through the EST
printer; (PRINT.children) every EST variant prints all of its children, in
operand order; (PRINT.parens) children in operator / receiver position are printed
through the parenthesising printer (a left operand may be printed bare only under
the same-operator test of a left-associative operator), and the parenthesising
printer leaves bare only member-level forms; (ESCAPE) identifiers and strings that
come from the program are written either after an `is_normalized_ident` test or
through `escape_debug`. Declines: sufficiency of the parenthesisation for the whole
grammar, literal folding of `-N`, correctness of the unescaper.
"""
from lib import shape, cfg, traverse, panics
from lib.facts import callee
from lib.rulelib import get_fn, short

ENE = "cedar_policy_core::est::expr::ExprNoExt"
PRINTER = "<cedar_policy_core::est::expr::ExprNoExt as cedar_policy_core::ast::value::BoundedDisplay>::fmt"
EXT_PRINTER = "<cedar_policy_core::est::expr::ExtFuncCall as cedar_policy_core::ast::value::BoundedDisplay>::fmt"
MWP = "cedar_policy_core::est::expr::maybe_with_parens"
MARK = ("est::expr::Expr",)

# children that sit in operator / receiver position in the printed text (from the grammar: operands of an
# infix operator, of prefix `!`, and receivers of `.f`, `[..]`, ` has `, ` like `, ` is ` print at a level
# that does not include the looser forms)
MUST_PARENS = {
    "Not": ["arg"],
    "Eq": ["left", "right"], "NotEq": ["left", "right"], "In": ["left", "right"], "Less": ["left", "right"], "LessEq": ["left", "right"],
    "Greater": ["left", "right"], "GreaterEq": ["left", "right"],
    "And": ["right"], "Or": ["right"], "Add": ["right"], "Sub": ["right"], "Mul": ["right"],
    "Contains": ["left"], "ContainsAll": ["left"], "ContainsAny": ["left"], "IsEmpty": ["arg"], "GetTag": ["left"], "HasTag": ["left"],
    "GetAttr": ["left"], "Like": ["left"], "Is": ["left", "in_expr"],
}
LEFT_ASSOC = ["And", "Or", "Add", "Sub", "Mul"]
# forms that print as `Primary MemAccess*` and therefore never need parentheses around themselves
MEMBER_LEVEL = {"Set", "Record", "Value", "Var", "Slot", "GetAttr", "Contains", "ContainsAll", "ContainsAny", "IsEmpty", "GetTag", "HasTag", "Error"}


def sinks(f, L):
    """[(kind, labels, block, line)] kind in parens | direct"""
    out = []
    for b, t in f.calls():
        c = callee(t)
        if c == MWP and len(t[2]) >= 2:
            out.append(("parens", L.operand_labels(t[2][1]), b, t[1].get("l")))
        elif c.endswith(("BoundedDisplay>::fmt", "BoundedDisplay::fmt", "BoundedDisplay::fmt_unbounded")) and t[2]:
            out.append(("direct", L.operand_labels(t[2][0]), b, t[1].get("l")))
        elif c.endswith(("fmt::rt::Argument::new_display", "fmt::rt::Argument::<'_>::new_display", "Argument::new_debug")) and t[2]:
            out.append(("direct", L.operand_labels(t[2][0]), b, t[1].get("l")))
        elif c.endswith(("est::expr::display_cedarvaluejson", "itertools::Itertools::join")) and t[2]:
            labs = set()
            for o in t[2]:
                labs |= L.operand_labels(o)
            out.append(("direct", labs, b, t[1].get("l")))
    return out


def printer(chk, facts):
    rule_c = "C05.PRINT.children"
    rule_p = "C05.PRINT.parens"
    f = get_fn(chk, facts, rule_c, PRINTER)
    if f is None:
        return
    r = facts.adts.get(ENE)
    vidx = {v["name"]: i for i, v in enumerate(r["variants"])}
    L = shape.Labels(f, None, shape.variant_field_seed("est::expr::ExprNoExt"))
    # HasAttr wraps a nested enum: seed its fields too
    L2 = shape.Labels(f, None, shape.variant_field_seed("est::expr::HasAttrRepr"))
    sk = sinks(f, L)
    kids = traverse.child_fields(facts, ENE, MARK) or []
    n = 0
    for v, g in kids:
        lab = "%s.%s" % (v, g)
        hit = [s for s in sk if lab in s[1]]
        n += 1
        chk.ob(rule_c, lab, bool(hit), "child %s is printed (%s)" % (lab, sorted({s[0] for s in hit}) or "never: it disappears from the printed policy"),
               where=f.where(hit[0][3] if hit else None), fn=f.name, key="%s:%s" % (rule_c, lab), sample={"child": lab, "modes": sorted({s[0] for s in hit})})
    chk.floor(rule_c, "children of ExprNoExt", n, 42)
    # operand order: first child printed before the later ones
    for v in r["variants"]:
        fl = [x[0] for x in v["fields"] if any(m in x[1] for m in MARK)]
        if len(fl) < 2:
            continue
        blocks = []
        for g in fl:
            bs = [s[2] for s in sk if "%s.%s" % (v["name"], g) in s[1]]
            blocks.append(bs)
        ok = True
        for i in range(len(fl) - 1):
            if not blocks[i] or not blocks[i + 1]:
                ok = False
                continue
            # every path to a print of the later child crosses a print of the earlier one
            ok &= cfg.must_pass(f, 0, set(blocks[i + 1]) - set(blocks[i]), set(blocks[i]))
        chk.ob(rule_c, "order:" + v["name"], ok, "%s prints its children in operand order %s: %s" % (v["name"], fl, ok), where=f.where(), fn=f.name,
               key="%s:order:%s" % (rule_c, v["name"]))
    # parenthesisation
    m = 0
    for v, fields in sorted(MUST_PARENS.items()):
        for g in fields:
            lab = "%s.%s" % (v, g)
            hit = [s for s in sk if lab in s[1]]
            bare = [s for s in hit if s[0] == "direct"]
            par = [s for s in hit if s[0] == "parens"]
            m += 1
            chk.ob(rule_p, lab, bool(par) and not bare,
                   "%s is in operator/receiver position: printed through maybe_with_parens at %d site(s)%s" % (lab, len(par), "" if not bare else " but also printed bare at line %s (a compound operand loses its parentheses and re-parses differently)" % bare[0][3]),
                   where=f.where((bare or par or [(0, 0, 0, None)])[0][3]), fn=f.name, key="%s:%s" % (rule_p, lab), sample={"child": lab, "parens_sites": len(par), "bare_sites": len(bare)})
    for v in LEFT_ASSOC:
        lab = "%s.left" % v
        hit = [s for s in sk if lab in s[1]]
        bare = [s for s in hit if s[0] == "direct"]
        par = [s for s in hit if s[0] == "parens"]
        ok = bool(par)
        det = []
        for s in bare:
            # allowed only under `matches!(left, same variant)`
            guarded = False
            edges = list(cfg.guard_edges(f, s[2]))
            # `matches!(..)` materialises a boolean: follow it to the blocks that set it to the taken value
            more = []
            for d, taken in edges:
                tsw = f.blocks[d]["t"]
                if tsw[1][0] in ("c", "m") and len(tsw[1][1]) == 1:
                    ds = panics._def_sites(f).get(tsw[1][1][0], [])
                    if len(ds) >= 2 and all(x[0] == "st" and x[2][2][0] == "use" and x[2][2][1][0] == "k" and "v" in x[2][2][1][1] for x in ds):
                        want = [1] if [x for x, _ in taken] == ["else"] else [0]
                        for x in ds:
                            if x[2][2][1][1]["v"] in want:
                                more += list(cfg.guard_edges(f, x[1]))
            for d, taken in edges + more:
                tsw = f.blocks[d]["t"]
                ds = panics._def_sites(f).get(tsw[1][1][0], []) if tsw[1][0] in ("c", "m") else []
                if len(ds) == 1 and ds[0][0] == "st" and ds[0][2][2][0] == "disc" and ds[0][2][2][2].endswith("est::expr::ExprNoExt"):
                    if [x for x, _ in taken] == [vidx[v]] and lab in L.place_labels(ds[0][2][2][1]):
                        guarded = True
            det.append(guarded)
            ok &= guarded
        m += 1
        chk.ob(rule_p, lab, ok, "%s (left operand of a left-associative operator) is printed through maybe_with_parens, and bare only when it is itself a %s: %s" % (lab, v, det or "no bare site"),
               where=f.where((bare or par or [(0, 0, 0, None)])[0][3]), fn=f.name, key="%s:%s" % (rule_p, lab))
    # HasAttr (nested repr): receiver in parens
    sk2 = sinks(f, L2)
    for lab in ("Simple.left", "Extended.left"):
        hit = [s for s in sk2 if lab in s[1]]
        bare = [s for s in hit if s[0] == "direct"]
        par = [s for s in hit if s[0] == "parens"]
        m += 1
        chk.ob(rule_p, "HasAttr:" + lab, bool(par) and not bare, "the receiver of `has` (%s) is printed through maybe_with_parens only: %s" % (lab, bool(par) and not bare),
               where=f.where(), fn=f.name, key="%s:HasAttr:%s" % (rule_p, lab))
    chk.floor(rule_p, "operand positions", m, 37)
    # the parenthesising printer itself: which variants does it leave bare
    g = get_fn(chk, facts, rule_p, MWP)
    if g is not None:
        sws = sorted(shape.variant_switches(g, "est::expr::ExprNoExt"), key=lambda s: -len(s[2]))
        if not sws:
            chk.lost(rule_p, "match in maybe_with_parens")
        else:
            b, scrut, arms, other = sws[0]
            bare_vars = []
            for vi, tgt in arms.items():
                reach = cfg.reachable(g, tgt, cut_blocks={b})
                # an arm that writes "(" ... ")" calls write_fmt before and after the inner print
                writes = [bb for bb, t in g.calls() if bb in reach and callee(t).endswith(("Write::write_fmt", "Write::write_str", "Write::write_char"))]
                inner = [bb for bb, t in g.calls() if bb in reach and callee(t).endswith(("BoundedDisplay>::fmt", "BoundedDisplay::fmt"))]
                wrapped = bool(inner) and any(cfg.dominates(g, w, i) and w != i for w in writes for i in inner)
                if not wrapped:
                    bare_vars.append(r["variants"][vi]["name"])
            extra = [x for x in bare_vars if x not in MEMBER_LEVEL]
            chk.ob(rule_p, "maybe_with_parens:table", not extra and len(bare_vars) >= 8,
                   "maybe_with_parens prints bare exactly the member-level forms %s%s" % (sorted(bare_vars), "" if not extra else "; %s are NOT member-level and need parentheses" % extra),
                   where=g.where(), fn=g.name, key="%s:mwp:%s" % (rule_p, ",".join(extra)), sample={"bare": sorted(bare_vars)})
    # method-style extension calls: receiver through maybe_with_parens
    h = get_fn(chk, facts, rule_p, EXT_PRINTER)
    if h is not None:
        def seed(p):
            for e in p[1:]:
                if isinstance(e, list) and e[0] == "ci" and e[1] == 0 and not e[2]:
                    return ["receiver"]
            return []
        Lh = shape.Labels(h, None, seed)
        sh = sinks(h, Lh)
        par = [s for s in sh if s[0] == "parens" and "receiver" in s[1]]
        bare = [s for s in sh if s[0] == "direct" and "receiver" in s[1]]
        chk.ob(rule_p, "ExtFuncCall:receiver", bool(par) and not bare,
               "the receiver of a method-style extension call is printed through maybe_with_parens (%d site)%s" % (len(par), "" if not bare else " but also bare at line %s" % bare[0][3]),
               where=h.where((bare or par or [(0, 0, 0, None)])[0][3]), fn=h.name, key="%s:ExtFuncCall:receiver" % rule_p)


def escape(chk, facts):
    """SmolStr payloads (attribute names, record keys) are written bare only under is_normalized_ident, otherwise via escape_debug."""
    rule = "C05.ESCAPE"
    f = get_fn(chk, facts, rule, PRINTER)
    if f is None:
        return

    def seed(p):
        out = []
        var = None
        for e in p[1:]:
            if isinstance(e, list):
                if e[0] == "d":
                    var = e[1]
                elif e[0] == "f" and var is not None and e[3].endswith(("est::expr::ExprNoExt", "est::expr::HasAttrRepr")) and e[2] in ("attr",):
                    out.append("%s.%s" % (var, e[2]))
                    var = None
        return out
    L = shape.Labels(f, None, seed, call_labels=lambda c, t: ["ESC"] if c.endswith("::escape_debug") else None)
    n = 0
    for b, t in f.calls():
        c = callee(t)
        if not c.endswith(("Argument::new_display", "Argument::<'_>::new_display")):
            continue
        labs = L.operand_labels(t[2][0])
        src = {x for x in labs if x != "ESC"}
        if not src:
            continue
        escaped = "ESC" in labs
        guarded = False
        for d, taken in cfg.guard_edges(f, b):
            tsw = f.blocks[d]["t"]
            if tsw[1][0] in ("c", "m") and "is_normalized_ident" in panics.producer(f, tsw[1]) and [x for x, _ in taken] == ["else"]:
                guarded = True
        n += 1
        chk.ob(rule, "%s@L%s" % (sorted(src)[0], t[1].get("l")), escaped or guarded,
               "program string %s is written %s" % (sorted(src), "through escape_debug" if escaped else ("bare under is_normalized_ident" if guarded else "BARE and unescaped: a name that is not an identifier breaks the printed policy")),
               where=f.where(t[1].get("l")), fn=f.name, key="%s:%s" % (rule, sorted(src)[0]), sample={"string": sorted(src), "escaped": escaped, "ident_guard": guarded})
    chk.floor(rule, "program strings written", n, 8)


UNICODE_CHAR_PREDICATES = ("is_alphabetic", "is_alphanumeric", "is_numeric", "is_lowercase", "is_uppercase", "is_whitespace", "is_control")


def ident_guard(chk, facts):
    """The guard under which a name is printed bare must accept only what the lexer reads back as one identifier:
    is_normalized_ident decides with the grammar's own IDENTIFIER pattern (anchored) and excludes the reserved words."""
    from lib import grammar
    rule = "C05.ESCAPE.ident"
    f = get_fn(chk, facts, rule, "cedar_policy_core::ast::name::is_normalized_ident")
    if f is None:
        return
    g = grammar.load()
    want = g["regex"].get("IDENTIFIER")
    pats = []
    for b, t in f.calls():
        if callee(t).endswith("Regex::is_match"):
            prod = panics.producer(f, t[2][0])
            if prod.startswith("static:"):
                st = prod[len("static:"):]
                for cl in facts.closures_of(st):
                    if any(callee(t2).endswith("Regex::new") for _, t2 in cl.calls()):
                        pats += [s_[2][1][1]["s"] for _, s_ in cl.stmts() if s_[0] == "a" and s_[2][0] == "use" and s_[2][1][0] == "k" and "s" in s_[2][1][1]]
                        pats += [o[1]["s"] for _, t2 in cl.calls() for o in t2[2] if o[0] == "k" and "s" in o[1]]
    unicode_preds = []
    ascii_preds = []
    for body in [f] + facts.closures_of(f.name):
        for b, t in body.calls():
            c = callee(t)
            last = c.split("::")[-1]
            if "char" in c and last in UNICODE_CHAR_PREDICATES:
                unicode_preds.append(last)
            if "char" in c and last.startswith("is_ascii"):
                ascii_preds.append(last)
    if pats:
        ok = want is not None and sorted(set(pats)) == ["^" + want + "$"]
        det = "decides with the pattern %s; the lexer's IDENTIFIER token is %s" % (sorted(set(pats)), want)
    elif unicode_preds:
        ok = False
        det = "scans characters with the Unicode-aware predicate(s) %s: names the lexer (%s) cannot read back as an identifier are printed bare" % (sorted(set(unicode_preds)), want)
    elif ascii_preds:
        ok = True
        det = "scans characters with ASCII-only predicates %s (agreement with %s beyond the character class is not decided)" % (sorted(set(ascii_preds)), want)
    else:
        ok = False
        det = "neither a pattern equal to the lexer's IDENTIFIER nor an ASCII character scan was found"
    chk.ob(rule, "pattern", ok, "is_normalized_ident %s" % det, where=f.where(), fn=f.name, key="%s:pattern" % rule, sample={"patterns": sorted(set(pats)), "lexer": want})
    # reserved words are excluded (they would lex as keywords)
    res = [(b, t) for b, t in f.calls() if callee(t).endswith("::contains") and "RESERVED_IDS" in panics.producer(f, t[2][0])]
    neg = any(s_[0] == "a" and s_[2][0] == "un" and s_[2][1] == "Not" for _, s_ in f.stmts())
    chk.ob(rule, "reserved", bool(res) and neg, "reserved words are excluded (RESERVED_IDS.contains, negated): %s" % (bool(res) and neg), where=f.where(), fn=f.name)
    # ... and the reserved set covers the grammar's keyword tokens that may not be used as identifiers in expression position
    ids = set()
    for cl in facts.closures_of("cedar_policy_core::ast::name::RESERVED_IDS"):
        for _, s_ in cl.stmts():
            if s_[0] == "a":
                _strs(s_[2], ids)
        for _, t2 in cl.calls():
            _strs(t2[2], ids)
    kw = {g["aliases"][k] for k in ("TRUE", "FALSE", "IF", "THEN", "ELSE", "IN", "LIKE", "HAS", "IS") if k in g["aliases"]}
    chk.ob(rule, "keywords", kw <= ids, "RESERVED_IDS %s contains the grammar's expression keywords %s" % (sorted(ids), sorted(kw)), where=f.where(), fn=f.name, sample={"reserved": sorted(ids)})


def _strs(o, out):
    if isinstance(o, list):
        if len(o) == 2 and o[0] == "k" and isinstance(o[1], dict):
            if "s" in o[1]:
                out.add(o[1]["s"])
            return
        for x in o:
            _strs(x, out)


def one_printer(chk, facts):
    """Display / BoundedDisplay of AST expressions convert to EST (est::Builder) and use the EST printer."""
    rule = "C05.ONE-PRINTER"
    n = 0
    for nm in ("<cedar_policy_core::ast::expr::Expr<T> as std::fmt::Display>::fmt",
               "<cedar_policy_core::ast::expr::Expr<T> as cedar_policy_core::ast::value::BoundedDisplay>::fmt"):
        f = get_fn(chk, facts, rule, nm)
        if f is None:
            continue
        conv = [t for _, t in f.calls() if callee(t).endswith(("Expr::<T>::into_expr", "Expr::<T>::try_into_expr"))]
        ok = any("est::expr::Builder" in t[1].get("g", "") for t in conv)
        n += 1
        chk.ob(rule, short(nm)[:80], ok, "%s converts the expression with est::Builder and prints the EST form: %s" % (short(nm), ok), where=f.where(), fn=f.name,
               sample={"fn": short(nm), "conversion_generics": [t[1].get("g", "")[:80] for t in conv]})
    chk.floor(rule, "AST expression printers", n, 2)


def run(chk, facts, tier):
    facts.load_crate("cedar_policy_core.lib")
    chk.explanation = (
        "Static decision of the structure of the policy printer on the current MIR (BoundedDisplay for est::ExprNoExt / ExtFuncCall, maybe_with_parens): (PRINT.children) with "
        "variant-qualified label provenance every child of every EST variant reaches a print sink, and later operands are printed after earlier ones (dominance); (PRINT.parens) "
        "every child in operator / receiver position (a position table justified by the grammar) reaches the output only through maybe_with_parens, the left operand of a "
        "left-associative operator may be printed bare only under the same-operator test, maybe_with_parens leaves bare only member-level forms, and the receiver of a method-style "
        "extension call is parenthesised; (ESCAPE) attribute names written with Display are either escaped or under an is_normalized_ident guard, and that guard decides with the lexer's own IDENTIFIER pattern (read from grammar.lalrpop) minus the reserved words; (ONE-PRINTER) AST Display goes "
        "through the EST printer; (PRINT.optoken) the token each operator prints as (Display for BinaryOp / UnaryOp), read back through the grammar's operator productions, the lowering to builder methods "
        "(construct_expr_rel, add_nary / mul_nary left folds, to_meth's method-name dispatch) and the derived builder map, builds the same operator with operands in order. Declines sufficiency of the parenthesisation over the whole grammar, `-N` literal folding and the unescaper.")
    chk.assumptions = ["the operand-position table MUST_PARENS / MEMBER_LEVEL in rules/C05.py (from the Cedar grammar's precedence levels)",
                       "label provenance is flow-insensitive per function (variant-qualified seeds)"]
    printer(chk, facts)
    escape(chk, facts)
    ident_guard(chk, facts)
    one_printer(chk, facts)
    from rules import c05_tokens
    c05_tokens.check(chk, facts)
    from rules import c05_policy_print
    c05_policy_print.check(chk, facts)
