"""C06.FIELDS — record-shaped conversions keep every field under its own name.

For a conversion that builds a struct (or calls a constructor) of one representation from the
accessors / fields of another, the value bound to field (parameter) X must derive from the source's
X and from no other of the source's fields. Names are read from the ADT record / the constructor's
own parameter names; `ALIAS` lists the few fields that are spelled differently on the two sides.
"""
from lib import shape
from lib.facts import callee
from lib.rulelib import get_fn, short

PP = "cedar_policy::proto::policy::<impl std::convert::"
M = "cedar_policy::proto::models::cedar_policy_core::"
ALIAS = {"non_scope_constraint": "non_scope_constraints"}


def param_names(g):
    out = {}
    for n, p in g.r["dbg"]:
        if len(p) == 1 and 1 <= p[0] <= g.nargs:
            out.setdefault(p[0], n)
    return out


def namesake_agg(chk, rule, facts, fname, target_adt, source_type_marker, tag, skip=(), alias=None):
    """struct literal of target_adt built from accessor calls on the source value."""
    f = get_fn(chk, facts, rule, fname)
    r = facts.adts.get(target_adt)
    if f is None or r is None:
        if r is None:
            chk.lost(rule, target_adt)
        return 0
    alias = alias or {}
    names = [alias.get(x[0], x[0]) for x in r["variants"][0]["fields"]]

    def cl(c, t):
        last = c.split("::")[-1]
        if last in names and source_type_marker in c:
            return ["SRC:" + last]
        return None
    L = shape.Labels(f, None, None, call_labels=cl)
    n = 0
    found = False
    for b, s in f.stmts():
        if s[0] == "a" and s[2][0] == "agg" and s[2][1][0] == "adt" and s[2][1][1] == target_adt:
            found = True
            for nm, o in zip(s[2][1][3], s[2][2]):
                if nm in skip:
                    continue
                labs = {x[4:] for x in L.operand_labels(o) if x.startswith("SRC:")}
                n += 1
                want = alias.get(nm, nm)
                chk.ob(rule, "%s:%s" % (tag, nm), labs == {want}, "%s.%s is filled from the source's %s%s" % (target_adt.split("::")[-1], nm, sorted(labs), "" if labs == {want} else " — required exactly `%s`" % want),
                       where=f.where(s[3]), fn=f.name, key="%s:%s:%s" % (rule, tag, nm), sample={"field": nm, "from": sorted(labs)})
    if not found:
        chk.lost(rule, "%s literal in %s" % (target_adt.split("::")[-1], short(fname)))
    return n


def namesake_call(chk, rule, facts, fname, ctor_name, source_adt, tag, skip=("loc",), call_suffix=None, alias=None):
    """constructor call whose parameters are filled from fields of the source struct."""
    f = get_fn(chk, facts, rule, fname)
    g = facts.fn(ctor_name)
    r = facts.adts.get(source_adt)
    if f is None or g is None or r is None:
        if g is None:
            chk.lost(rule, ctor_name)
        if r is None:
            chk.lost(rule, source_adt)
        return 0
    pn = param_names(g)
    fields = [x[0] for x in r["variants"][0]["fields"]]

    def seed(p):
        out = []
        for e in p[1:]:
            if isinstance(e, list) and e[0] == "f" and e[3] == source_adt and e[2] in fields:
                out.append("SRC:" + e[2])
        return out
    L = shape.Labels(f, None, seed)
    sites = [(b, t) for b, t in f.calls() if callee(t) == ctor_name or (call_suffix and callee(t).endswith(call_suffix))]
    if not sites:
        chk.lost(rule, "call of %s in %s" % (short(ctor_name), short(fname)))
        return 0
    n = 0
    for b, t in sites:
        for i, o in enumerate(t[2]):
            nm = pn.get(i + 1)
            if nm is None or nm in skip:
                continue
            want = (alias or {}).get(nm, ALIAS.get(nm, nm))
            if want not in fields:
                continue
            labs = {x[4:] for x in L.operand_labels(o) if x.startswith("SRC:")}
            n += 1
            chk.ob(rule, "%s:%s" % (tag, nm), labs == {want}, "parameter %s of %s is filled from the message's %s%s" % (nm, short(ctor_name).split("::")[-1], sorted(labs), "" if labs == {want} else " — required exactly `%s`" % want),
                   where=f.where(t[1].get("l")), fn=f.name, key="%s:%s:%s" % (rule, tag, nm), sample={"param": nm, "from": sorted(labs)})
    return n


def check(chk, facts):
    rule = "C06.FIELDS"
    if chk.secondary and not any(x.startswith("cedar_policy::proto::") for x in facts.fns.index):
        chk.ob(rule, "gated:cedar_policy::proto", True, "the protobuf module is not part of the default-feature build; decided on the experimental configuration")
        return
    n = 0
    n += namesake_agg(chk, rule, facts, PP + "From<&cedar_policy_core::ast::TemplateBody> for " + M + "TemplateBody>::from",
                      M + "TemplateBody", "ast::TemplateBody::", "encode TemplateBody")
    n += namesake_call(chk, rule, facts, PP + "TryFrom<" + M + "TemplateBody> for cedar_policy_core::ast::TemplateBody>::try_from",
                       "cedar_policy_core::ast::policy::TemplateBody::new", M + "TemplateBody", "decode TemplateBody", call_suffix="ast::TemplateBody::new")
    chk.floor(rule, "record fields through the wire format", n, 14)


EST_ALIAS = {"principal": "principal_constraint", "action": "action_constraint", "resource": "resource_constraint", "conditions": "non_scope_constraints"}


def check_est(chk, facts):
    """AST <-> EST policy records (JSON policy format)."""
    rule = "C06.FIELDS"
    EP = "cedar_policy_core::est::Policy"
    n = 0
    n += namesake_agg(chk, rule, facts, "<cedar_policy_core::est::Policy as std::convert::From<cedar_policy_core::ast::policy::Policy>>::from",
                      EP, "ast::policy::Policy::", "AST policy -> EST", alias=EST_ALIAS)
    n += namesake_agg(chk, rule, facts, "<cedar_policy_core::est::Policy as std::convert::From<cedar_policy_core::ast::policy::Template>>::from",
                      EP, "ast::policy::Template::", "AST template -> EST", alias=EST_ALIAS)
    back = {v: k for k, v in EST_ALIAS.items()}
    back["non_scope_constraint"] = "conditions"
    n += namesake_call(chk, rule, facts, "cedar_policy_core::est::Policy::try_into_ast_policy_or_template", "cedar_policy_core::ast::policy::Template::new", EP,
                       "EST -> AST template", alias=back)
    chk.floor(rule, "record fields AST <-> EST", n, 17)
    # the condition list is folded so that clauses evaluate in source order: [c1, c2, c3] -> c1 && (c2 && c3)
    f = facts.fn("cedar_policy_core::est::Policy::try_into_ast_policy_or_template")
    if f is not None:
        rev = any(callee(t).endswith("::rev") for _, t in f.calls())
        folds = []
        for g in facts.closures_of(f.name):
            for b, t in g.calls():
                if callee(t).split("::")[-1] == "and" and len(t[2]) >= 3:
                    def root(o):
                        return o[1][0] if o[0] in ("c", "m") and len(o[1]) == 1 else None
                    from lib.slice import leaf_producers
                    a1 = leaf_producers(g, t[2][1])
                    a2 = leaf_producers(g, t[2][2])
                    folds.append((sorted(x for x in a1 if x.startswith("param")), sorted(x for x in a2 if x.startswith("param"))))
        # closure params: 1 = environment, 2 = accumulator, 3 = next item
        ok = bool(folds) and all((a1 == ["param:3"] and a2 == ["param:2"]) if rev else (a1 == ["param:2"] and a2 == ["param:3"]) for a1, a2 in folds)
        chk.ob(rule, "EST conditions fold", ok, "conditions are folded %s with and(%s): clauses keep their source order: %s" % ("from the right (rev)" if rev else "from the left", folds, ok),
               where=f.where(), fn=f.name, key="%s:est-conditions-fold" % rule)


def check_links(chk, facts):
    """Template links through protobuf: each slot's binding travels in the field named after that slot, both ways."""
    rule = "C06.FIELDS"
    if chk.secondary and not any(x.startswith("cedar_policy::proto::") for x in facts.fns.index):
        return
    f = get_fn(chk, facts, rule, PP + "From<&cedar_policy_core::ast::Policy> for " + M + "Policy>::from")
    n = 0

    def slot_label(c, t):
        last = c.split("::")[-1]
        if "SlotId" in c and last in ("principal", "resource"):
            return ["SLOT:" + last]
        if ("ast::Policy::" in c or "ast::policy::Policy::" in c) and last in ("id", "template", "is_static", "env"):
            return ["ACC:" + last]
        return None
    if f is not None:
        L = shape.Labels(f, None, None, call_labels=slot_label)
        for b, s_ in f.stmts():
            if s_[0] == "a" and s_[2][0] == "agg" and s_[2][1][0] == "adt" and s_[2][1][1] == M + "Policy":
                got = {nm: L.operand_labels(o) for nm, o in zip(s_[2][1][3], s_[2][2])}
                for fld, slot in (("principal_euid", "principal"), ("resource_euid", "resource")):
                    labs = {x[5:] for x in got.get(fld, set()) if x.startswith("SLOT:")}
                    n += 1
                    chk.ob(rule, "encode link:%s" % fld, labs == {slot}, "models::Policy.%s carries the binding of slot %s (required ?%s)" % (fld, sorted(labs), slot), where=f.where(s_[3]), fn=f.name,
                           key="%s:encode link:%s" % (rule, fld))
                tl = {x[4:] for x in got.get("template_id", set()) if x.startswith("ACC:")}
                n += 1
                chk.ob(rule, "encode link:template_id", "template" in tl, "template_id is the id of the policy's template: %s" % sorted(tl), where=f.where(s_[3]), fn=f.name)
    g = get_fn(chk, facts, rule, "cedar_policy::proto::policy::reify_template_link")
    if g is not None:
        def seed(p):
            out = []
            for e in p[1:]:
                if isinstance(e, list) and e[0] == "f" and e[3] == M + "Policy" and e[2]:
                    out.append("SRC:" + e[2])
            return out
        L = shape.Labels(g, None, seed, call_labels=slot_label)
        pairs = []
        for b, t in g.calls():
            if callee(t).endswith("HashMap::<K, V, S, A>::insert") and len(t[2]) >= 3:
                k = {x[5:] for x in L.operand_labels(t[2][1]) if x.startswith("SLOT:")}
                v = {x[4:] for x in L.operand_labels(t[2][2]) if x.startswith("SRC:") and x.endswith("_euid")}
                if k or v:
                    pairs.append((sorted(k), sorted(v)))
        want = [(["principal"], ["principal_euid"]), (["resource"], ["resource_euid"])]
        n += 1
        chk.ob(rule, "decode link:bindings", sorted(pairs) == want, "reify_template_link binds %s (required ?principal <- principal_euid, ?resource <- resource_euid)" % pairs, where=g.where(), fn=g.name,
               key="%s:decode link:bindings" % rule)
        # the link is created against the template named by template_id under the id link_id
        lk = [(b, t) for b, t in g.calls() if callee(t).endswith("Template::link")]
        ok = False
        for b, t in lk:
            l1 = {x[4:] for x in L.operand_labels(t[2][1]) if x.startswith("SRC:")}
            l0 = {x[4:] for x in L.operand_labels(t[2][0]) if x.startswith("SRC:")}
            ok = "link_id" in l1 and "template_id" in l0
        n += 1
        chk.ob(rule, "decode link:ids", ok, "Template::link(template named by template_id, id from link_id, ..): %s" % ok, where=g.where(), fn=g.name)
    chk.floor(rule, "link fields through protobuf", n, 5)


def check_est_set(chk, facts):
    """EST policy set -> AST: every static policy is added, every template added as a template, every link linked with
    (template_id, new_id, values) in their own positions."""
    from lib import protocol, cfg
    rule = "C06.FIELDS"
    fname = "cedar_policy_core::est::policy_set::<impl std::convert::TryFrom<cedar_policy_core::est::policy_set::PolicySet> for cedar_policy_core::ast::policy_set::PolicySet>::try_from"
    f = get_fn(chk, facts, rule, fname)
    if f is None:
        return
    n = namesake_call(chk, rule, facts, fname, "cedar_policy_core::ast::policy_set::PolicySet::link", "cedar_policy_core::est::policy_set::TemplateLink", "EST link -> AST", skip=())
    PS = "cedar_policy_core::est::policy_set::PolicySet"

    def seed(p):
        return ["SRC:" + e[2] for e in p[1:] if isinstance(e, list) and e[0] == "f" and e[3] == PS and e[2]]
    L = shape.Labels(f, None, seed)
    for sink, src in (("PolicySet::add", "static_policies"), ("PolicySet::add_template", "templates"), ("PolicySet::link", "template_links")):
        sites = [(b, t) for b, t in f.calls() if callee(t).endswith(sink)]
        ok = False
        det = "no call"
        if sites:
            lp = protocol.loop_of(f, sites[0][0])
            if lp:
                head, some = lp
                skip = head in cfg.reachable(f, some, cut_blocks={b for b, _ in sites})
                hb = f.blocks[head]["t"]
                from_src = ("SRC:" + src) in (L.operand_labels(hb[2][0]) if hb[0] == "call" and hb[2] else set())
                errs_abort = all(protocol.honor_result(f, b)[0] for b, _ in sites)
                ok = (not skip) and from_src and errs_abort
                det = "every entry of `%s` reaches %s (no skipped iteration: %s; iterates that field: %s; failures abort: %s)" % (src, sink.split("::")[-1], not skip, from_src, errs_abort)
        n += 1
        chk.ob(rule, "EST set:" + src, ok, det, where=f.where(sites[0][1][1].get("l") if sites else None), fn=f.name, key="%s:EST set:%s" % (rule, src))
    chk.floor(rule, "EST policy set components", n, 6)


def endo_variants(chk, rule, facts, fname, adt, adt_suffix, tag):
    """A function that rewrites a value of enum `adt` (filling slots, linking) keeps the constructor: in the arm of variant V every
    value of `adt` it builds is again V, with each field derived from V's field in the same position."""
    from lib import hom
    f = get_fn(chk, facts, rule, fname)
    r = facts.adts.get(adt)
    if f is None or r is None:
        if f is not None:
            chk.lost(rule, adt)
        return 0
    ev = hom.arm_events(facts, f, adt_suffix, lambda c, t: None, include_aggs=(adt,))
    if ev is None:
        chk.lost(rule, "match on %s in %s" % (adt.split("::")[-1], short(fname)))
        return 0
    last = adt.split("::")[-1]
    n = 0
    from lib import cfg as _cfg
    sw = ev["switch"]
    reach = {vi: _cfg.reachable(f, arm["target"], cut_blocks={sw}) for vi, arm in ev["arms"].items()}
    common = set.intersection(*reach.values()) if len(reach) > 1 else set()
    Lall = shape.Labels(f, None, shape.variant_field_seed(adt_suffix))
    for vi, arm in sorted(ev["arms"].items()):
        v = r["variants"][vi]
        vn = v["name"]
        probs = []
        # everything this variant's arm can build before the arms join (or-patterns share a body that dominance does not see)
        built = []
        for bb in sorted(reach[vi] - common):
            for s_ in f.blocks[bb]["st"]:
                if s_[0] == "a" and s_[2][0] == "agg" and s_[2][1][0] == "adt" and s_[2][1][1] == adt:
                    built.append({"ctor": "%s::%s" % (last, s_[2][1][2]), "args": [Lall.operand_labels(o) for o in s_[2][2]], "fields": s_[2][1][3], "line": s_[3]})
        for e in built:
            bv = e["ctor"].split("::")[1]
            if bv != vn:
                probs.append("builds %s" % bv)
                continue
            for i, a in enumerate(e["args"]):
                labs = {x for x in a if x.startswith(vn + ".")}
                want = "%s.%s" % (vn, (e["fields"] or [])[i] if e["fields"] else i)
                if labs and want not in labs:
                    probs.append("field %s is filled from %s" % (i, sorted(labs)))
        n += 1
        chk.ob(rule, "%s:%s" % (tag, vn), not probs, "%s: the %s arm %s" % (tag, vn, ("keeps the variant and its fields in place" if built else "passes the value through") if not probs else "; ".join(sorted(set(probs)))),
               where=f.where(built[0]["line"] if built else None), fn=f.name, key="%s:%s:%s:%s" % (rule, tag, vn, ";".join(sorted(set(probs)))))
    return n


def fold_order(chk, rule, facts, fname, tag):
    """A clause list is folded so that clauses keep their source order: with a reversed iteration the closure is and(next, acc), without and(acc, next)."""
    from lib.slice import leaf_producers
    f = get_fn(chk, facts, rule, fname)
    if f is None:
        return 0
    rev = any(callee(t).endswith("::rev") for _, t in f.calls())
    folds = []
    for g in facts.closures_of(f.name):
        if g.nargs != 3:
            continue
        for b, t in g.calls():
            if callee(t).split("::")[-1] == "and" and len(t[2]) >= 3:
                a1 = sorted(x for x in leaf_producers(g, t[2][1]) if x.startswith("param"))
                a2 = sorted(x for x in leaf_producers(g, t[2][2]) if x.startswith("param"))
                folds.append((a1, a2))
    ok = bool(folds) and all((a1 == ["param:3"] and a2 == ["param:2"]) if rev else (a1 == ["param:2"] and a2 == ["param:3"]) for a1, a2 in folds)
    chk.ob(rule, tag, ok, "%s: clauses are folded %s with and(%s): source order kept: %s" % (tag, "from the right (rev)" if rev else "from the left", folds, ok), where=f.where(), fn=f.name,
           key="%s:%s" % (rule, tag))
    return 1


def check_pst(chk, facts):
    rule = "C06.FIELDS"
    PC = "cedar_policy_core::pst::constraints::"
    n = 0
    for ty in ("PrincipalConstraint", "ResourceConstraint"):
        n += endo_variants(chk, rule, facts, PC + ty + "::link", PC + ty, "pst::constraints::" + ty, "pst " + ty + "::link")
    AP = "cedar_policy_core::ast::policy::"
    for ty in ("PrincipalConstraint", "ResourceConstraint"):
        n += endo_variants(chk, rule, facts, AP + ty + "::with_filled_slot", AP + "PrincipalOrResourceConstraint", "ast::policy::PrincipalOrResourceConstraint", "ast " + ty + "::with_filled_slot")
    ES = "cedar_policy_core::est::scope_constraints::"
    for ty in ("PrincipalConstraint", "ResourceConstraint"):
        n += endo_variants(chk, rule, facts, ES + ty + "::link", ES + ty, "est::scope_constraints::" + ty, "est " + ty + "::link")
    chk.floor(rule, "constraint rewriting arms", n, 26)
    for fname, tag in (("cedar_policy_core::pst::ast_conversions::<impl std::convert::TryFrom<cedar_policy_core::pst::policy::Template> for cedar_policy_core::ast::policy::Template>::try_from", "PST -> AST clauses fold"),):
        fold_order(chk, rule, facts, fname, tag)
