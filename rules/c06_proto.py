"""Protobuf <-> AST expression conversions (C06.HOM.proto).

encode = <models::Expr as From<&ast::Expr>>::from, decode = <ast::Expr as TryFrom<models::Expr>>::try_from.
For every AST variant V the encode arm builds one message kind PV whose fields are
bound to fields of V; the decode arm of PV calls an AST constructor whose builder
(map derived by constant propagation) builds V' from arguments that derive from
message fields. The rule composes the two maps: V' = V, and every field g of V is
rebuilt from a message field that was filled from V.g and from nothing else (no
child dropped, duplicated or swapped on the way through the wire format).
"""
from lib import hom, shape
from lib.rulelib import get_fn

P = "cedar_policy::proto::ast::<impl std::convert::"
M = "cedar_policy::proto::models::cedar_policy_core::"
ENC = P + "From<&cedar_policy_core::ast::Expr> for " + M + "Expr>::from"
DEC = P + "TryFrom<" + M + "Expr> for cedar_policy_core::ast::Expr>::try_from"
AST_KIND = "cedar_policy_core::ast::expr::ExprKind"
AST_BUILDER = "cedar_policy_core::ast::expr::ExprBuilder<T>"
# encode panics on these by design (documented: the wire format has no unknowns / error nodes)
NOT_ENCODED = {"Unknown": "the protobuf format has no unknowns (documented unimplemented!)",
               "Error": "error nodes never reach the protobuf encoder (documented unimplemented!)"}


def ctor(c, t):
    for p in ("cedar_policy_core::ast::Expr::<T>::", "cedar_policy_core::ast::Expr::", "cedar_policy_core::ast::expr::Expr::<T>::", "cedar_policy_core::ast::expr::Expr::"):
        if c.startswith(p) and "::" not in c[len(p):]:
            return "S:" + c[len(p):]
    return None


def msg_seed(p):
    """a read of `msg.field` of a models::expr::<Msg> struct -> 'Msg#field'"""
    out = []
    for e in p[1:]:
        if isinstance(e, list) and e[0] == "f" and e[3].startswith(M + "expr::") and not e[3].endswith("::ExprKind") and e[2]:
            out.append("%s#%s" % (e[3].split("::")[-1], e[2]))
    return out


def check(chk, facts):
    rule = "C06.HOM.proto"
    fe = get_fn(chk, facts, rule, ENC)
    fd = get_fn(chk, facts, rule, DEC)
    if fe is None or fd is None:
        return
    bm = hom.builder_map(facts, AST_BUILDER, ("ast::expr::ExprKind",))
    msgs = tuple(a for a in facts.adts if a.startswith(M + "expr::") and a.count("::") == (M + "expr::X").count("::"))
    enc = hom.arm_events(facts, fe, "ast::ExprKind", lambda c, t: None, include_aggs=msgs)
    dec = hom.arm_events(facts, fd, "models::cedar_policy_core::expr::ExprKind", ctor, extra_seed=msg_seed)
    rk = facts.adts.get(AST_KIND)
    pk = facts.adts.get(M + "expr::ExprKind")
    if enc is None or dec is None or rk is None or pk is None:
        chk.lost(rule, "match on ExprKind in encode / decode")
        return
    pv_index = {v["name"]: i for i, v in enumerate(pk["variants"])}
    n = 0
    used_pv = {}
    for vi, arm in sorted(enc["arms"].items()):
        vn = rk["variants"][vi]["name"]
        afields = [x[0] for x in rk["variants"][vi]["fields"]]
        kinds = [e for e in arm["events"] if e["ctor"].startswith("ExprKind::")]
        if vn in NOT_ENCODED:
            n += 1
            chk.ob(rule, "encode:%s" % vn, not kinds, "AST %s is not encoded: %s" % (vn, NOT_ENCODED[vn]), where=fe.where(), fn=fe.name, key="%s:enc:%s" % (rule, vn))
            continue
        if len(kinds) != 1:
            n += 1
            chk.ob(rule, "encode:%s" % vn, False, "the encode arm of %s builds %d message kinds (expected exactly one)" % (vn, len(kinds)), where=fe.where(), fn=fe.name, key="%s:enc:%s" % (rule, vn))
            continue
        pv = kinds[0]["ctor"].split("::")[1]
        structs = [e for e in arm["events"] if not e["ctor"].startswith("ExprKind::")]
        # message field -> AST labels
        if structs:
            if len(structs) != 1:
                n += 1
                chk.ob(rule, "encode:%s" % vn, False, "the encode arm of %s builds %d message structs" % (vn, len(structs)), where=fe.where(), fn=fe.name, key="%s:enc:%s" % (rule, vn))
                continue
            st = structs[0]
            mname = st["ctor"].split("::")[0]
            enc_map = {"%s#%s" % (mname, fld): {x for x in labs if x.startswith(vn + ".")} for fld, labs in zip(st["fields"], st["args"])}
        else:
            enc_map = {"%s.0" % pv: {x for x in kinds[0]["args"][0] if x.startswith(vn + ".")}}
        prev = used_pv.setdefault(pv, vn)
        problems = []
        if prev != vn:
            problems.append("message kind %s is also used for %s" % (pv, prev))
        # every AST field is written somewhere
        for g in afields:
            if not any(("%s.%s" % (vn, g)) in labs for labs in enc_map.values()):
                problems.append("field %s is not written to the message" % g)
        darm = dec["arms"].get(pv_index.get(pv))
        back = None
        dec_desc = None
        if darm is None:
            problems.append("decode has no arm for message kind %s" % pv)
        else:
            evs = [e for e in darm["events"] if e["ctor"][2:] in bm]
            if len(evs) != 1:
                problems.append("the decode arm of %s calls %d AST constructors" % (pv, len(evs)))
            else:
                e = evs[0]
                m = e["ctor"][2:]
                b = bm[m]
                dec_desc = m
                if "undecided" in b:
                    # ast record(): fallible builder with a loop; the constructor name decides the variant, its only argument is the child list
                    back = {"Record": "Record"}.get(vn) if m == "record" else None
                    fmap = {"0": [2]} if m == "record" else {}
                    if back is None:
                        problems.append("decode rebuilds with %s whose builder is not decidable" % m)
                else:
                    back = b["variant"]
                    fmap = b["fields"]
                if back is not None and back != vn:
                    problems.append("decode(%s) builds %s" % (pv, back))
                elif back is not None:
                    for g in afields:
                        ps = fmap.get(g, [])
                        want = "%s.%s" % (vn, g)
                        srcs = set()
                        for p_ in ps:
                            if 0 <= p_ - 2 < len(e["args"]):
                                srcs |= {x for x in e["args"][p_ - 2] if ("#" in x if structs else x == "%s.0" % pv)}
                        if not srcs:
                            problems.append("decode does not rebuild field %s from the message" % g)
                            continue
                        exact = [pf for pf in srcs if enc_map.get(pf) == {want}]
                        foreign = [pf for pf in srcs if want not in enc_map.get(pf, set())]
                        if not exact or foreign:
                            problems.append("field %s is decoded from %s which encode filled from %s" % (g, sorted(srcs), {pf: sorted(enc_map.get(pf, ())) for pf in sorted(srcs)}))
        n += 1
        chk.ob(rule, "%s<->%s" % (vn, pv), not problems,
               "AST %s is encoded as message %s and decoded with Expr::%s%s" % (vn, pv, dec_desc, (": " + "; ".join(problems)) if problems else " — same variant, every field back in place"),
               where=fe.where(kinds[0]["line"]), fn=fe.name, key="%s:%s:%s" % (rule, vn, ";".join(problems)),
               sample={"ast": vn, "message": pv, "encode": {k: sorted(v) for k, v in enc_map.items()}, "decode_ctor": dec_desc})
    chk.floor(rule, "AST variants through the wire format", n, 17)
