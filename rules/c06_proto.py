"""Protobuf <-> AST expression conversions (C06.HOM.proto). Built in a later step."""


def check(chk, facts):
    return
