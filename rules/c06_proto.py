"""Protobuf <-> AST conversions compose to the identity on (variant, field) (C06.HOM.proto).

For an AST enum E and its wire form (a oneof `kind` enum whose payloads are message structs):
encode = From<&E> for models::M, decode = TryFrom<models::M> for E. For every variant V of E the
encode arm builds one message kind PV whose fields are bound to fields of V; the decode arm of PV
rebuilds an E value — through an AST constructor (resolved with the derived builder map) or a direct
aggregate — from message fields. The rule composes the two maps: the decoded variant is V again and
every field g of V is rebuilt from a message field that was filled from V.g and from nothing else
(no child dropped, duplicated or swapped on the way through the wire format).
"""
from lib import hom, shape
from lib.rulelib import get_fn

P = "cedar_policy::proto::ast::<impl std::convert::"
PP = "cedar_policy::proto::policy::<impl std::convert::"
M = "cedar_policy::proto::models::cedar_policy_core::"
AST_BUILDER = "cedar_policy_core::ast::expr::ExprBuilder<T>"


def expr_ctor(c, t):
    for p in ("cedar_policy_core::ast::Expr::<T>::", "cedar_policy_core::ast::Expr::", "cedar_policy_core::ast::expr::Expr::<T>::", "cedar_policy_core::ast::expr::Expr::"):
        if c.startswith(p) and "::" not in c[len(p):]:
            return "S:" + c[len(p):]
    return None


def make_msg_seed(msg_prefix, kind_adt):
    def seed(p):
        out = []
        for e in p[1:]:
            if isinstance(e, list) and e[0] == "f" and str(e[3]).startswith(msg_prefix) and e[3] != kind_adt and e[2]:
                out.append("%s#%s" % (e[3].split("::")[-1], e[2]))
        return out
    return seed


def compose(chk, facts, rule, tag, enc_name, dec_name, ast_adt, ast_suffix, kind_adt, msg_prefix, not_encoded, builder=None, dec_ctor=None, extra_ctors=None, floor=1):
    """extra_ctors: {ctor label: (variant, {field: [param positions (2-based like builder maps)]})} for plain constructor fns."""
    fe = get_fn(chk, facts, rule, enc_name)
    fd = get_fn(chk, facts, rule, dec_name)
    rk = facts.adts.get(ast_adt)
    pk = facts.adts.get(kind_adt)
    if fe is None or fd is None:
        return
    if rk is None or pk is None:
        chk.lost(rule, "%s / %s" % (ast_adt, kind_adt))
        return
    bm = dict(builder or {})
    for k, v in (extra_ctors or {}).items():
        bm[k] = {"variant": v[0], "fields": v[1], "sig": "%s%s" % (v[0], v[1])}
    msgs = tuple(a for a in facts.adts if a.startswith(msg_prefix) and a != kind_adt) + (kind_adt,)
    enc = hom.arm_events(facts, fe, ast_suffix, lambda c, t: None, include_aggs=msgs)
    ast_last = ast_adt.split("::")[-1]

    def dctor(c, t):
        if dec_ctor:
            x = dec_ctor(c, t)
            if x:
                return x
        return None
    dec = hom.arm_events(facts, fd, kind_adt[len("cedar_policy::proto::"):], dctor, include_aggs=(ast_adt, ast_suffix), extra_seed=make_msg_seed(msg_prefix, kind_adt))
    if enc is None or dec is None:
        chk.lost(rule, "%s: match on the AST enum / the message kind" % tag)
        return
    kind_last = kind_adt.split("::")[-1]
    pv_index = {v["name"]: i for i, v in enumerate(pk["variants"])}
    n = 0
    used_pv = {}
    for vi, arm in sorted(enc["arms"].items()):
        vn = rk["variants"][vi]["name"]
        # source locations are not part of the wire format (and not of policy equality)
        afields = [x[0] for x in rk["variants"][vi]["fields"] if "parser::loc::Loc" not in x[1]]
        kinds = [e for e in arm["events"] if e["ctor"].startswith(kind_last + "::")]
        if vn in not_encoded:
            n += 1
            chk.ob(rule, "%s:encode:%s" % (tag, vn), not kinds, "%s::%s is not encoded: %s" % (ast_last, vn, not_encoded[vn]), where=fe.where(), fn=fe.name, key="%s:%s:enc:%s" % (rule, tag, vn))
            continue
        if len(kinds) != 1:
            n += 1
            chk.ob(rule, "%s:encode:%s" % (tag, vn), False, "the encode arm of %s builds %d message kinds (expected exactly one)" % (vn, len(kinds)), where=fe.where(), fn=fe.name, key="%s:%s:enc:%s" % (rule, tag, vn))
            continue
        pv = kinds[0]["ctor"].split("::")[1]
        structs = [e for e in arm["events"] if not e["ctor"].startswith(kind_last + "::") and e["fields"] and not e["ctor"].startswith(ast_last + "::")]
        if structs:
            if len(structs) != 1:
                n += 1
                chk.ob(rule, "%s:encode:%s" % (tag, vn), False, "the encode arm of %s builds %d message structs" % (vn, len(structs)), where=fe.where(), fn=fe.name, key="%s:%s:enc:%s" % (rule, tag, vn))
                continue
            st = structs[0]
            mname = st["ctor"].split("::")[0]
            enc_map = {"%s#%s" % (mname, fld): {x for x in labs if x.startswith(vn + ".")} for fld, labs in zip(st["fields"], st["args"])}
        else:
            enc_map = {"%s.0" % pv: {x for x in kinds[0]["args"][0] if x.startswith(vn + ".")}}
        prev = used_pv.setdefault(pv, vn)
        problems = []
        if prev != vn:
            problems.append("message kind %s is also used for %s" % (pv, prev))
        for g in afields:
            if not any(("%s.%s" % (vn, g)) in labs for labs in enc_map.values()):
                problems.append("field %s is not written to the message" % g)
        darm = dec["arms"].get(pv_index.get(pv))
        dec_desc = None
        if darm is None:
            problems.append("decode has no arm for message kind %s" % pv)
        else:
            evs = [e for e in darm["events"] if (e["ctor"][2:] in bm and e["ctor"].startswith("S:")) or e["ctor"].startswith(ast_last + "::")]
            if len(evs) != 1:
                problems.append("the decode arm of %s builds %d AST values" % (pv, len(evs)))
            else:
                e = evs[0]
                if e["ctor"].startswith(ast_last + "::"):
                    back = e["ctor"].split("::")[1]
                    dec_desc = "%s::%s{..}" % (ast_last, back)
                    fmap = {str(fl): [i + 2] for i, fl in enumerate(e["fields"] or [])}
                else:
                    m = e["ctor"][2:]
                    b = bm[m]
                    dec_desc = m
                    if "undecided" in b:
                        back = {"Record": "Record"}.get(vn) if m == "record" else None
                        fmap = {"0": [2]} if m == "record" else {}
                        if back is None:
                            problems.append("decode rebuilds with %s whose builder is not decidable" % m)
                    else:
                        back = b["variant"]
                        fmap = b["fields"]
                if back is not None and back != vn:
                    problems.append("decode(%s) builds %s" % (pv, back))
                elif back is not None:
                    for g in afields:
                        ps = fmap.get(g, [])
                        want = "%s.%s" % (vn, g)
                        srcs = set()
                        for p_ in ps:
                            if 0 <= p_ - 2 < len(e["args"]):
                                srcs |= {x for x in e["args"][p_ - 2] if ("#" in x if structs else x == "%s.0" % pv)}
                        if not srcs:
                            problems.append("decode does not rebuild field %s from the message" % g)
                            continue
                        exact = [pf for pf in srcs if enc_map.get(pf) == {want}]
                        foreign = [pf for pf in srcs if want not in enc_map.get(pf, set())]
                        if not exact or foreign:
                            problems.append("field %s is decoded from %s which encode filled from %s" % (g, sorted(srcs), {pf: sorted(enc_map.get(pf, ())) for pf in sorted(srcs)}))
        n += 1
        chk.ob(rule, "%s:%s<->%s" % (tag, vn, pv), not problems,
               "%s::%s is encoded as message kind %s and decoded with %s%s" % (ast_last, vn, pv, dec_desc, (": " + "; ".join(problems)) if problems else " — same variant, every field back in place"),
               where=fe.where(kinds[0]["line"]), fn=fe.name, key="%s:%s:%s:%s" % (rule, tag, vn, ";".join(problems)),
               sample={"ast": vn, "message": pv, "encode": {k: sorted(v) for k, v in enc_map.items()}, "decode": dec_desc})
    chk.floor(rule, "%s variants through the wire format" % tag, n, floor)


def check(chk, facts):
    rule = "C06.HOM.proto"
    if chk.secondary and not any(x.startswith("cedar_policy::proto::") for x in facts.fns.index):
        chk.ob(rule, "gated:cedar_policy::proto", True, "the protobuf module is not part of the default-feature build; decided on the experimental configuration")
        return
    bm = hom.builder_map(facts, AST_BUILDER, ("ast::expr::ExprKind",))
    compose(chk, facts, rule, "Expr",
            P + "From<&cedar_policy_core::ast::Expr> for " + M + "Expr>::from",
            P + "TryFrom<" + M + "Expr> for cedar_policy_core::ast::Expr>::try_from",
            "cedar_policy_core::ast::expr::ExprKind", "ast::ExprKind", M + "expr::ExprKind", M + "expr::",
            {"Unknown": "the protobuf format has no unknowns (documented unimplemented!)",
             "Error": "error nodes never reach the protobuf encoder (documented unimplemented!)"},
            builder=bm, dec_ctor=expr_ctor, floor=17)
    PORC = "cedar_policy_core::ast::policy::PrincipalOrResourceConstraint"
    compose(chk, facts, rule, "PrincipalOrResourceConstraint",
            PP + "From<&cedar_policy_core::ast::PrincipalOrResourceConstraint> for " + M + "PrincipalOrResourceConstraint>::from",
            PP + "TryFrom<" + M + "PrincipalOrResourceConstraint> for cedar_policy_core::ast::PrincipalOrResourceConstraint>::try_from",
            PORC, "ast::PrincipalOrResourceConstraint", M + "principal_or_resource_constraint::Data", M + "principal_or_resource_constraint::", {}, floor=5)
    AC = "cedar_policy_core::ast::policy::ActionConstraint"
    compose(chk, facts, rule, "ActionConstraint",
            PP + "From<&cedar_policy_core::ast::ActionConstraint> for " + M + "ActionConstraint>::from",
            PP + "TryFrom<" + M + "ActionConstraint> for cedar_policy_core::ast::ActionConstraint>::try_from",
            AC, "ast::ActionConstraint", M + "action_constraint::Data", M + "action_constraint::",
            {"ErrorConstraint": "error nodes never reach the protobuf encoder (documented unimplemented!)"}, floor=3)
    ER = "cedar_policy_core::ast::policy::EntityReference"
    compose(chk, facts, rule, "EntityReference",
            PP + "From<&cedar_policy_core::ast::EntityReference> for " + M + "EntityReference>::from",
            PP + "TryFrom<" + M + "EntityReference> for cedar_policy_core::ast::EntityReference>::try_from",
            ER, "ast::EntityReference", M + "entity_reference::Data", M + "entity_reference::", {},
            dec_ctor=lambda c, t: "S:euid" if c.endswith("ast::EntityReference::euid") or c.endswith("policy::EntityReference::euid") else None,
            extra_ctors={"euid": ("EUID", {"0": [2]})}, floor=2)
