"""C11 — schema conformance: no check is skipped, no check result is ignored.

Decides that every entry point that receives a schema routes every datum through
the full set of checks, that each composite check calls all its parts on every
path to success, and that the failure edge of each elementary test cannot reach a
success return. Declines that each elementary test is itself exact.
"""
import re
from lib import panics, cfg, protocol, shape
from lib.facts import callee
from lib.rulelib import short

CONF = "cedar-policy-core/src/entities/conformance.rs"
CORE = "cedar-policy-core/src/validator/coreschema.rs"


def find_fn(chk, facts, rule, file_suffix, name_suffix, contains=None):
    hits = []
    for n in facts.fns:
        if not n.endswith(name_suffix):
            continue
        gen, kind, root, ti, file, line = facts.fns.meta(n)
        if kind == "Closure" or not file.endswith(file_suffix):
            continue
        if contains and contains not in n:
            continue
        hits.append(n)
    if len(hits) != 1:
        chk.lost(rule, "%s in %s" % (name_suffix, file_suffix), "expected exactly one match, found %d" % len(hits))
        return None
    chk.functions.add(hits[0])
    return facts.fns[hits[0]]


def bodies(facts, f):
    return [f] + facts.closures_of(f.name)


# (function, [(kind, callee suffix, arg), ...])
#   kind "result": every call site honours the Result/Option (failure cannot reach success)
#   kind "bool":   arg = good polarity
#   kind "must":   arg = "entry" -> every path from entry to success crosses a call site
#                  arg = "loop"  -> every path from the loop body entry back to the loop head crosses it
#                  arg = ("bool-edge", callee, polarity) -> from that edge to success
SPEC = [
    ((CONF, "::validate_entity"), [
        ("result", "::validate_action", None), ("result", "conformance::validate_euid", None),
        ("result", "::validate_entity_attributes", None), ("result", "::validate_entity_ancestors", None),
        ("result", "::validate_tags", None),
        ("must", "::validate_action", ("bool-edge", "EntityType::is_action", True)),
        ("must", "conformance::validate_euid", ("bool-edge", "EntityType::is_action", False)),
        ("must", "::validate_entity_attributes", ("bool-edge", "EntityType::is_action", False)),
        ("must", "::validate_entity_ancestors", ("bool-edge", "EntityType::is_action", False)),
        ("must", "::validate_tags", ("bool-edge", "EntityType::is_action", False)),
        ("must", "::entity_type", ("bool-edge", "EntityType::is_action", False)),
    ]),
    ((CONF, "::validate_action"), [
        ("bool", "Entity::deep_eq", True), ("must", "Entity::deep_eq", "entry"), ("must", "::action", "entry"),
    ]),
    ((CONF, "::validate_entity_ancestors"), [
        ("result", "conformance::validate_euid", None), ("must", "conformance::validate_euid", "loop"),
        ("bool", "::contains", True), ("must", "::contains", "loop"),
    ]),
    ((CONF, "::validate_entity_attributes"), [
        ("bool", "::contains_key", True), ("must", "::contains_key", "loop"), ("must", "::required_attrs", "entry"),
        ("bool", "::open_attributes", True),
        ("variant", "conformance::typecheck_value_against_schematype", (1,)),
        ("result", "conformance::validate_euids_in_partial_value", None),
        ("must", "conformance::validate_euids_in_partial_value", "loop"),
        ("must", "::attr_type", "loop"),
    ]),
    ((CONF, "::validate_tags"), [
        ("variant", "conformance::typecheck_value_against_schematype", (1,)),
        ("result", "conformance::validate_euids_in_partial_value", None),
        ("must", "conformance::validate_euids_in_partial_value", "loop"),
        ("must", "::tag_type", "entry"),
    ]),
    ((CONF, "conformance::validate_euid"), [
        ("result", "conformance::is_valid_enumerated_entity", None),
    ]),
    ((CORE, "ValidatorSchema>::validate_request"), [
        ("result", "::validate_scope_variables", None), ("must", "::validate_scope_variables", "entry"),
        ("result", "::validate_context", None),
    ]),
    ((CORE, "ValidatorSchema>::validate_context"), [
        ("result", "conformance::validate_euids_in_partial_value", None), ("must", "conformance::validate_euids_in_partial_value", "entry"),
        ("result", "::typecheck_partial_value", None), ("must", "::typecheck_partial_value", "entry"),
        ("bool", "::typecheck_partial_value", True),
        ("result", "::get_action_id", None), ("must", "::get_action_id", "entry"),
    ]),
    ((CORE, "ValidatorSchema>::validate_scope_variables"), [
        ("result", "conformance::is_valid_enumerated_entity", None),
        ("result", "::check_principal_type", None), ("result", "::check_resource_type", None),
        ("result", "::get_action_id", None),
    ]),
    ((CORE, "ValidatorActionId>::check_principal_type"), [("bool", "::is_applicable_principal_type", True), ("must", "::is_applicable_principal_type", "entry")]),
    ((CORE, "ValidatorActionId>::check_resource_type"), [("bool", "::is_applicable_resource_type", True), ("must", "::is_applicable_resource_type", "entry")]),
    (("cedar-policy-core/src/ast/request.rs", "request::Request::new"), [("result", "::validate_request", None)]),
    (("cedar-policy-core/src/ast/request.rs", "request::Request::new_with_unknowns"), [("result", "::validate_request", None)]),
]


def _helper_sites(facts, f, file, suffix):
    """A check moved into a private helper: functions of the same source file that `f` calls directly and that call `suffix`
    themselves -> [(helper Fn, its sites of `suffix`, f's calls of the helper)]"""
    out = []
    seen = set()
    for b, t in f.calls():
        c = callee(t)
        if c in seen or c == f.name or c not in facts.fns:
            continue
        seen.add(c)
        meta = facts.fns.meta(c)
        if meta[1] == "Closure" or not (meta[4] or "").endswith(file):
            continue
        g = facts.fn(c)
        gs = protocol.calls_matching(g, suffix) if g is not None else []
        if gs:
            out.append((g, gs, [(bb, tt_) for bb, tt_ in f.calls() if callee(tt_) == c]))
    return out


def run_spec(chk, facts):
    rule_h = "C11.HONOR"
    rule_m = "C11.MUSTPASS"
    cnt = {"h": 0, "m": 0}

    def eval_ob(f, succ, fname, kind, suffix, arg, sites, via=""):
        label = "%s:%s%s" % (fname.split("::")[-1], suffix.split("::")[-1], via)
        if kind in ("result", "variant", "bool"):
            for b, t in sites:
                if kind == "result":
                    ok, det = protocol.honor_result(f, b, succ)
                    text = "%s: %s" % (suffix.split("::")[-1], det)
                elif kind == "variant":
                    ok, det = protocol.honor_variant(f, b, set(arg), succ)
                    if ok is None:
                        ok, det = protocol.honor_result(f, b, succ)
                    text = "%s: %s" % (suffix.split("::")[-1], det)
                else:
                    ok, det = protocol.honor_bool(f, b, arg, succ)
                    text = "%s must be %s to succeed: %s" % (suffix.split("::")[-1], arg, det)
                cnt["h"] += 1
                chk.ob(rule_h, "%s@L%s" % (label, t[1].get("l")), ok, text + via,
                       where=f.where(t[1].get("l")), fn=f.name, key="%s:%s:%s" % (rule_h, fname, suffix),
                       sample={"fn": short(f.name), "check": suffix, "how": det})
            return
        K = {b for b, t in sites}
        if arg == "entry":
            ok = protocol.must_pass(f, 0, succ, K)
            det = "every path from entry to a success return crosses it"
        elif arg == "loop":
            ok = True
            det = "every path through the loop body crosses it"
            found = False
            for b in K:
                lp = protocol.loop_of(f, b)
                if lp is None:
                    continue
                found = True
                head, some = lp
                if not protocol.must_pass(f, some, {head} | succ, K):
                    ok = False
            if not found:
                ok = False
                det = "the call is not inside a loop over the data items"
        else:
            _, test, pol = arg
            tests = protocol.calls_matching(f, test)
            ok = bool(tests)
            det = "on the %s edge of %s every path to success crosses it" % (str(pol).lower(), test.split("::")[-1])
            for tb, tt_ in tests:
                for sb, m in protocol.bool_edges(f, tb):
                    if not protocol.must_pass(f, m[pol], succ, K):
                        ok = False
        cnt["m"] += 1
        chk.ob(rule_m, "%s(%s)" % (label, arg if isinstance(arg, str) else arg[2]), ok,
               "%s in %s: %s: %s%s" % (suffix.split("::")[-1], fname.split("::")[-1], det, ok, via),
               where=f.where(sites[0][1][1].get("l")), fn=f.name, key="%s:%s:%s" % (rule_m, fname, suffix),
               sample={"fn": short(f.name), "check": suffix, "scope": arg if isinstance(arg, str) else list(arg)})

    for (file, fname), obligations in SPEC:
        f = find_fn(chk, facts, rule_m, file, fname)
        if f is None:
            continue
        succ = protocol.success_targets(f)
        for kind, suffix, arg in obligations:
            sites = protocol.calls_matching(f, suffix)
            if sites:
                eval_ob(f, succ, fname, kind, suffix, arg, sites)
                continue
            # the check may have been extracted into a private helper of the same file (one level): it must be honoured there,
            # on every path of the helper, and the helper's own verdict must be honoured here in the check's place
            via = _helper_sites(facts, f, file, suffix)
            if not via:
                label = "%s:%s" % (fname.split("::")[-1], suffix.split("::")[-1])
                chk.ob(rule_m if kind == "must" else rule_h, label, False,
                       "no call of %s in %s (nor in a helper of the same file it calls): the check is gone" % (suffix, short(f.name)), where=f.where(), fn=f.name,
                       key="%s:%s:%s:missing" % (rule_m, fname, suffix))
                continue
            for g, gsites, fsites in via:
                chk.functions.add(g.name)
                gsucc = protocol.success_targets(g)
                tag = " [via helper %s]" % g.name.split("::")[-1]
                if kind == "must":
                    eval_ob(g, gsucc, fname, "must", suffix, "entry", gsites, tag)
                    eval_ob(f, succ, fname, "must", suffix, arg, fsites, tag)
                else:
                    eval_ob(g, gsucc, fname, kind, suffix, arg, gsites, tag)
                    eval_ob(g, gsucc, fname, "must", suffix, "entry", gsites, tag)
                    eval_ob(f, succ, fname, "result", suffix, None, fsites, tag)
    chk.floor(rule_h, "honoured checks", cnt["h"], 27)
    chk.floor(rule_m, "must-pass obligations", cnt["m"], 20)


def euids_traversal(chk, facts):
    """validate_euids_in_partial_value goes through subexpressions() for both shapes of PartialValue."""
    rule = "C11.MUSTPASS"
    f = find_fn(chk, facts, rule, CONF, "conformance::validate_euids_in_partial_value")
    if f is None:
        return
    sub = protocol.calls_matching(f, ("::subexpressions",))
    ve = protocol.calls_matching(f, ("conformance::validate_euids_in_subexpressions",))
    ok = len(sub) >= 2 and len(ve) >= 2 and protocol.must_pass(f, 0, set(cfg.return_blocks(f)), {b for b, _ in ve})
    chk.ob(rule, "validate_euids_in_partial_value", ok,
           "both Value and Residual shapes are walked through subexpressions() into validate_euids_in_subexpressions (%d/%d sites)" % (len(sub), len(ve)),
           where=f.where(), fn=f.name)
    g = find_fn(chk, facts, rule, CONF, "conformance::validate_euids_in_subexpressions")
    if g is not None:
        cs = []
        for b in bodies(facts, g):
            cs += [callee(t) for _, t in b.calls()]
        ok = any(c.endswith("conformance::validate_euid") for c in cs) and any(c.endswith("try_for_each") or c.endswith("::all") for c in cs)
        chk.ob(rule, "validate_euids_in_subexpressions", ok, "every entity-uid literal subexpression reaches validate_euid (short-circuiting on the first error): %s" % ok,
               where=g.where(), fn=g.name)


ENTRY = [
    # (file, fn suffix, check, description, skip guards allowed inside the per-entity loop)
    #   "no-schema": the Option<checker> is None;  "is_action": the action / non-action split (from_entities validates actions
    #   after the transitive closure: its two loops must skip on opposite polarities)
    ("cedar-policy-core/src/entities.rs", "entities::Entities::from_entities", "::validate_entity", "store construction validates every entity", ("is_action",)),
    ("cedar-policy-core/src/entities.rs", "entities::Entities::add_entities", "::validate_entity", "add validates every entity", ("no-schema",)),
    ("cedar-policy-core/src/entities.rs", "entities::Entities::upsert_entities", "::validate_entity", "upsert validates every entity", ("no-schema",)),
]


def _skip_guard_kind(f, d):
    """Classify the conditional at switch block d: ('no-schema', skip values) / ('is_action', None) / (None, description)."""
    t = f.blocks[d]["t"]
    desc = panics.cond_desc(f, d)
    op = t[1]
    if op[0] in ("c", "m") and len(op[1]) == 1:
        for b, st in f.stmts():
            if st[0] == "a" and st[1] == op[1] and st[2][0] == "disc":
                ty = f.locals[st[2][1][0]] if isinstance(st[2][1][0], int) else ""
                if "Option<" in ty and "EntitySchemaConformanceChecker" in ty:
                    return "no-schema", desc
    if "is_action" in desc:
        return "is_action", desc
    return None, desc


def entry_points(chk, facts):
    """With a schema, no loop iteration over the incoming entities completes without validate_entity:
    from the loop-body entry, every path back to the loop head (or to a success return) crosses the check,
    except through the skip edge of an allowed guard (no schema given; the action / non-action split)."""
    rule = "C11.MUSTPASS.entry"
    n = 0
    for file, fname, check, desc, allowed in ENTRY:
        f = find_fn(chk, facts, rule, file, fname)
        if f is None:
            continue
        sites = protocol.calls_matching(f, check)
        if not sites:
            chk.ob(rule, fname.split("::")[-1], False, "no %s call: %s" % (check, desc), where=f.where(), fn=f.name)
            continue
        ok_all = True
        det = []
        polarities = []
        problems = []
        succ = set(protocol.ok_blocks(f))
        for b, t in sites:
            ok, d = protocol.honor_result(f, b)
            ok_all &= ok
            det.append(d)
            lp = protocol.loop_of(f, b)
            if lp is None:
                problems.append("the check at L%s is not inside a loop over the entities" % t[1].get("l"))
                continue
            head, some = lp
            cut_edges = set()
            for d_, taken in cfg.guard_edges(f, b):
                if not cfg.dominates(f, some, d_):
                    continue     # a guard outside the loop (e.g. `if let Some(schema)` around the whole loop)
                kind, gdesc = _skip_guard_kind(f, d_)
                tk = {bb for _, bb in taken}
                sw = f.blocks[d_]["t"]
                skips = [(v, bb) for v, bb in ([(v, bb) for v, bb in sw[2]] + [("else", sw[3])]) if bb not in tk]
                if kind in allowed:
                    for v, bb in skips:
                        cut_edges.add((d_, bb))
                    if kind == "is_action":
                        polarities.append(tuple(sorted(str(v) for v, _ in skips)))
                else:
                    problems.append("an iteration skips the check at L%s under `%s`" % (t[1].get("l"), gdesc))
            r = cfg.reachable(f, some, cut_blocks={b}, cut_edges=cut_edges)
            if head in r or (r & succ):
                if not problems:
                    problems.append("a path through the loop body reaches the next iteration / success without the check at L%s" % t[1].get("l"))
        if "is_action" in allowed:
            # the two loops of from_entities must cover both polarities between them
            if len(polarities) != 2 or polarities[0] == polarities[1]:
                problems.append("the action / non-action loops do not skip on opposite polarities: %s" % (polarities,))
        # with a schema the loop itself must be reached: guards outside the loop are only the Option<schema>/<checker> test
        n += 1
        chk.ob(rule, fname.split("::")[-1], ok_all and not problems,
               "%s; failure of the check aborts the operation: %s%s" % (desc, det[:1], ("; " + "; ".join(problems)) if problems else "; no iteration avoids the check when a schema is given"),
               where=f.where(sites[0][1][1].get("l")), fn=f.name, key="%s:%s:%s" % (rule, fname.split("::")[-1], ";".join(sorted(set(re.sub(r" at L\d+", "", p) for p in problems)))),
               sample={"fn": fname, "check_sites": len(sites), "skip_polarities": polarities})
    chk.floor(rule, "entry points", n, 3)


def api_entries(chk, facts):
    """'This holds equally through every entry point that takes a schema': every public API function with an optional schema
    parameter hands that schema on to the core function that does the work (it is never dropped or replaced by None)."""
    from lib import xlabels
    rule = "C11.ENTRY.api"
    facts.load_crate("cedar_policy.lib")
    n = 0
    TRIVIAL = ("::map", "::as_ref", "::is_some", "::is_none", "::clone", "::copied", "::cloned", "::unwrap_or", "::and_then", "::ok_or", "::ok_or_else", "::as_deref", "::into", "::from", "::borrow", "::deref")
    for name in facts.unit_fns("cedar_policy.lib"):
        gen, kind, root, ti, file, line = facts.fns.meta(name)
        if gen or kind == "Closure" or not file.endswith(("src/api.rs", "src/api/tpe.rs")) or "::test" in name:
            continue
        f = facts.fns[name]
        if not f.r.get("pub"):
            continue
        ps = [i for i in range(1, f.nargs + 1) if "Schema" in f.locals[i] and "Option<" in f.locals[i]]
        if not ps:
            continue
        consumers = set()
        for g, L in xlabels.bodies_with_labels(facts, f, None, param_labels={i: {"SCHEMA"} for i in ps}):
            for b, t in g.calls():
                c = callee(t)
                if c.endswith(TRIVIAL) or "{closure" in c.split("::")[-1]:
                    continue
                if any("SCHEMA" in L.operand_labels(o) for o in t[2]):
                    consumers.add(c)
        real = sorted(c for c in consumers if c.startswith(("cedar_policy_core::", "cedar_policy::api::")) and not c.endswith("CoreSchema::new"))
        n += 1
        chk.ob(rule, short(name).split("api::")[-1], bool(real), "the schema parameter of %s reaches %s" % (short(name), [short(c).split("::")[-1] for c in real][:3] if real else "no worker function: the schema is ignored"),
               where=f.where(), fn=name, key="%s:%s" % (rule, name), sample={"fn": short(name), "consumers": [short(c) for c in real][:4]})
    chk.floor(rule, "public entry points with a schema parameter", n, 17)
    # the JSON parser builds the store with its own schema (validation happens on construction of the store)
    g = facts.fn("cedar_policy_core::entities::json::entities::EntityJsonParser::<'_, '_, S>::parse_ejsons")
    if g is None:
        chk.lost(rule, "EntityJsonParser::parse_ejsons")
    else:
        ok = False
        for b, t in g.calls():
            if callee(t).endswith("entities::Entities::from_entities") and len(t[2]) >= 2:
                o = t[2][1]
                src = set()
                for b2, s_ in g.stmts():
                    if s_[0] == "a" and o[0] in ("c", "m") and s_[1] == o[1]:
                        for p_ in shape._rv_places(s_[2]):
                            src |= {e[2] for e in p_[1:] if isinstance(e, list) and e[0] == "f"}
                ok = "schema" in src
        chk.ob(rule, "parse_ejsons", ok, "entities parsed from JSON are put into a store built with the parser's own schema (self.schema): %s" % ok, where=g.where(), fn=g.name)


def entity_components(chk, facts):
    """validate_entity checks the entity's attrs, ALL its ancestors (direct and indirect) and its tags: each component check receives
    the accessor of that component."""
    from lib.slice import leaf_producers
    rule = "C11.MUSTPASS"
    f = None
    for n in facts.fns.index:
        if "EntitySchemaConformanceChecker" in n and n.endswith("::validate_entity"):
            f = facts.fns[n]
    if f is None:
        chk.lost(rule, "EntitySchemaConformanceChecker::validate_entity")
        return
    want = {"::validate_entity_attributes": "attrs", "::validate_entity_ancestors": "ancestors", "::validate_tags": "tags"}
    for suffix, acc in want.items():
        sites = [(b, t) for b, t in f.calls() if callee(t).endswith(suffix)]
        ok = bool(sites)
        got = set()
        for b, t in sites:
            for o in t[2][1:]:
                got |= {x.split("::")[-1] for x in leaf_producers(f, o, extra_transparent=("::iter", "::into_iter", "::map", "::cloned")) if x.startswith("call:cedar_policy_core::ast::entity::Entity::")}
        ok = ok and acc in got and not (got & {"parents", "indirect_ancestors"} if acc == "ancestors" else set())
        chk.ob(rule, "validate_entity:%s" % acc, ok, "%s receives the entity's %s (accessors used: %s)" % (suffix.split("::")[-1], acc, sorted(got)), where=f.where(sites[0][1][1].get("l") if sites else None), fn=f.name,
               key="%s:validate_entity:%s" % (rule, acc))


def sibling(chk, facts):
    """principal / resource regions of validate_scope_variables are symmetric."""
    rule = "C11.SIBLING"
    f = find_fn(chk, facts, rule, CORE, "ValidatorSchema>::validate_scope_variables")
    if f is None:
        return
    L = shape.Labels(f, None, None, param_labels={2: {"principal"}, 3: {"action"}, 4: {"resource"}})
    prof = {"principal": [], "resource": []}
    for b, t in f.calls():
        c = callee(t)
        labs = set()
        for o in t[2]:
            labs |= L.operand_labels(o)
        for role in ("principal", "resource"):
            if role in labs:
                name = c.split("::")[-1].replace("principal", "ROLE").replace("resource", "ROLE")
                if c.startswith("cedar_policy_core::"):
                    prof[role].append(name)
    a, b = sorted(prof["principal"]), sorted(prof["resource"])
    chk.ob(rule, "principal~resource", a == b and len(a) >= 3,
           "workspace calls applied to the principal %s vs to the resource %s (must agree up to role renaming)" % (a, b),
           where=f.where(), fn=f.name, sample={"principal": a, "resource": b})


def run(chk, facts, tier):
    facts.load_crate("cedar_policy_core.lib")
    chk.explanation = (
        "Static decision of 'no conformance check is skipped or ignored' on the current MIR: (MUSTPASS) each composite check calls all its parts on every path to a "
        "success return (cut-reachability; per loop iteration for per-item checks; per branch of the action / non-action split), (HONOR) the failure edge of every elementary "
        "test (Result via ?, direct match, or boolean with its good polarity) cannot reach a success return and no check result is dropped, (MUSTPASS.entry) store entry points "
        "that take a schema cross validate_entity in every loop iteration (only the no-schema / action-split guards may skip it), (RECORD) both record typecheckers look every value key up in the declared attributes (not-found accepted only through a discriminating open-attributes test), every declared key up in the value (not-found accepted only through the required flag) and honour the recursive check, (SIBLING) principal and resource are checked symmetrically. Declines exactness of each elementary test "
        "(type equality, enum membership, applicability sets).")
    chk.assumptions = ["elementary tests (typecheck_value_against_schematype, is_valid_enumerated_entity, deep_eq, is_applicable_*_type) are exact",
                       "MIR at mir-opt-level=0 reflects source control flow"]
    run_spec(chk, facts)
    euids_traversal(chk, facts)
    entry_points(chk, facts)
    entity_components(chk, facts)
    api_entries(chk, facts)
    sibling(chk, facts)
    from rules import c11_record
    c11_record.check(chk, facts)
    from rules import c11_scope
    c11_scope.check(chk, facts)
    # "this holds equally through every entry point": the str / value / file forms of an entry point do the same work
    facts.load_crate("cedar_policy.lib")
    from rules import shared_forms
    shared_forms.check(chk, facts, "C11.SIBLING.forms", ["cedar_policy::api::", "cedar_policy_core::entities::", "cedar_policy_core::ast::"], 16)
