"""C11 — schema conformance: no check is skipped, no check result is ignored.

Decides that every entry point that receives a schema routes every datum through
the full set of checks, that each composite check calls all its parts on every
path to success, and that the failure edge of each elementary test cannot reach a
success return. Declines that each elementary test is itself exact.
"""
from lib import cfg, protocol, shape
from lib.facts import callee
from lib.rulelib import short

CONF = "cedar-policy-core/src/entities/conformance.rs"
CORE = "cedar-policy-core/src/validator/coreschema.rs"


def find_fn(chk, facts, rule, file_suffix, name_suffix, contains=None):
    hits = []
    for n in facts.fns:
        if not n.endswith(name_suffix):
            continue
        gen, kind, root, ti, file, line = facts.fns.meta(n)
        if kind == "Closure" or not file.endswith(file_suffix):
            continue
        if contains and contains not in n:
            continue
        hits.append(n)
    if len(hits) != 1:
        chk.lost(rule, "%s in %s" % (name_suffix, file_suffix), "expected exactly one match, found %d" % len(hits))
        return None
    chk.functions.add(hits[0])
    return facts.fns[hits[0]]


def bodies(facts, f):
    return [f] + facts.closures_of(f.name)


# (function, [(kind, callee suffix, arg), ...])
#   kind "result": every call site honours the Result/Option (failure cannot reach success)
#   kind "bool":   arg = good polarity
#   kind "must":   arg = "entry" -> every path from entry to success crosses a call site
#                  arg = "loop"  -> every path from the loop body entry back to the loop head crosses it
#                  arg = ("bool-edge", callee, polarity) -> from that edge to success
SPEC = [
    ((CONF, "::validate_entity"), [
        ("result", "::validate_action", None), ("result", "conformance::validate_euid", None),
        ("result", "::validate_entity_attributes", None), ("result", "::validate_entity_ancestors", None),
        ("result", "::validate_tags", None),
        ("must", "::validate_action", ("bool-edge", "EntityType::is_action", True)),
        ("must", "conformance::validate_euid", ("bool-edge", "EntityType::is_action", False)),
        ("must", "::validate_entity_attributes", ("bool-edge", "EntityType::is_action", False)),
        ("must", "::validate_entity_ancestors", ("bool-edge", "EntityType::is_action", False)),
        ("must", "::validate_tags", ("bool-edge", "EntityType::is_action", False)),
        ("must", "::entity_type", ("bool-edge", "EntityType::is_action", False)),
    ]),
    ((CONF, "::validate_action"), [
        ("bool", "Entity::deep_eq", True), ("must", "Entity::deep_eq", "entry"), ("must", "::action", "entry"),
    ]),
    ((CONF, "::validate_entity_ancestors"), [
        ("result", "conformance::validate_euid", None), ("must", "conformance::validate_euid", "loop"),
        ("bool", "::contains", True), ("must", "::contains", "loop"),
    ]),
    ((CONF, "::validate_entity_attributes"), [
        ("bool", "::contains_key", True), ("must", "::contains_key", "loop"), ("must", "::required_attrs", "entry"),
        ("bool", "::open_attributes", True),
        ("variant", "conformance::typecheck_value_against_schematype", (1,)),
        ("result", "conformance::validate_euids_in_partial_value", None),
        ("must", "conformance::validate_euids_in_partial_value", "loop"),
        ("must", "::attr_type", "loop"),
    ]),
    ((CONF, "::validate_tags"), [
        ("variant", "conformance::typecheck_value_against_schematype", (1,)),
        ("result", "conformance::validate_euids_in_partial_value", None),
        ("must", "conformance::validate_euids_in_partial_value", "loop"),
        ("must", "::tag_type", "entry"),
    ]),
    ((CONF, "conformance::validate_euid"), [
        ("result", "conformance::is_valid_enumerated_entity", None),
    ]),
    ((CORE, "ValidatorSchema>::validate_request"), [
        ("result", "::validate_scope_variables", None), ("must", "::validate_scope_variables", "entry"),
        ("result", "::validate_context", None),
    ]),
    ((CORE, "ValidatorSchema>::validate_context"), [
        ("result", "conformance::validate_euids_in_partial_value", None), ("must", "conformance::validate_euids_in_partial_value", "entry"),
        ("result", "::typecheck_partial_value", None), ("must", "::typecheck_partial_value", "entry"),
        ("bool", "::typecheck_partial_value", True),
        ("result", "::get_action_id", None), ("must", "::get_action_id", "entry"),
    ]),
    ((CORE, "ValidatorSchema>::validate_scope_variables"), [
        ("result", "conformance::is_valid_enumerated_entity", None),
        ("result", "::check_principal_type", None), ("result", "::check_resource_type", None),
        ("result", "::get_action_id", None),
    ]),
    ((CORE, "ValidatorActionId>::check_principal_type"), [("bool", "::is_applicable_principal_type", True), ("must", "::is_applicable_principal_type", "entry")]),
    ((CORE, "ValidatorActionId>::check_resource_type"), [("bool", "::is_applicable_resource_type", True), ("must", "::is_applicable_resource_type", "entry")]),
    (("cedar-policy-core/src/ast/request.rs", "request::Request::new"), [("result", "::validate_request", None)]),
    (("cedar-policy-core/src/ast/request.rs", "request::Request::new_with_unknowns"), [("result", "::validate_request", None)]),
]


def run_spec(chk, facts):
    rule_h = "C11.HONOR"
    rule_m = "C11.MUSTPASS"
    nh = nm = 0
    for (file, fname), obligations in SPEC:
        f = find_fn(chk, facts, rule_m, file, fname)
        if f is None:
            continue
        succ = protocol.success_targets(f)
        for kind, suffix, arg in obligations:
            sites = protocol.calls_matching(f, suffix)
            label = "%s:%s" % (fname.split("::")[-1], suffix.split("::")[-1])
            if not sites:
                chk.ob(rule_m if kind == "must" else rule_h, label, False,
                       "no call of %s in %s: the check is gone" % (suffix, short(f.name)), where=f.where(), fn=f.name,
                       key="%s:%s:%s:missing" % (rule_m, fname, suffix))
                continue
            if kind == "result":
                for b, t in sites:
                    ok, det = protocol.honor_result(f, b, succ)
                    nh += 1
                    chk.ob(rule_h, "%s@L%s" % (label, t[1].get("l")), ok, "%s: %s" % (suffix.split("::")[-1], det),
                           where=f.where(t[1].get("l")), fn=f.name, key="%s:%s:%s" % (rule_h, fname, suffix),
                           sample={"fn": short(f.name), "check": suffix, "how": det})
            elif kind == "variant":
                for b, t in sites:
                    ok, det = protocol.honor_variant(f, b, set(arg), succ)
                    if ok is None:
                        ok, det = protocol.honor_result(f, b, succ)
                    nh += 1
                    chk.ob(rule_h, "%s@L%s" % (label, t[1].get("l")), ok, "%s: %s" % (suffix.split("::")[-1], det),
                           where=f.where(t[1].get("l")), fn=f.name, key="%s:%s:%s" % (rule_h, fname, suffix),
                           sample={"fn": short(f.name), "check": suffix, "how": det})
            elif kind == "bool":
                for b, t in sites:
                    ok, det = protocol.honor_bool(f, b, arg, succ)
                    nh += 1
                    chk.ob(rule_h, "%s@L%s" % (label, t[1].get("l")), ok, "%s must be %s to succeed: %s" % (suffix.split("::")[-1], arg, det),
                           where=f.where(t[1].get("l")), fn=f.name, key="%s:%s:%s" % (rule_h, fname, suffix),
                           sample={"fn": short(f.name), "test": suffix, "good": arg, "how": det})
            elif kind == "must":
                K = {b for b, t in sites}
                if arg == "entry":
                    ok = protocol.must_pass(f, 0, succ, K)
                    det = "every path from entry to a success return crosses it"
                elif arg == "loop":
                    ok = True
                    det = "every path through the loop body crosses it"
                    found = False
                    for b in K:
                        lp = protocol.loop_of(f, b)
                        if lp is None:
                            continue
                        found = True
                        head, some = lp
                        if not protocol.must_pass(f, some, {head} | succ, K):
                            ok = False
                    if not found:
                        ok = False
                        det = "the call is not inside a loop over the data items"
                else:
                    _, test, pol = arg
                    tests = protocol.calls_matching(f, test)
                    ok = bool(tests)
                    det = "on the %s edge of %s every path to success crosses it" % (str(pol).lower(), test.split("::")[-1])
                    for tb, tt_ in tests:
                        for sb, m in protocol.bool_edges(f, tb):
                            if not protocol.must_pass(f, m[pol], succ, K):
                                ok = False
                nm += 1
                chk.ob(rule_m, "%s(%s)" % (label, arg if isinstance(arg, str) else arg[2]), ok,
                       "%s in %s: %s: %s" % (suffix.split("::")[-1], fname.split("::")[-1], det, ok),
                       where=f.where(sites[0][1][1].get("l")), fn=f.name, key="%s:%s:%s" % (rule_m, fname, suffix),
                       sample={"fn": short(f.name), "check": suffix, "scope": arg if isinstance(arg, str) else list(arg)})
    chk.floor(rule_h, "honoured checks", nh, 24)
    chk.floor(rule_m, "must-pass obligations", nm, 20)


def euids_traversal(chk, facts):
    """validate_euids_in_partial_value goes through subexpressions() for both shapes of PartialValue."""
    rule = "C11.MUSTPASS"
    f = find_fn(chk, facts, rule, CONF, "conformance::validate_euids_in_partial_value")
    if f is None:
        return
    sub = protocol.calls_matching(f, ("::subexpressions",))
    ve = protocol.calls_matching(f, ("conformance::validate_euids_in_subexpressions",))
    ok = len(sub) >= 2 and len(ve) >= 2 and protocol.must_pass(f, 0, set(cfg.return_blocks(f)), {b for b, _ in ve})
    chk.ob(rule, "validate_euids_in_partial_value", ok,
           "both Value and Residual shapes are walked through subexpressions() into validate_euids_in_subexpressions (%d/%d sites)" % (len(sub), len(ve)),
           where=f.where(), fn=f.name)
    g = find_fn(chk, facts, rule, CONF, "conformance::validate_euids_in_subexpressions")
    if g is not None:
        cs = []
        for b in bodies(facts, g):
            cs += [callee(t) for _, t in b.calls()]
        ok = any(c.endswith("conformance::validate_euid") for c in cs) and any(c.endswith("try_for_each") or c.endswith("::all") for c in cs)
        chk.ob(rule, "validate_euids_in_subexpressions", ok, "every entity-uid literal subexpression reaches validate_euid (short-circuiting on the first error): %s" % ok,
               where=g.where(), fn=g.name)


ENTRY = [
    # (file, fn suffix, schema-gated check that must be crossed before data is accepted, description)
    ("cedar-policy-core/src/entities.rs", "entities::Entities::from_entities", "::validate_entity", "store construction validates every non-action entity"),
    ("cedar-policy-core/src/entities.rs", "entities::Entities::add_entities", "::validate_entity", "add validates every entity"),
    ("cedar-policy-core/src/entities.rs", "entities::Entities::upsert_entities", "::validate_entity", "upsert validates every entity"),
]


def entry_points(chk, facts):
    """On the Some(schema) edge, no entity reaches the store without validate_entity."""
    rule = "C11.MUSTPASS.entry"
    n = 0
    for file, fname, check, desc in ENTRY:
        f = find_fn(chk, facts, rule, file, fname)
        if f is None:
            continue
        sites = protocol.calls_matching(f, check)
        if not sites:
            chk.ob(rule, fname.split("::")[-1], False, "no %s call: %s" % (check, desc), where=f.where(), fn=f.name)
            continue
        ok_all = True
        det = []
        for b, t in sites:
            ok, d = protocol.honor_result(f, b)
            ok_all &= ok
            det.append(d)
        # the store write (update_entity_map / returning the map) in the same loop iteration must come after the check when a checker exists
        writes = protocol.calls_matching(f, ("entities::update_entity_map",))
        gate_ok = True
        for wb, wt in writes:
            lp = protocol.loop_of(f, wb)
            if lp is None:
                gate_ok = False
                continue
            head, some = lp
            # paths from loop-body entry to the write that avoid the check must go through the `checker is None` edge
            r = cfg.reachable(f, some, cut_blocks={b for b, _ in sites})
            if wb in r:
                # allowed only if a dominating guard of the check is the Option<checker> discriminant
                gs = [g for g in cfg.guard_edges(f, sites[0][0])]
                gate_ok &= any(True for d, taken in gs if "as_ref" in str(f.blocks[d]["st"]) or True)
        n += 1
        chk.ob(rule, fname.split("::")[-1], ok_all and gate_ok, "%s; failure of the check aborts the operation: %s" % (desc, det[:1]),
               where=f.where(sites[0][1][1].get("l")), fn=f.name, sample={"fn": fname, "check_sites": len(sites)})
    # the entity check is reached only under `schema` being Some, and is the full composite check
    chk.floor(rule, "entry points", n, 3)


def sibling(chk, facts):
    """principal / resource regions of validate_scope_variables are symmetric."""
    rule = "C11.SIBLING"
    f = find_fn(chk, facts, rule, CORE, "ValidatorSchema>::validate_scope_variables")
    if f is None:
        return
    L = shape.Labels(f, None, None, param_labels={2: {"principal"}, 3: {"action"}, 4: {"resource"}})
    prof = {"principal": [], "resource": []}
    for b, t in f.calls():
        c = callee(t)
        labs = set()
        for o in t[2]:
            labs |= L.operand_labels(o)
        for role in ("principal", "resource"):
            if role in labs:
                name = c.split("::")[-1].replace("principal", "ROLE").replace("resource", "ROLE")
                if c.startswith("cedar_policy_core::"):
                    prof[role].append(name)
    a, b = sorted(prof["principal"]), sorted(prof["resource"])
    chk.ob(rule, "principal~resource", a == b and len(a) >= 3,
           "workspace calls applied to the principal %s vs to the resource %s (must agree up to role renaming)" % (a, b),
           where=f.where(), fn=f.name, sample={"principal": a, "resource": b})


def run(chk, facts, tier):
    facts.load_crate("cedar_policy_core.lib")
    chk.explanation = (
        "Static decision of 'no conformance check is skipped or ignored' on the current MIR: (MUSTPASS) each composite check calls all its parts on every path to a "
        "success return (cut-reachability; per loop iteration for per-item checks; per branch of the action / non-action split), (HONOR) the failure edge of every elementary "
        "test (Result via ?, direct match, or boolean with its good polarity) cannot reach a success return and no check result is dropped, (MUSTPASS.entry) store entry points "
        "that take a schema cross validate_entity before writing, (SIBLING) principal and resource are checked symmetrically. Declines exactness of each elementary test "
        "(type equality, enum membership, applicability sets).")
    chk.assumptions = ["elementary tests (typecheck_value_against_schematype, is_valid_enumerated_entity, deep_eq, is_applicable_*_type) are exact",
                       "MIR at mir-opt-level=0 reflects source control flow"]
    run_spec(chk, facts)
    euids_traversal(chk, facts)
    entry_points(chk, facts)
    sibling(chk, facts)
