"""C05.PRINT.scope / C05.PRINT.policy — the text printed for scope constraints and for a policy, read as the grammar reads it,
denotes what the constraint / policy means.

For each scope-constraint kind the printed form is  <var> [<op-token> <component>]...  with the operator tokens of the grammar;
the rule checks that the operator token printed in front of a component is the token of the operation `as_expr` applies to that
component (C01.SCOPE derives it: == for is_eq, in for is_in, is for is_entity_type), that the variable comes first and each
component is the variant's own. For a policy: effect ( principal , action , resource ) [when { condition }] ; in this order.
Whitespace is not compared.
"""
from lib import shape, cfg, fmtstr, hom, grammar
from lib import cfg
from lib.facts import callee
from lib.rulelib import get_fn, short

P = "cedar_policy_core::ast::policy::"
# operation as_expr applies -> the token that denotes it in the grammar (taken from Display for BinaryOp / the IS keyword)
OPTOKEN = {"is_eq": "==", "is_in": "in", "is_entity_type": "is"}


def scope(chk, facts):
    rule = "C05.PRINT.scope"
    ADT = P + "PrincipalOrResourceConstraint"
    f = get_fn(chk, facts, rule, ADT + "::display")
    g = get_fn(chk, facts, rule, ADT + "::as_expr")
    r = facts.adts.get(ADT)
    if f is None or g is None or r is None:
        return
    gr = grammar.load()
    known_tokens = set(gr["literals"]) | set(gr["aliases"].values())
    # what as_expr does with each component
    from rules.c01_condition import ector
    ev = hom.arm_events(facts, g, "ast::policy::PrincipalOrResourceConstraint", lambda c, t: ector(c))
    meaning = {}
    for vi, arm in (ev or {"arms": {}})["arms"].items():
        vn = r["variants"][vi]["name"]
        m = {}
        for e in arm["events"]:
            if e["ctor"] in OPTOKEN:
                for a in e["args"][1:2]:
                    for lab in a:
                        if lab.startswith(vn + "."):
                            m[lab] = OPTOKEN[e["ctor"]]
        meaning[vn] = m
    sws = sorted(shape.variant_switches(f, "ast::policy::PrincipalOrResourceConstraint"), key=lambda s: -len(s[2]))
    if not sws:
        chk.lost(rule, "match in display")
        return
    b, scrut, arms, other = sws[0]
    n = 0
    for vi, tgt in sorted(arms.items()):
        vn = r["variants"][vi]["name"]
        region = cfg.dominated_region(f, tgt)
        seedv = shape.variant_field_seed("ast::policy::PrincipalOrResourceConstraint")
        L = shape.Labels(f, None, lambda p: list(seedv(p) or []) + (["VAR"] if p[0] == 2 else []))
        ss = [s for s in fmtstr.sites(f, region, L) if s["pieces"] is not None]
        probs = []
        if len(ss) != 1:
            probs.append("%d format sites" % len(ss))
        else:
            s = ss[0]
            toks = fmtstr.tokens(s["pieces"])
            args = s["args"]
            k = 0
            prev = None
            seq = []
            for tk in toks:
                if tk == "{}":
                    a = args[k] if k < len(args) else {"labels": set()}
                    comp = sorted(x for x in a["labels"] if x.startswith(vn + "."))
                    seq.append(("arg", comp if comp else (["VAR"] if "VAR" in a["labels"] else []), prev))
                    k += 1
                    prev = None
                else:
                    if tk not in known_tokens:
                        probs.append("prints `%s`, which is not a token of the grammar" % tk)
                    prev = tk
                    seq.append(("tok", tk))
            argseq = [x for x in seq if x[0] == "arg"]
            if not argseq or argseq[0][1] != ["VAR"] or argseq[0][2] is not None:
                probs.append("the constrained variable is not printed first")
            want = meaning.get(vn, {})
            seen = set()
            for _, comp, tokbefore in argseq[1:]:
                if len(comp) != 1:
                    probs.append("an argument derives from %s" % comp)
                    continue
                seen.add(comp[0])
                if want.get(comp[0]) != tokbefore:
                    probs.append("component %s is printed after `%s` but as_expr applies the operation written `%s` to it" % (comp[0], tokbefore, want.get(comp[0])))
            missing = sorted(set(want) - seen)
            if missing:
                probs.append("component(s) %s are not printed" % missing)
        n += 1
        chk.ob(rule, vn, not probs, "scope constraint %s prints %s%s" % (vn, fmtstr.tokens(ss[0]["pieces"]) if len(ss) == 1 else "?", (": " + "; ".join(probs)) if probs else " — the tokens of the operations as_expr applies, components in place"),
               where=f.where(ss[0]["line"] if ss else None), fn=f.name, key="%s:%s:%s" % (rule, vn, ";".join(probs)), sample={"variant": vn, "tokens": fmtstr.tokens(ss[0]["pieces"]) if len(ss) == 1 else None})
    chk.floor(rule, "constraint kinds", n, 5)


def policy(chk, facts):
    rule = "C05.PRINT.policy"
    parts = ("effect", "principal_constraint", "action_constraint", "resource_constraint", "non_scope_constraints")
    # both printers of a whole policy (TemplateBody and StaticPolicy) are held to the same form
    for owner, accmark in (("TemplateBody", ("TemplateBody",)), ("StaticPolicy", ("StaticPolicy", "TemplateBody"))):
        f = get_fn(chk, facts, rule, "<" + P + owner + " as std::fmt::Display>::fmt")
        if f is None:
            continue

        def cl(c, t, accmark=accmark):
            last = c.split("::")[-1]
            return ["ACC:" + last] if last in parts and any(m in c for m in accmark) else None
        L = shape.Labels(f, None, None, call_labels=cl)
        ss = [s for s in fmtstr.sites(f, None, L) if s["pieces"] is not None and s["args"]]
        seqs = []
        for s in sorted(ss, key=lambda s: s["line"] or 0):
            toks = fmtstr.tokens(s["pieces"])
            k = 0
            seq = []
            for tk in toks:
                if tk == "{}":
                    a = s["args"][k] if k < len(s["args"]) else {"labels": set()}
                    seq.append("<" + ",".join(sorted(x[4:] for x in a["labels"] if x.startswith("ACC:"))) + ">")
                    k += 1
                else:
                    seq.append(tk)
            seqs.append("".join(seq))
        scope_ok = "<effect>(<principal_constraint>,<action_constraint>,<resource_constraint>)" in seqs
        chk.ob(rule, owner + ":scope-order", scope_ok, "%s prints %s (required: effect ( principal , action , resource ))" % (owner, [q for q in seqs if q.startswith("<effect>")]), where=f.where(), fn=f.name,
               key="%s:%s:scope-order" % (rule, owner))
        body = [q for q in seqs if "non_scope_constraints" in q]
        ok = body == ["when{<non_scope_constraints>};"]
        chk.ob(rule, owner + ":body", ok, "%s prints the condition as %s (required: when { condition } ;  — the stored condition already contains the negated unless clauses)" % (owner, body), where=f.where(), fn=f.name,
               key="%s:%s:body" % (rule, owner))
        ann = any("annotations" in str(panics_field(f, t)) for _, t in f.calls()) or any(
            isinstance(e, list) and e[0] == "f" and e[2] == "annotations" for _, s_ in f.stmts() if s_[0] == "a" for p_ in shape._rv_places(s_[2]) for e in p_[1:])
        chk.ob(rule, owner + ":annotations", ann, "%s prints the annotations: %s" % (owner, ann), where=f.where(), fn=f.name)
    # effect keywords
    e = facts.fn("<" + P + "Effect as std::fmt::Display>::fmt")
    if e is None:
        chk.lost(rule, "Display for Effect")
    else:
        gr = grammar.load()
        E = facts.adts.get(P + "Effect")
        got = {}
        for b, scrut, arms, other in shape.variant_switches(e, "ast::policy::Effect"):
            for vi, tgt in arms.items():
                lits = [s_["pieces"][0][1] for s_ in fmtstr.sites(e, cfg.dominated_region(e, tgt)) if s_["pieces"]]
                got[E["variants"][vi]["name"]] = lits
        want = {"Permit": [gr["aliases"].get("PERMIT")], "Forbid": [gr["aliases"].get("FORBID")]}
        chk.ob(rule, "effect-keywords", got == want, "effects print as %s; the grammar's keywords are %s" % (got, want), where=e.where(), fn=e.name)


def panics_field(f, t):
    from lib import panics
    return panics.producer(f, t[2][0]) if t[2] else ""


def action(chk, facts):
    rule = "C05.PRINT.scope"
    ADT = P + "ActionConstraint"
    f = get_fn(chk, facts, rule, "<" + ADT + " as std::fmt::Display>::fmt")
    r = facts.adts.get(ADT)
    if f is None or r is None:
        return
    gr = grammar.load()
    sws = sorted(shape.variant_switches(f, "ast::policy::ActionConstraint"), key=lambda s: -len(s[2]))
    if not sws:
        chk.lost(rule, "match in Display for ActionConstraint")
        return
    b, scrut, arms, other = sws[0]
    want = {"Any": ["action"], "In": ["action", "in", "[", "{}", "]"], "Eq": ["action", "==", "{}"]}
    seedv = shape.variant_field_seed("ast::policy::ActionConstraint")
    L = shape.Labels(f, None, seedv)
    for vi, tgt in sorted(arms.items()):
        vn = r["variants"][vi]["name"]
        if vn not in want:
            continue
        ss = [s_ for s_ in fmtstr.sites(f, cfg.dominated_region(f, tgt), L) if s_["pieces"] is not None]
        toks = []
        comp_ok = True
        for s_ in ss:
            toks += [x for t_ in fmtstr.tokens(s_["pieces"]) for x in ([t_] if t_ in ("{}",) else t_.replace("[", " [ ").replace("]", " ] ").split())]
            for a in s_["args"]:
                comp_ok &= any(x.startswith(vn + ".") for x in a["labels"])
        var_kw = gr["aliases"].get("ACTION")
        ok = toks == [var_kw if x == "action" else x for x in want[vn]] and comp_ok
        chk.ob(rule, "action:" + vn, ok, "action constraint %s prints %s (required %s, with its own euid(s))" % (vn, toks, want[vn]), where=f.where(ss[0]["line"] if ss else None), fn=f.name,
               key="%s:action:%s" % (rule, vn))


QUOTED_PRINTERS = [
    # (function, what is printed between the quotes)
    ("<cedar_policy_core::ast::annotation::Annotation as std::fmt::Display>::fmt", "annotation value"),
    ("<cedar_policy_core::ast::policy::StaticPolicy as std::fmt::Display>::fmt", "annotation value"),
    ("<cedar_policy_core::ast::literal::Literal as std::fmt::Display>::fmt", "string literal"),
    ("<cedar_policy_core::ast::entity::EntityUID as std::fmt::Display>::fmt", "entity id"),
    ("cedar_policy_core::est::expr::display_cedarvaluejson", "string literal / record key"),
]
ESCAPERS = ("::escape_debug", "Eid::escaped", "::escape_default")


def quoted(chk, facts):
    """Every program string written between double quotes goes through the escaper the lexer's unescaper inverts (escape_debug),
    so quotes, backslashes and control characters in strings, entity ids, record keys and annotation values cannot end the literal early."""
    rule = "C05.ESCAPE.quoted"
    n = 0
    for name, what in QUOTED_PRINTERS:
        f = get_fn(chk, facts, rule, name)
        if f is None:
            continue
        L = shape.Labels(f, None, None, call_labels=lambda c, t: ["ESC"] if c.endswith(ESCAPERS) else None)
        n0 = n
        for s_ in fmtstr.sites(f, None, L):
            if not s_["pieces"] or not s_["args"]:
                continue
            k = 0
            pcs = s_["pieces"]
            for i, pc in enumerate(pcs):
                if pc[0] != "arg":
                    continue
                before = pcs[i - 1][1] if i > 0 and pcs[i - 1][0] == "lit" else ""
                after = pcs[i + 1][1] if i + 1 < len(pcs) and pcs[i + 1][0] == "lit" else ""
                a = s_["args"][k] if k < len(s_["args"]) else {"labels": set()}
                k += 1
                if before.endswith('"') and after.startswith('"'):
                    n += 1
                    ok = "ESC" in a["labels"]
                    chk.ob(rule, "%s@L%s" % (name.split("::")[-2].split(" ")[0].strip("<") if "Display" in name else name.split("::")[-1], s_["line"]), ok,
                           "%s written between quotes %s" % (what, "is escaped (escape_debug)" if ok else "is NOT escaped: a quote or backslash in it breaks the printed text"),
                           where=f.where(s_["line"]), fn=f.name, key="%s:%s" % (rule, name))
        # the printer is in the table because it writes a program string: it must still do so between quotes, escaped
        chk.ob(rule, "%s:writes-quoted" % (name.split("::")[-2].split(" ")[0].strip("<") if "Display" in name else name.split("::")[-1]), n > n0,
               "%s is written by this printer as \"<escaped>\" (%d quoted site(s) found; none means it is now printed some other way than the lexer's unescaper inverts)" % (what, n - n0),
               where=f.where(), fn=f.name, key="%s:%s:writes" % (rule, name))
    chk.floor(rule, "quoted payload sites", n, 7)
    # patterns: a literal `*` is printed as \* , every other character through escape_debug, the wildcard as *
    f = get_fn(chk, facts, rule, "<cedar_policy_core::ast::pattern::Pattern as std::fmt::Display>::fmt")
    if f is not None:
        lits = []
        esc = False
        for s_ in fmtstr.sites(f):
            if s_["pieces"]:
                lits += [p_[1] for p_ in s_["pieces"] if p_[0] == "lit"]
        esc = any(callee(t).endswith("::escape_debug") for _, t in f.calls())
        ok = sorted(lits) == sorted(["\\*", "*"]) and esc
        chk.ob(rule, "pattern", ok, "patterns print the wildcard as `*`, a literal star as `\\*` and other characters through escape_debug: literals %s, escape_debug %s" % (lits, esc), where=f.where(), fn=f.name)


def escaper_total(chk, facts):
    """`Eid::escaped` is trusted as an escaper by C05.ESCAPE.quoted; it is one only if *every* path that handles a real id passes
    the id through escape_debug (a shortcut that returns the raw text for "harmless" ids decides by its own character list what the
    lexer's unescaper needs escaped)."""
    rule = "C05.ESCAPE.escaper"
    f = get_fn(chk, facts, rule, "cedar_policy_core::ast::entity::Eid::escaped")
    if f is None:
        return
    esc = {b for b, t in f.calls() if callee(t).endswith(("::escape_debug",))}
    starts = set()
    for b, s_ in f.stmts():
        if s_[0] != "a":
            continue
        rv = s_[2]
        places = []
        if rv[0] == "ref":
            places.append(rv[1])
        elif rv[0] == "use" and rv[1][0] in "cm":
            places.append(rv[1][1])
        for pl in places:
            if pl[0] == 1 and any(isinstance(e, list) and e and e[0] == "d" and e[1] == "Eid" for e in pl[1:]):
                starts.add(b)
    rets = set(cfg.return_blocks(f))
    bad = sorted(b for b in starts if not cfg.must_pass(f, b, rets, esc))
    chk.ob(rule, "Eid::escaped", bool(starts) and bool(esc) and not bad,
           "Eid::escaped: every path from reading the id to the return passes through escape_debug (%d read site(s), %d escape_debug call(s))" % (len(starts), len(esc))
           if starts and esc and not bad else
           "Eid::escaped: a path returns text for a real id without passing it through escape_debug (from bb%s): what the lexer's unescaper needs escaped is decided by escape_debug, not by a private character list" % (bad or "?"),
           where=f.where(), fn=f.name, sample={"reads": sorted(starts), "escape_calls": sorted(esc), "bypass_from": bad})


PIPE_OK = ("values", "sorted_by_key", "sorted", "sorted_by", "sorted_unstable", "sorted_unstable_by_key", "map", "collect", "collect_vec", "into_iter", "iter", "rev",
           "chain", "cloned", "copied", "branch", "from_residual", "join", "deref", "concat", "as_ref", "id", "to_cedar", "stringify", "clone", "as_slice", "as_str")
PIPE_DROPS = ("filter", "filter_map", "dedup", "dedup_by", "dedup_by_key", "unique", "unique_by", "take", "skip", "take_while", "skip_while", "step_by", "retain", "truncate",
              "pop", "remove", "swap_remove", "drain", "next", "last", "nth", "find", "flatten", "flat_map", "map_while", "zip", "min", "max", "first", "split_off", "clear")


def policy_set_text(chk, facts):
    """The text of a policy set contains every policy and template once each: the rendering pipelines only order and map
    (no filtering / deduplicating step, no set- or map-typed intermediate collection), render with to_cedar, and the whole
    text joins both lists."""
    rule = "C05.PRINT.set"
    facts.load_crate("cedar_policy.lib")
    f = get_fn(chk, facts, rule, "cedar_policy::api::PolicySet::stringify")
    g = get_fn(chk, facts, rule, "cedar_policy::api::PolicySet::to_cedar")
    n = 0
    for h in (f, g):
        if h is None:
            continue
        unknown, drops, coll = [], [], []
        for b, t in h.calls():
            c = callee(t)
            last = c.split("::")[-1]
            if last in PIPE_DROPS:
                drops.append(last)
            elif last not in PIPE_OK:
                unknown.append(last)
            if last in ("collect", "collect_vec", "from_iter"):
                ty = h.locals[t[3][0]]
                coll.append(ty)
        setty = [ty for ty in coll if any(x in ty for x in ("Set<", "Map<", "BTreeSet", "HashSet", "IndexSet", "BTreeMap", "HashMap"))]
        n += 1
        chk.ob(rule, "%s:pipeline" % h.name.split("::")[-1], not drops and not setty and bool(coll),
               "%s renders through ordering / mapping steps only: dropping steps %s, unreviewed steps %s, set- or map-typed collections %s (%d collection(s))" % (
                   h.name.split("::")[-1], drops or "none", unknown or "none", [x[:60] for x in setty] or "none", len(coll)),
               where=h.where(), fn=h.name, key="%s:%s:pipeline:%s" % (rule, h.name.split("::")[-1], ",".join(sorted(set(drops)))),
               sample={"fn": h.name.split("::")[-1], "collections": [x[:80] for x in coll]})
    if f is not None:
        def seed(p):
            if p[0] == 1:
                for e in p[1:]:
                    if isinstance(e, list) and e[0] == "f" and e[2] in ("policies", "templates"):
                        return ["self." + e[2]]
            return []
        L = shape.Labels(f, None, seed)
        got = {}
        for b, t in f.calls():
            if callee(t).endswith("iter::Iterator::map") and len(t[2]) > 1 and t[2][1][0] == "k":
                fnn = (t[2][1][1].get("rf") or t[2][1][1].get("fn") or "")
                for lab in L.operand_labels(t[2][0]):
                    got[lab] = fnn.split("::")[-2:] if fnn else None
        ok = got.get("self.policies") == ["Policy", "to_cedar"] and got.get("self.templates") == ["Template", "to_cedar"]
        n += 1
        chk.ob(rule, "stringify:sources", ok, "static policies are rendered from self.policies with Policy::to_cedar and templates from self.templates with Template::to_cedar: %s" % got,
               where=f.where(), fn=f.name, sample={"sources": {k: v for k, v in got.items()}})
        agg = [s_ for _, s_ in f.stmts() if s_[0] == "a" and s_[2][0] == "agg" and s_[2][1][0] == "adt" and str(s_[2][1][1]).endswith("StringifiedPolicySet")]
        ok = False
        if len(agg) == 1:
            ops = agg[0][2][2]
            labs = [L.operand_labels(o) & {"self.policies", "self.templates"} for o in ops]
            ok = sorted(map(sorted, labs)) == [["self.policies"], ["self.templates"]]
        n += 1
        chk.ob(rule, "stringify:result", ok, "the result holds both rendered lists, each from its own source: %s" % ok, where=f.where(), fn=f.name)
    if g is not None:
        def seed2(p):
            for e in p[1:]:
                if isinstance(e, list) and e[0] == "f" and e[2] in ("policies", "policy_templates"):
                    return ["S." + e[2]]
            return []
        L2 = shape.Labels(g, None, seed2)
        j = [(b, t) for b, t in g.calls() if callee(t).endswith("::join")]
        ok = len(j) == 1 and {"S.policies", "S.policy_templates"} <= L2.operand_labels(j[0][1][2][0])
        n += 1
        chk.ob(rule, "to_cedar:join", ok, "the policy-set text joins the rendered policies and the rendered templates: %s" % ok, where=g.where(), fn=g.name)
    chk.floor(rule, "policy-set text obligations", n, 5)


def check(chk, facts):
    quoted(chk, facts)
    escaper_total(chk, facts)
    policy_set_text(chk, facts)
    scope(chk, facts)
    action(chk, facts)
    policy(chk, facts)
